"""Translate the decision code and the name builders of ORMatic into coq/Gen/ParseField.v (fail-closed).

Sources (relative to the repository root):
  src/krrood/ormatic/wrapped_table.py   WrappedTable: primary_key_name / polymorphic_on_name defaults, tablename,
                                        full_primary_key_name, parse_fields (private-field test), parse_field (dispatch
                                        chain), create_one_to_one_relationship / create_one_to_many_relationship (names,
                                        AssociationTable binding), create_mapper_args (conditions and entries)
  src/krrood/ormatic/ormatic.py         ORMatic.foreign_key_postfix
  src/krrood/class_diagrams/wrapped_field.py   is_one_to_one_relationship, is_one_to_many_relationship
  src/krrood/ormatic/templates/sqlalchemy_model.py.jinja   only checked: the sequence of template tags (emission order)

Anything that is not literally one of the understood shapes raises Refuse with file:line.
String expressions: constants, f-strings without conversions, `+`, `.lower()`, local names, a fixed table of inputs.
Boolean expressions: and / or / not, `x.startswith("c")`, `a in b`, `x is None`, `x is not None`, a fixed table of atoms.
"""
from __future__ import annotations

import ast
import re
from pathlib import Path
from typing import Dict, List, Optional, Tuple

from .py2coq import Refuse

WT = "src/krrood/ormatic/wrapped_table.py"
OM = "src/krrood/ormatic/ormatic.py"
WF = "src/krrood/class_diagrams/wrapped_field.py"
TPL = "src/krrood/ormatic/templates/sqlalchemy_model.py.jinja"

EXPECTED_TAGS = [
    "{% for import in ormatic.imported_modules %}", "{{ import }}", "{% endfor %}",
    "{% for key, value in ormatic.type_annotation_map.items() %}", "{{ key }}", "{{ value }}", "{% endfor %}",
    "{% for assoc_table in ormatic.association_tables %}", "{{ assoc_table.name }}", "{{ assoc_table.name }}",
    "{{ assoc_table.left_foreign_key }}", "{{ assoc_table.left_primary_key }}", "{{ assoc_table.right_foreign_key }}",
    "{{ assoc_table.right_primary_key }}", "{% endfor %}",
    "{% for table in ormatic.wrapped_tables.values() %}", "{{ table.tablename }}", "{{ table.base_class_name }}",
    "{{ table.wrapped_clazz.clazz.__module__ }}", "{{ table.wrapped_clazz.clazz.__qualname__ }}", "{{ table.tablename }}",
    "{{ table.primary_key }}",
    "{% for column in table.builtin_columns %}", "{{ column }}", "{% endfor %}",
    "{% for column in table.custom_columns %}", "{{ column }}", "{% endfor %}",
    "{% for column in table.foreign_keys %}", "{{ column }}", "{% endfor %}",
    "{% for column in table.relationships %}", "{{ column }}", "{% endfor %}",
    "{% if table.mapper_args %}", "{% for key, value in table.mapper_args.items() %}", "{{ key }}", "{{ value }}",
    "{% endfor %}", "{% endif %}", "{% endfor %}",
]
EXPECTED_TEMPLATE_LINES = [
    "Column('{{ assoc_table.left_foreign_key }}', ForeignKey('{{ assoc_table.left_primary_key }}')),",
    "Column('{{ assoc_table.right_foreign_key }}', ForeignKey('{{ assoc_table.right_primary_key }}')),",
    "class {{ table.tablename }}({{ table.base_class_name }}, DataAccessObject[{{ table.wrapped_clazz.clazz.__module__ }}.{{ table.wrapped_clazz.clazz.__qualname__ }}]):",
    "__tablename__ = '{{ table.tablename }}'",
    "{{ assoc_table.name }} = Table(",
    "'{{ assoc_table.name }}',",
    "import {{ import }}",
]


def gstr(s: str) -> str:
    if '"' in s or any(ord(c) < 32 or ord(c) > 126 for c in s):
        raise ValueError(f"string constant not representable: {s!r}")
    return '"' + s + '"'


class Ctx:
    def __init__(self, fn: str, inputs: Dict[str, str], locals_: Optional[Dict[str, str]] = None):
        self.fn = fn
        self.inputs = inputs          # ast.unparse text -> gallina term
        self.locals = dict(locals_ or {})
        self.used: List[str] = []


def sexpr(e: ast.AST, cx: Ctx) -> str:
    """string-valued expression -> Gallina term of type string"""
    if isinstance(e, ast.Constant) and isinstance(e.value, str):
        return gstr(e.value)
    if isinstance(e, ast.JoinedStr):
        parts = []
        for v in e.values:
            if isinstance(v, ast.Constant) and isinstance(v.value, str):
                parts.append(gstr(v.value))
            elif isinstance(v, ast.FormattedValue):
                if v.conversion != -1 or v.format_spec is not None:
                    raise Refuse(v, "f-string conversion / format spec", cx.fn)
                parts.append(sexpr(v.value, cx))
            else:
                raise Refuse(v, "f-string part", cx.fn)
        if not parts:
            return '""'
        out = parts[-1]
        for p in reversed(parts[:-1]):
            out = f"({p} ++ {out})"
        return out
    if isinstance(e, ast.BinOp) and isinstance(e.op, ast.Add):
        return f"({sexpr(e.left, cx)} ++ {sexpr(e.right, cx)})"
    if isinstance(e, ast.Call) and isinstance(e.func, ast.Attribute) and e.func.attr == "lower" and not e.args and not e.keywords:
        return f"(py_lower {sexpr(e.func.value, cx)})"
    if isinstance(e, ast.Name) and e.id in cx.locals:
        return cx.locals[e.id]
    txt = ast.unparse(e)
    if txt in cx.inputs:
        if cx.inputs[txt] not in cx.used:
            cx.used.append(cx.inputs[txt])
        return cx.inputs[txt]
    raise Refuse(e, f"string expression `{txt}`", cx.fn)


def bexpr(e: ast.AST, cx: Ctx) -> str:
    """boolean expression over the atom table -> Gallina term of type bool"""
    if isinstance(e, ast.BoolOp):
        fn = "andb" if isinstance(e.op, ast.And) else "orb"
        vals = [bexpr(v, cx) for v in e.values]
        out = vals[-1]
        for v in reversed(vals[:-1]):
            out = f"({fn} {v} {out})"
        return out
    if isinstance(e, ast.UnaryOp) and isinstance(e.op, ast.Not):
        return f"(negb {bexpr(e.operand, cx)})"
    if isinstance(e, ast.Call) and isinstance(e.func, ast.Attribute) and e.func.attr == "startswith" and len(e.args) == 1 \
            and not e.keywords and isinstance(e.args[0], ast.Constant) and isinstance(e.args[0].value, str):
        return f"(py_startswith {sexpr(e.func.value, cx)} {gstr(e.args[0].value)})"
    txt = ast.unparse(e)
    if txt in cx.inputs:
        if cx.inputs[txt] not in cx.used:
            cx.used.append(cx.inputs[txt])
        return cx.inputs[txt]
    raise Refuse(e, f"boolean expression `{txt}`", cx.fn)


def strip_logging(body: List[ast.stmt]) -> List[ast.stmt]:
    out = []
    for s in body:
        if isinstance(s, ast.Expr) and isinstance(s.value, ast.Constant) and isinstance(s.value.value, str):
            continue  # docstring
        if isinstance(s, ast.Expr) and isinstance(s.value, ast.Call) and ast.unparse(s.value.func) in ("logger.info", "logger.debug", "logger.warning"):
            continue
        out.append(s)
    return out


def get_class(tree: ast.Module, name: str, fn: str) -> ast.ClassDef:
    for n in tree.body:
        if isinstance(n, ast.ClassDef) and n.name == name:
            return n
    raise Refuse(tree, f"class {name} not found", fn)


def get_method(c: ast.ClassDef, name: str, fn: str) -> ast.FunctionDef:
    found = [s for s in c.body if isinstance(s, ast.FunctionDef) and s.name == name]
    if len(found) != 1:
        raise Refuse(c, f"method {c.name}.{name}: {len(found)} definitions", fn)
    return found[0]


def class_str_default(c: ast.ClassDef, name: str, fn: str) -> str:
    for s in c.body:
        if isinstance(s, ast.AnnAssign) and isinstance(s.target, ast.Name) and s.target.id == name:
            if isinstance(s.value, ast.Constant) and isinstance(s.value.value, str):
                return s.value.value
            raise Refuse(s, f"default of {name} is not a string constant", fn)
        if isinstance(s, ast.Assign) and len(s.targets) == 1 and isinstance(s.targets[0], ast.Name) and s.targets[0].id == name:
            if isinstance(s.value, ast.Constant) and isinstance(s.value.value, str):
                return s.value.value
            raise Refuse(s, f"value of {name} is not a string constant", fn)
    raise Refuse(c, f"attribute {name} not found in class {c.name}", fn)


def straight_line_string(fun: ast.FunctionDef, cx: Ctx) -> str:
    """x = e ; x += e ; return e   (strings only)"""
    for s in strip_logging(fun.body):
        if isinstance(s, ast.Assign) and len(s.targets) == 1 and isinstance(s.targets[0], ast.Name):
            cx.locals[s.targets[0].id] = sexpr(s.value, cx)
        elif isinstance(s, ast.AugAssign) and isinstance(s.op, ast.Add) and isinstance(s.target, ast.Name) and s.target.id in cx.locals:
            cx.locals[s.target.id] = f"({cx.locals[s.target.id]} ++ {sexpr(s.value, cx)})"
        elif isinstance(s, ast.Return) and s.value is not None:
            return sexpr(s.value, cx)
        else:
            raise Refuse(s, f"statement in {fun.name}", cx.fn)
    raise Refuse(fun, f"{fun.name} does not return", cx.fn)


def returned_bool(fun: ast.FunctionDef, cx: Ctx) -> str:
    body = strip_logging(fun.body)
    if len(body) != 1 or not isinstance(body[0], ast.Return) or body[0].value is None:
        raise Refuse(fun, f"{fun.name} is not a single return", cx.fn)
    return bexpr(body[0].value, cx)


def assigned(fun: ast.FunctionDef, var: str, fn: str) -> ast.AST:
    found = [s for s in fun.body if isinstance(s, ast.Assign) and len(s.targets) == 1
             and isinstance(s.targets[0], ast.Name) and s.targets[0].id == var]
    if len(found) != 1:
        raise Refuse(fun, f"{fun.name}: {len(found)} assignments to {var}", fn)
    return found[0].value


def check_params(cx: Ctx, allowed: List[str], node, what: str):
    extra = [u for u in cx.used if u not in allowed]
    if extra:
        raise Refuse(node, f"{what} now depends on {extra}", cx.fn)


BASE_FACTS = ["is_type_type", "is_builtin_type", "is_enum", "is_container", "is_optional",
              "endpoint_in_mapped_classes", "endpoint_in_type_mappings", "is_collection_of_builtins"]
DERIVED = ["is_one_to_one_relationship", "is_one_to_many_relationship"]


def translate(repo: str) -> str:
    root = Path(repo)
    wt_fn, om_fn, wf_fn, tpl_fn = (str(root / p) for p in (WT, OM, WF, TPL))
    wt = ast.parse(Path(wt_fn).read_text(), filename=wt_fn)
    om = ast.parse(Path(om_fn).read_text(), filename=om_fn)
    wf = ast.parse(Path(wf_fn).read_text(), filename=wf_fn)
    out: List[str] = [
        "(* GENERATED by /verif/translator/t_parsefield.py from " + ", ".join([WT, OM, WF]) + " -- do not edit; regenerated on every run *)",
        "From Coq Require Import String Bool List.",
        "From Krrood Require Import Orm.SchemaStr.",
        "Import ListNotations.",
        "Open Scope string_scope.",
        "",
    ]
    # ---- template: emission order only
    tpl = Path(tpl_fn).read_text()
    tags = re.findall(r"\{%.*?%\}|\{\{.*?\}\}", tpl)
    if tags != EXPECTED_TAGS:
        k = next((i for i, (a, b) in enumerate(zip(tags, EXPECTED_TAGS)) if a != b), min(len(tags), len(EXPECTED_TAGS)))
        raise Refuse(None, f"template tag #{k} is {tags[k] if k < len(tags) else '<missing>'!r}, expected "
                           f"{EXPECTED_TAGS[k] if k < len(EXPECTED_TAGS) else '<nothing>'!r}", tpl_fn)
    tlines = [l.strip() for l in tpl.splitlines()]
    for want in EXPECTED_TEMPLATE_LINES:
        if want not in tlines:
            raise Refuse(None, f"template line missing: {want}", tpl_fn)

    WTc = get_class(wt, "WrappedTable", wt_fn)
    OMc = get_class(om, "ORMatic", om_fn)
    WFc = get_class(wf, "WrappedField", wf_fn)

    # ---- constants
    postfix = class_str_default(OMc, "foreign_key_postfix", om_fn)
    pk = class_str_default(WTc, "primary_key_name", wt_fn)
    pon = class_str_default(WTc, "polymorphic_on_name", wt_fn)
    out += [f"Definition foreign_key_postfix : string := {gstr(postfix)}.",
            f"Definition primary_key_name : string := {gstr(pk)}.",
            f"Definition polymorphic_on_name : string := {gstr(pon)}.", ""]

    # ---- tablename, full_primary_key_name
    cx = Ctx(wt_fn, {"self.wrapped_clazz.clazz.__name__": "clazz_name"})
    t = straight_line_string(get_method(WTc, "tablename", wt_fn), cx)
    out += [f"Definition tablename (clazz_name : string) : string := {t}."]
    cx = Ctx(wt_fn, {"self.tablename": "self_tablename", "self.primary_key_name": "self_primary_key_name"})
    t = straight_line_string(get_method(WTc, "full_primary_key_name", wt_fn), cx)
    out += [f"Definition full_primary_key_name (self_tablename self_primary_key_name : string) : string := {t}.", ""]

    # ---- wrapped-field facts and the derived predicates
    out += ["Record facts := { " + "; ".join(f"{a} : bool" for a in BASE_FACTS) + " }."]
    atoms = {f"self.{a}": f"({a} w)" for a in BASE_FACTS}
    for dname in DERIVED:
        cx = Ctx(wf_fn, dict(atoms))
        b = returned_bool(get_method(WFc, dname, wf_fn), cx)
        out += [f"Definition {dname} (w : facts) : bool := {b}."]
        atoms[f"self.{dname}"] = f"({dname} w)"
    out += [""]

    # ---- parse_field: the dispatch chain
    pf = get_method(WTc, "parse_field", wt_fn)
    if [a.arg for a in pf.args.args] != ["self", "wrapped_field"]:
        raise Refuse(pf, "signature of parse_field", wt_fn)
    watoms = {k.replace("self.", "wrapped_field."): v for k, v in atoms.items()}
    watoms["wrapped_field.type_endpoint in self.ormatic.mapped_classes"] = "(endpoint_in_mapped_classes w)"
    watoms["wrapped_field.type_endpoint in self.ormatic.type_mappings"] = "(endpoint_in_type_mappings w)"
    body = strip_logging(pf.body)
    if len(body) != 1 or not isinstance(body[0], ast.If):
        raise Refuse(pf, "parse_field is not a single if/elif chain", wt_fn)
    chain: List[Tuple[str, str]] = []
    node = body[0]
    actions: List[str] = []
    final = None
    while True:
        cx = Ctx(wt_fn, watoms)
        test = bexpr(node.test, cx)
        b = strip_logging(node.body)
        if len(b) != 1 or not (isinstance(b[0], ast.Expr) and isinstance(b[0].value, ast.Call)):
            raise Refuse(node, "branch of parse_field is not a single call", wt_fn)
        call = b[0].value
        if not (isinstance(call.func, ast.Attribute) and ast.unparse(call.func.value) == "self"
                and [ast.unparse(a) for a in call.args] == ["wrapped_field"] and not call.keywords):
            raise Refuse(call, f"branch of parse_field calls `{ast.unparse(call)}`", wt_fn)
        act = "A_" + call.func.attr
        if act in actions:
            raise Refuse(call, f"{act} reached from two branches", wt_fn)
        actions.append(act)
        chain.append((test, act))
        orelse = strip_logging(node.orelse)
        if len(orelse) == 1 and isinstance(orelse[0], ast.If):
            node = orelse[0]
            continue
        if orelse:
            raise Refuse(orelse[0], "final else of parse_field does something", wt_fn)
        final = "A_skip"
        break
    out += ["Inductive action := " + " | ".join(actions + ["A_skip"]) + "."]
    txt = final
    for test, act in reversed(chain):
        txt = f"if {test} then {act}\n  else {txt}"
    out += [f"Definition parse_field (w : facts) : action :=\n  {txt}.", ""]

    # ---- parse_fields: private fields are skipped, everything else goes to parse_field, then create_mapper_args
    pfs = get_method(WTc, "parse_fields", wt_fn)
    b = strip_logging(pfs.body)
    if not (len(b) == 2 and isinstance(b[0], ast.For) and ast.unparse(b[0].iter) == "self.fields" and ast.unparse(b[0].target) == "f"
            and ast.unparse(b[1]) == "self.create_mapper_args()" and not b[0].orelse):
        raise Refuse(pfs, "shape of parse_fields", wt_fn)
    lb = strip_logging(b[0].body)
    if not (len(lb) == 2 and isinstance(lb[0], ast.If) and not lb[0].orelse
            and [type(x) for x in strip_logging(lb[0].body)] == [ast.Continue]
            and ast.unparse(lb[1]) == "self.parse_field(f)"):
        raise Refuse(b[0], "loop body of parse_fields", wt_fn)
    cx = Ctx(wt_fn, {"f.field.name": "field_name"})
    out += [f"Definition skip_private (field_name : string) : bool := {bexpr(lb[0].test, cx)}.", ""]

    # ---- names built in create_one_to_one_relationship / create_one_to_many_relationship
    name_inputs = {"wrapped_field.field.name": "field_name", "self.ormatic.foreign_key_postfix": "foreign_key_postfix",
                   "self.tablename": "self_tablename", "target_wrapped_table.tablename": "target_tablename"}
    o2o = get_method(WTc, "create_one_to_one_relationship", wt_fn)
    o2m = get_method(WTc, "create_one_to_many_relationship", wt_fn)
    for fun in (o2o, o2m):
        if ast.unparse(assigned(fun, "target_wrapped_table", wt_fn)) != "self.get_table_of_wrapped_field(wrapped_field)":
            raise Refuse(fun, "target_wrapped_table is not the table of the field's endpoint", wt_fn)

    def name_def(fun, var, gname, params):
        cx = Ctx(wt_fn, name_inputs)
        t = sexpr(assigned(fun, var, wt_fn), cx)
        check_params(cx, params + ["foreign_key_postfix"], fun, gname)
        return f"Definition {gname} ({' '.join(params)} : string) : string := {t}."
    out += [name_def(o2o, "fk_name", "o2o_fk_name", ["field_name"]),
            name_def(o2o, "rel_name", "o2o_rel_name", ["field_name"]),
            name_def(o2m, "association_table_name", "o2m_association_table_name", ["self_tablename", "field_name"]),
            name_def(o2m, "left_fk_name", "o2m_left_fk_name", ["self_tablename"]),
            name_def(o2m, "right_fk_name", "o2m_right_fk_name", ["target_tablename"]),
            name_def(o2m, "rel_name", "o2m_rel_name", ["field_name"]), ""]
    # the association columns of a collection of the own class: `if left_fk_name == right_fk_name:` renames both and
    # tells the relationship which side is which (c757abc)
    clash_ifs = [x for x in o2m.body if isinstance(x, ast.If)]
    if len(clash_ifs) != 1 or clash_ifs[0].orelse or ast.unparse(clash_ifs[0].test) != "left_fk_name == right_fk_name":
        raise Refuse(o2m, "expected exactly one `if left_fk_name == right_fk_name:` in create_one_to_many_relationship", wt_fn)
    if ast.unparse(assigned(o2m, "joins", wt_fn)) != "''":
        raise Refuse(o2m, "joins is not initialised with the empty string", wt_fn)
    cb = strip_logging(clash_ifs[0].body)
    targets = [ast.unparse(x.targets[0]) if isinstance(x, ast.Assign) and len(x.targets) == 1 else "?" for x in cb]
    if targets != ["left_fk_name", "right_fk_name", "joins"]:
        raise Refuse(clash_ifs[0], f"body of the name-clash branch assigns {targets}", wt_fn)
    out += ["Definition o2m_fk_names_clash (left_fk_name right_fk_name : string) : bool := String.eqb left_fk_name right_fk_name."]
    cx = Ctx(wt_fn, {}, {"left_fk_name": "left_fk_name"})
    out += [f"Definition o2m_left_fk_name_on_clash (left_fk_name : string) : string := {sexpr(cb[0].value, cx)}."]
    cx = Ctx(wt_fn, {}, {"right_fk_name": "right_fk_name"})
    out += [f"Definition o2m_right_fk_name_on_clash (right_fk_name : string) : string := {sexpr(cb[1].value, cx)}."]
    cx = Ctx(wt_fn, {"self.full_primary_key_name": "self_full_primary_key_name",
                     "target_wrapped_table.full_primary_key_name": "target_full_primary_key_name"},
             {"association_table_name": "association_table_name", "left_fk_name": "left_fk_name", "right_fk_name": "right_fk_name"})
    jexpr = cb[2].value
    out += ["Definition o2m_joins_on_clash (self_full_primary_key_name association_table_name left_fk_name "
            f"target_full_primary_key_name right_fk_name : string) : string := {sexpr(jexpr, cx)}.", ""]
    rc = ast.unparse(assigned(o2m, "rel_constructor", wt_fn))
    if "secondary='{association_table_name}'{joins}, cascade=" not in rc:
        raise Refuse(o2m, "joins is not placed after secondary= in the relationship constructor", wt_fn)

    at = assigned(o2m, "association_table", wt_fn)
    want = {"name": "association_table_name", "left_table_name": "self.tablename", "left_foreign_key": "left_fk_name",
            "left_primary_key": "self.full_primary_key_name", "right_table_name": "target_wrapped_table.tablename",
            "right_foreign_key": "right_fk_name", "right_primary_key": "target_wrapped_table.full_primary_key_name"}
    if not (isinstance(at, ast.Call) and ast.unparse(at.func) == "AssociationTable" and not at.args
            and {k.arg: ast.unparse(k.value) for k in at.keywords} == want):
        raise Refuse(at, "AssociationTable(...) binding changed", wt_fn)
    if "self.ormatic.association_tables.append(association_table)" not in [ast.unparse(s) for s in o2m.body]:
        raise Refuse(o2m, "association table is not appended to ormatic.association_tables", wt_fn)

    # ---- create_mapper_args: conditions and entries
    cma = get_method(WTc, "create_mapper_args", wt_fn)
    b = strip_logging(cma.body)
    if not (len(b) == 2 and all(isinstance(x, ast.If) and not x.orelse for x in b)):
        raise Refuse(cma, "shape of create_mapper_args", wt_fn)
    catoms = {"self.parent_table is None": "(negb has_parent)", "self.parent_table is not None": "has_parent",
              "self.has_children": "has_children"}
    cx = Ctx(wt_fn, catoms)
    out += [f"Definition is_polymorphic_root (has_parent has_children : bool) : bool := {bexpr(b[0].test, cx)}."]
    cx = Ctx(wt_fn, catoms)
    out += [f"Definition is_derived (has_parent : bool) : bool := {bexpr(b[1].test, cx)}."]
    minputs = {"self.polymorphic_on_name": "polymorphic_on_name", "self.tablename": "self_tablename",
               "self.primary_key_name": "primary_key_name", "self.parent_table.full_primary_key_name": "parent_full_primary_key_name"}

    def dict_update(stmt, params, gname):
        if not (isinstance(stmt, ast.Expr) and isinstance(stmt.value, ast.Call) and ast.unparse(stmt.value.func) == "self.mapper_args.update"
                and len(stmt.value.args) == 1 and isinstance(stmt.value.args[0], ast.Dict)):
            raise Refuse(stmt, "expected self.mapper_args.update({...})", wt_fn)
        d = stmt.value.args[0]
        cx = Ctx(wt_fn, minputs)
        kvs = [f"({sexpr(k, cx)}, {sexpr(v, cx)})" for k, v in zip(d.keys, d.values)]
        check_params(cx, params + ["polymorphic_on_name", "primary_key_name"], stmt, gname)
        return f"Definition {gname} ({' '.join(params)} : string) : list (string * string) := [{'; '.join(kvs)}]."
    rb = strip_logging(b[0].body)
    # root: append the discriminator column to custom_columns, then update
    if not (len(rb) == 2 and ast.unparse(rb[0]).startswith("self.custom_columns.append(ColumnConstructor(self.polymorphic_on_name, 'Mapped[str]',")
            and "String(255), nullable=False" in ast.unparse(rb[0])):
        raise Refuse(b[0], "root branch of create_mapper_args", wt_fn)
    out += [dict_update(rb[1], ["self_tablename"], "mapper_args_root")]
    db = strip_logging(b[1].body)
    if not (len(db) == 2 and isinstance(db[1], ast.If) and not db[1].orelse
            and ast.unparse(db[1].test) == "self.ormatic.inheritance_strategy == InheritanceStrategy.JOINED"
            and len(strip_logging(db[1].body)) == 1):
        raise Refuse(b[1], "derived branch of create_mapper_args", wt_fn)
    out += [dict_update(db[0], ["self_tablename"], "mapper_args_derived"),
            dict_update(strip_logging(db[1].body)[0], ["parent_full_primary_key_name"], "mapper_args_joined"), ""]
    # inheritance strategy default must be JOINED (the model covers joined-table inheritance)
    for s in OMc.body:
        if isinstance(s, ast.AnnAssign) and isinstance(s.target, ast.Name) and s.target.id == "inheritance_strategy":
            if ast.unparse(s.value) != "InheritanceStrategy.JOINED":
                raise Refuse(s, "default inheritance strategy is not JOINED", om_fn)
            break
    else:
        raise Refuse(OMc, "ORMatic.inheritance_strategy not found", om_fn)
    return "\n".join(out) + "\n"


if __name__ == "__main__":
    import sys
    print(translate(sys.argv[1] if len(sys.argv) > 1 else "/repo"))
