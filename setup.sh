#!/bin/sh
# MANIFEST.setup_cmd: offline, from files on disk only.  Clean full (.vo) build of the Coq development.
set -e
cd "$(dirname "$0")"
REPO="${KRROOD_REPO:-/repo}"
export PYTHONPATH="$REPO/src:$REPO:$(pwd)" PYTHONHASHSEED=0 PYTHONDONTWRITEBYTECODE=1
# hygiene: nothing admitted, no axioms declared, no checks switched off
for f in $(find coq -name '*.v' -not -path 'coq/Gen/*'); do
  python3 tools/axiom_scan.py "$f" || { echo "setup: forbidden declaration in $f"; exit 1; }
done
mkdir -p work evidence replays coq/Gen
/venv/bin/python -m harness.regen || echo "setup: a translator refused (the affected check will report it)"
cd coq
find . -name '*.vo' -delete -o -name '*.glob' -delete -o -name '*.vok' -delete -o -name '*.vos' -delete -o -name '.*.aux' -delete
ls Base/*.v Eql/*.v Orm/*.v Onto/*.v Diagram/*.v Json/*.v Gen/*.v Props/*.v 2>/dev/null | sort > .files
( echo "-Q . Krrood"; cat .files ) > _CoqProject
coq_makefile -f _CoqProject -o Makefile.coq
rm -f .Makefile.coq.d
timeout 3000 make -k -f Makefile.coq -j16 || echo "setup: some Coq targets failed to build (the affected checks will report it)"
echo "setup: ok"
