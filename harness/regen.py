"""All translated (T-tied) model files: name -> (translate function, output path)."""
from __future__ import annotations

from . import core


def targets():
    from translator import t_quant
    out = {
        "Gen/Quant.v": (lambda: t_quant.translate(str(core.REPO)), core.COQ / "Gen" / "Quant.v"),
    }
    return out


def regen_all(verbose=True) -> bool:
    ok = True
    for name, (fn, path) in targets().items():
        try:
            core.write_if_changed(path, fn())
            if verbose:
                print(f"regenerated {name}")
        except Exception as e:  # noqa
            ok = False
            print(f"REGEN FAILED {name}: {e}")
            for ext in (".v", ".vo", ".vos", ".vok", ".glob"):
                if path.with_suffix(ext).exists():
                    path.with_suffix(ext).unlink()
    return ok


if __name__ == "__main__":
    import sys
    sys.exit(0 if regen_all() else 1)
