"""All translated (T-tied) model files: name -> (translate function, output path).
Used by setup.sh (so that a clean build has every Gen/*.v) and available to checks."""
from __future__ import annotations

import importlib

from . import core

# generated file -> translator module (each has translate(repo: str) -> str and raises when it must refuse)
TRANSLATORS = {
    "Gen/Quant.v": "translator.t_quant",
    "Gen/Pred.v": "translator.t_pred",
    "Gen/JsonResolve.v": "translator.t_json",
    "Gen/FieldKind.v": "translator.t_fieldkind",
    "Gen/ParseField.v": "translator.t_parsefield",
    "Gen/Registry.v": "translator.t_registry",
    "Gen/Match.v": "translator.t_match",
    "Gen/SymbolicDecisions.v": "translator.t_symbolic",
    "Gen/SymbolicEval.v": "translator.t_symeval",
}


def targets():
    out = {}
    for name, modname in TRANSLATORS.items():
        try:
            mod = importlib.import_module(modname)
        except ImportError:
            continue
        out[name] = ((lambda m=mod: m.translate(str(core.REPO))), core.COQ / name)
    return out


def regen_all(verbose=True) -> bool:
    ok = True
    for name, (fn, path) in targets().items():
        try:
            core.write_if_changed(path, fn())
            if verbose:
                print(f"regenerated {name}")
        except Exception as e:  # noqa
            ok = False
            print(f"REGEN FAILED {name}: {e}")
            for ext in (".v", ".vo", ".vos", ".vok", ".glob"):
                if path.with_suffix(ext).exists():
                    path.with_suffix(ext).unlink()
    return ok


if __name__ == "__main__":
    import sys
    sys.exit(0 if regen_all() else 1)
