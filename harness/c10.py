"""C10 -- queries are lazy: building evaluates nothing, consuming pulls only what it needs.

Model Eql/Trace.v (CPS evaluator with the event log as its store and a consumer that stops after n rows), Spec
Eql/TraceSpec.v (predicates on an event log: silent construction, rows/log of the n-stopped run are prefixes, pulled
indices are 0,1,2,..., a domain is exhausted only after an earlier-used variable moved past its first element),
theorems Props/C10.v.

Tie: the harness supplies every domain as a ONE-SHOT GENERATOR that logs each pull and its own exhaustion, objects whose
attributes are data descriptors that log each read; queries are built through the public API (let, entity, set_of, and_,
or_, not_, contains, comparison operators, attribute chains).  For every query and every n = 0 .. rows+1 a FRESH query is
built (the construction log must stay empty), n results are pulled from an(...).evaluate(), and the log is compared with
the model's trace_n EVENT FOR EVENT (Pull / End / Get / Yield)."""
from __future__ import annotations

import json
import sys
from concurrent.futures import ProcessPoolExecutor
from typing import Any, Dict, List, Optional, Tuple

from . import core, eqlgen, eqlcheck
from .core import Report

PROP = "C10"
HEADER = """From Coq Require Import List ZArith.
From Krrood Require Import Base.Sx Eql.Syntax Eql.Sat Eql.Eval Eql.ShowSpec Eql.Trace Eql.TraceSpec.
Import ListNotations. Open Scope Z_scope."""
SPEC_HEADER = """From Coq Require Import List ZArith.
From Krrood Require Import Base.Sx Eql.Syntax Eql.Sat Eql.ShowSpec Eql.TraceSpec.
Import ListNotations. Open Scope Z_scope."""

LOG: List[list] = []          # the event log written by harness-supplied user code (per process, reset per run)


# ------------------------------------------------------------------ instrumented user data
class _Logged:
    """data descriptor: every read of the attribute is an event [2, object id, attribute id]"""

    def __init__(self, name):
        self.name, self.slot, self.aid = name, "_v_" + name, eqlgen.ATTR_ID[name]

    def __get__(self, obj, cls):
        if obj is None:
            return self
        LOG.append([2, obj.oid, self.aid])
        return obj.__dict__[self.slot]

    def __set__(self, obj, value):
        obj.__dict__[self.slot] = value


class LP(eqlgen.P):
    a = _Logged("a")
    b = _Logged("b")
    items = _Logged("items")
    kids = _Logged("kids")
    child = _Logged("child")


class LT(eqlgen.T):
    a = _Logged("a")
    k = _Logged("k")

    def __eq__(self, other):                      # the model's okey: equality itself is not an observed read
        return isinstance(other, eqlgen.T) and other.__dict__["_v_k"] == self.__dict__["_v_k"]

    def __hash__(self):
        return hash(("T", self.__dict__["_v_k"]))


def logged_domain(var_index: int, items: list):
    """one-shot generator: [0, x, i] when the i-th element is pulled, [1, x] when it is asked again and finishes"""
    for i, v in enumerate(items):
        LOG.append([0, var_index, i])
        yield v
    LOG.append([1, var_index])


def build_world(case) -> Dict[int, Any]:
    objs: Dict[int, Any] = {}
    for o in case["objs"]:
        objs[o["id"]] = LP(o["id"], o["a"], o["b"], o["items"]) if o["cls"] == "P" else LT(o["id"], o["k"], o["a"])
    for o in case["objs"]:
        if o["cls"] == "P":
            objs[o["id"]].kids = [objs[i] for i in o["kids"]]
            objs[o["id"]].child = objs[o["child"]]
    return objs


def build_query(case, objs):
    """as eqlgen.build_query, but every domain is a logging one-shot generator"""
    from krrood.entity_query_language.entity import let, entity, set_of, and_, or_, not_, contains
    from krrood.entity_query_language.quantify_entity import an

    types = {"P": eqlgen.P, "T": eqlgen.T, "int": int}
    vs = {}
    for name in eqlgen.VARS:
        if name in case["vars"]:
            t = case["vars"][name]
            items = [objs[i] if t != "int" else i for i in case["doms"][name]]
            vs[name] = let(types[t], logged_domain(eqlgen.VARS.index(name), items), name=name)

    def opnd(e):
        k = e[0]
        if k == "lit":
            return list(e[1]) if isinstance(e[1], list) else e[1]
        if k == "var":
            return vs[e[1]]
        return getattr(opnd(e[1]), e[2])

    def cond(c):
        k = c[0]
        if k == "cmp":
            l, r = opnd(c[2]), opnd(c[3])
            return {"==": l.__eq__, "!=": l.__ne__, "<": l.__lt__, "<=": l.__le__, ">": l.__gt__, ">=": l.__ge__}[c[1]](r)
        if k == "contains":
            return contains(opnd(c[1]), opnd(c[2]))
        if k == "and":
            return and_(cond(c[1]), cond(c[2]))
        if k == "or":
            return or_(cond(c[1]), cond(c[2]))
        if k == "not":
            return not_(cond(c[1]))
        raise ValueError(k)

    sels = [opnd(s) for s in case["sels"]]
    c = cond(case["cond"]) if case["cond"] is not None else None
    if len(sels) == 1 and not case.get("force_setof"):
        d = entity(sels[0], c) if c is not None else entity(sels[0])
        return an(d), sels, True
    d = set_of(sels, c) if c is not None else set_of(sels)
    return an(d), sels, False


def run_stopped(case, n: Optional[int]) -> Dict[str, Any]:
    """fresh world and query; pull n results (None: all) -> {"build": log, "log": log}   (or {"exc": name})"""
    del LOG[:]
    try:
        objs = build_world(case)
        del LOG[:]                       # filling in the objects is the harness's own writing
        q, sels, single = build_query(case, objs)
        it = q.evaluate()
        build = list(LOG)
        del LOG[:]
        got = 0
        while n is None or got < n:
            try:
                r = next(it)
            except StopIteration:
                break
            row = [eqlgen.canon_val(r)] if single else [eqlgen.canon_val(r[s]) for s in sels]
            LOG.append([3, row])
            got += 1
        out = {"build": build, "log": list(LOG)}
        del it
        return out
    except Exception as e:  # noqa
        return {"exc": type(e).__name__, "log": list(LOG)}


def run_impl(case) -> Dict[str, Any]:
    """{"build": events logged by any construction, "full": log, "ks": [log_0 .. log_(rows+1)]}"""
    full = run_stopped(case, None)
    if "exc" in full:
        return {"exc": full["exc"]}
    nrows = len([e for e in full["log"] if e[0] == 3])
    build = list(full["build"])
    ks = []
    for n in range(nrows + 2):
        r = run_stopped(case, n)
        if "exc" in r:
            return {"exc": r["exc"]}
        build += r["build"]
        ks.append(r["log"])
    return {"build": build, "full": full["log"], "ks": ks}


def _impl_chunk(cases):
    return [run_impl(c) for c in cases]


def run_impl_many(cases: List[dict], chunk: int = 40) -> List[Any]:
    parts = [cases[i:i + chunk] for i in range(0, len(cases), chunk)]
    out: List[Any] = []
    with ProcessPoolExecutor(max_workers=min(eqlcheck.N_WORKERS, max(1, len(parts)))) as ex:
        for r in ex.map(_impl_chunk, parts):
            out += r
    return out


def snippet(case, n=None) -> str:
    return ("import json; from harness import c10\n"
            f"case = json.loads({json.dumps(json.dumps(case))})\n"
            f"print(c10.run_stopped(case, {n!r}))   # events: [0,x,i] pull  [1,x] generator finished  [2,obj,attr] getattr  [3,row] result")


# ------------------------------------------------------------------ log <-> sx
def canon_log(log) -> list:
    """the nested-int form show_trace prints"""
    return [[3, [list(v) for v in e[1]]] if e[0] == 3 else list(e) for e in log]


def g_event(e) -> str:
    if e[0] == 0:
        return f"Pull {e[1]}%nat {e[2]}%nat"
    if e[0] == 1:
        return f"End {e[1]}%nat"
    if e[0] == 2:
        return f"Get {core.zlit(e[1])} {e[2]}%nat"
    vals = []
    for v in e[1]:
        if v[0] == 0:
            vals.append(f"VI {core.zlit(v[1])}")
        elif v[0] == 1:
            vals.append(f"VO {v[1]}")
        elif v[0] == 2:
            vals.append("VLI [" + "; ".join(core.zlit(z) for z in v[1]) + "]")
        else:
            vals.append("VLO [" + "; ".join(str(z) for z in v[1]) + "]")
    return "Yield [" + "; ".join(vals) + "]"


def g_log(log) -> str:
    return "[" + "; ".join(g_event(e) for e in log) + "]"


# ------------------------------------------------------------------ fragment
def normalise(case) -> dict:
    """duplicate-free domains (a repeated domain element is C03's finding, not C10's subject)"""
    return dict(case, doms={v: list(dict.fromkeys(d)) for v, d in case["doms"].items()})


def has_union(c) -> bool:
    if c is None:
        return False
    k = c[0]
    if k == "or":
        return eqlgen.or_is_union(c) or has_union(c[1]) or has_union(c[2])
    if k == "and":
        return has_union(c[1]) or has_union(c[2])
    if k == "not":
        return has_union(c[1])
    return False


def classes(case) -> List[str]:
    """K_product: a selected variable that the condition does not bind in every true result (drained by itertools.product
    before the first row); K_union: or_ over different variable sets (second pass over the right operand)"""
    out = []
    c = case["cond"]
    bound = eqlgen.must_bind(c, True) if c is not None else set()
    roots = [eqlgen.opnd_var(s) for s in case["sels"]]
    if any(r is not None and r not in bound for r in roots):
        out.append("K_product")
    if has_union(c):
        out.append("K_union")
    return out


def in_scope(case) -> bool:
    return not eqlgen.has_quant(case["cond"])
