"""C10 -- queries are lazy: building evaluates nothing, consuming pulls only what it needs.

Model Eql/Trace.v (CPS evaluator with the event log as its store and a consumer that stops after n rows), Spec
Eql/TraceSpec.v (predicates on an event log: silent construction, rows/log of the n-stopped run are prefixes, pulled
indices are 0,1,2,..., a domain is exhausted only after an earlier-used variable moved past its first element),
theorems Props/C10.v.

Tie: the harness supplies every domain as a ONE-SHOT GENERATOR that logs each pull and its own exhaustion, objects whose
attributes are data descriptors that log each read; queries are built through the public API (let, entity, set_of, and_,
or_, not_, contains, comparison operators, attribute chains).  For every query and every n = 0 .. rows+1 a FRESH query is
built (the construction log must stay empty), n results are pulled from an(...).evaluate(), and the log is compared with
the model's trace_n EVENT FOR EVENT (Pull / End / Get / Yield).  Further families: re-evaluation after an abandoned iterator (same
query object, rebuilt query, another query over the same variables; model: trace_seq) and silent construction through the match
API.  exists / for_all are part of the model (scratch list of Exists, candidate loop of ForAll with its early break)."""
from __future__ import annotations

import json
import sys
from concurrent.futures import ProcessPoolExecutor
from typing import Any, Dict, List, Optional, Tuple

from . import core, eqlgen, eqlcheck
from .core import Report

PROP = "C10"
HEADER = """From Coq Require Import List ZArith.
From Krrood Require Import Base.Sx Eql.Syntax Eql.Sat Eql.Eval Eql.ShowSpec Eql.Trace Eql.TraceSpec.
Import ListNotations. Open Scope Z_scope."""
SPEC_HEADER = """From Coq Require Import List ZArith.
From Krrood Require Import Base.Sx Eql.Syntax Eql.Sat Eql.ShowSpec Eql.TraceSpec.
Import ListNotations. Open Scope Z_scope."""

LOG: List[list] = []          # the event log written by harness-supplied user code (per process, reset per run)


# ------------------------------------------------------------------ instrumented user data
class _Logged:
    """data descriptor: every read of the attribute is an event [2, object id, attribute id]"""

    def __init__(self, name):
        self.name, self.slot, self.aid = name, "_v_" + name, eqlgen.ATTR_ID[name]

    def __get__(self, obj, cls):
        if obj is None:
            return self
        LOG.append([2, obj.oid, self.aid])
        return obj.__dict__[self.slot]

    def __set__(self, obj, value):
        obj.__dict__[self.slot] = value


class LP(eqlgen.P):
    a = _Logged("a")
    b = _Logged("b")
    items = _Logged("items")
    kids = _Logged("kids")
    child = _Logged("child")


class LT(eqlgen.T):
    a = _Logged("a")
    k = _Logged("k")

    def __eq__(self, other):                      # the model's okey: equality itself is not an observed read
        return isinstance(other, eqlgen.T) and other.__dict__["_v_k"] == self.__dict__["_v_k"]

    def __hash__(self):
        return hash(("T", self.__dict__["_v_k"]))


def logged_domain(var_index: int, items: list):
    """one-shot generator: [0, x, i] when the i-th element is pulled, [1, x] when it is asked again and finishes"""
    for i, v in enumerate(items):
        LOG.append([0, var_index, i])
        yield v
    LOG.append([1, var_index])


def build_world(case) -> Dict[int, Any]:
    objs: Dict[int, Any] = {}
    for o in case["objs"]:
        objs[o["id"]] = LP(o["id"], o["a"], o["b"], o["items"]) if o["cls"] == "P" else LT(o["id"], o["k"], o["a"])
    for o in case["objs"]:
        if o["cls"] == "P":
            objs[o["id"]].kids = [objs[i] for i in o["kids"]]
            objs[o["id"]].child = objs[o["child"]]
    return objs


def make_vars(case, objs):
    """one let(...) per variable of the case, every domain a logging one-shot generator"""
    from krrood.entity_query_language.entity import let
    types = {"P": eqlgen.P, "T": eqlgen.T, "int": int}
    vs = {}
    for name in eqlgen.VARS:
        if name in case["vars"]:
            t = case["vars"][name]
            items = [objs[i] if t != "int" else i for i in case["doms"][name]]
            vs[name] = let(types[t], logged_domain(eqlgen.VARS.index(name), items), name=name)
    return vs


def build_query(case, objs, vs=None):
    """as eqlgen.build_query, but every domain is a logging one-shot generator; [vs]: build over existing let-variables"""
    from krrood.entity_query_language.entity import entity, set_of, and_, or_, not_, contains, exists, for_all
    from krrood.entity_query_language.quantify_entity import an

    if vs is None:
        vs = make_vars(case, objs)

    def opnd(e):
        k = e[0]
        if k == "lit":
            return list(e[1]) if isinstance(e[1], list) else e[1]
        if k == "var":
            return vs[e[1]]
        return getattr(opnd(e[1]), e[2])

    def cond(c):
        k = c[0]
        if k == "cmp":
            l, r = opnd(c[2]), opnd(c[3])
            return {"==": l.__eq__, "!=": l.__ne__, "<": l.__lt__, "<=": l.__le__, ">": l.__gt__, ">=": l.__ge__}[c[1]](r)
        if k == "contains":
            return contains(opnd(c[1]), opnd(c[2]))
        if k == "and":
            return and_(cond(c[1]), cond(c[2]))
        if k == "or":
            return or_(cond(c[1]), cond(c[2]))
        if k == "not":
            return not_(cond(c[1]))
        if k == "exists":
            return exists(vs[c[1]], cond(c[2]))
        if k == "forall":
            return for_all(vs[c[1]], cond(c[2]))
        raise ValueError(k)

    sels = [opnd(s) for s in case["sels"]]
    c = cond(case["cond"]) if case["cond"] is not None else None
    qkw = {}
    if case.get("quant"):
        # an(..., quantification=...): the count is checked while the results are handed out, one by one
        from krrood.entity_query_language import result_quantification_constraint as rq
        k = case["quant"]
        qkw["quantification"] = rq.Range(rq.AtLeast(k[1]), rq.AtMost(k[2])) if k[0] == "Range" else getattr(rq, k[0])(k[1])
    if len(sels) == 1 and not case.get("force_setof"):
        d = entity(sels[0], c) if c is not None else entity(sels[0])
        return an(d, **qkw), sels, True
    d = set_of(sels, c) if c is not None else set_of(sels)
    return an(d, **qkw), sels, False


def holding_constraint(nrows: int, rng) -> list:
    """a quantification constraint of one of the four kinds whose bounds hold for a query with nrows results"""
    kind = rng.choice(["AtLeast", "AtMost", "Exactly", "Range"])
    if kind == "AtLeast":
        return ["AtLeast", rng.randint(0, nrows)]
    if kind == "AtMost":
        return ["AtMost", nrows + rng.randint(0, 2)]
    if kind == "Exactly":
        return ["Exactly", nrows]
    return ["Range", rng.randint(0, nrows), nrows + rng.randint(0, 2)]


def _pull(it, n, sels, single):
    got = 0
    while n is None or got < n:
        try:
            r = next(it)
        except StopIteration:
            break
        row = [eqlgen.canon_val(r)] if single else [eqlgen.canon_val(r[s]) for s in sels]
        LOG.append([3, row])
        got += 1
    return got


def run_stopped(case, n: Optional[int]) -> Dict[str, Any]:
    """fresh world and query; pull n results (None: all) -> {"build": log, "log": log}   (or {"exc": name})"""
    del LOG[:]
    try:
        objs = build_world(case)
        del LOG[:]                       # filling in the objects is the harness's own writing
        q, sels, single = build_query(case, objs)
        it = q.evaluate()
        build = list(LOG)
        del LOG[:]
        _pull(it, n, sels, single)
        out = {"build": build, "log": list(LOG)}
        del it
        return out
    except Exception as e:  # noqa
        return {"exc": type(e).__name__, "log": list(LOG)}


def run_impl(case) -> Dict[str, Any]:
    """{"build": events logged by any construction, "full": log, "ks": [log_0 .. log_(rows+1)]}"""
    full = run_stopped(case, None)
    if "exc" in full:
        return {"exc": full["exc"]}
    nrows = len([e for e in full["log"] if e[0] == 3])
    build = list(full["build"])
    ks = []
    for n in range(nrows + 2):
        r = run_stopped(case, n)
        if "exc" in r:
            return {"exc": r["exc"]}
        build += r["build"]
        ks.append(r["log"])
    return {"build": build, "full": full["log"], "ks": ks}


def run_seq(case, n: int, variant: str, case2: dict, m: Optional[int]) -> Dict[str, Any]:
    """pull n results of the case's query and abandon the iterator; then pull m results (None: all) of a second evaluation:
    variant "same": the same an(...) object evaluated again; "rebuilt" / "other": a query built AFTER the first evaluation over
    the same let-variables (case2 = its description).  -> {"build": construction events, "base": log after step 1, "log": after both}"""
    del LOG[:]
    try:
        objs = build_world(case)
        del LOG[:]
        vs = make_vars(case, objs)
        q, sels, single = build_query(case, objs, vs)
        it = q.evaluate()
        build = list(LOG)
        del LOG[:]
        _pull(it, n, sels, single)
        it.close()
        del it
        base = list(LOG)
        if variant == "same":
            q2, sels2, single2 = q, sels, single
        else:
            q2, sels2, single2 = build_query(case2, objs, vs)
        it2 = q2.evaluate()
        if len(LOG) != len(base):
            build += LOG[len(base):]
            del LOG[len(base):]
        _pull(it2, m, sels2, single2)
        it2.close()
        return {"build": build, "base": base, "log": list(LOG)}
    except Exception as e:  # noqa
        return {"exc": type(e).__name__, "log": list(LOG)}


def seq_scenarios(case: dict, nrows: int, rng) -> List[dict]:
    """re-evaluation scenarios of one (quantifier-free) case: (n, variant, second query, m)"""
    if nrows == 0:
        ns = [1]
    else:
        ns = sorted({1, rng.randint(1, nrows)})
    out = []
    for n in ns:
        variant = rng.choice(["same", "same", "rebuilt", "other"])
        case2 = case
        if variant == "other":
            alts = []
            c = case["cond"]
            if c is not None:
                alts += [dict(case, cond=x) for x in eqlcheck._subconds(c)][:6]
                alts.append(dict(case, cond=["not", c]))
            for v in case["vars"]:
                alts.append(dict(case, sels=[["var", v]]))
            case2 = dict(rng.choice(alts))
            case2.pop("force_setof", None)
            try:
                eqlgen.g_case(case2)
            except Exception:  # noqa
                case2, variant = case, "rebuilt"
        m = rng.choice([1, 1, min(n, max(nrows, 1)), None])
        out.append({"n": n, "variant": variant, "case2": case2, "m": m})
    return out


def _impl_chunk(cases):
    return [run_impl(c) for c in cases]


def _seq_chunk(jobs):
    return [run_seq(c, sc["n"], sc["variant"], sc["case2"], sc["m"]) for c, sc in jobs]


def run_seq_many(jobs: List[Tuple[dict, dict]], chunk: int = 40) -> List[Any]:
    parts = [jobs[i:i + chunk] for i in range(0, len(jobs), chunk)]
    out: List[Any] = []
    if not parts:
        return out
    with ProcessPoolExecutor(max_workers=min(eqlcheck.N_WORKERS, len(parts))) as ex:
        for r in ex.map(_seq_chunk, parts):
            out += r
    return out


def g_query(case) -> str:
    sels = "[" + "; ".join(eqlgen.g_opnd(case, x) for x in case["sels"]) + "]"
    cond = f"(Some {eqlgen.g_cond(case, case['cond'])})" if case["cond"] is not None else "None"
    return f"{{| q_sels := {sels}; q_cond := {cond} |}}"


def coq_seq(jobs: List[Tuple[dict, dict]], impls: List[dict], model_ok: bool) -> List[Tuple[Optional[list], int]]:
    """(model log after both evaluations or None, Spec code of the implementation's log) per scenario"""
    ex = []
    for (c, sc), i in zip(jobs, impls):
        m = 1000 if sc["m"] is None else sc["m"]
        q2 = g_query(sc["case2"])
        quiet = "true" if (sc["variant"] != "other" and sc["m"] is not None and sc["m"] <= sc["n"]) else "false"
        spec = f"seq_spec_code c ({q2}) {quiet} {g_log(i['base'])} {g_log(i['log'])}"
        model = f"c10_seq c {sc['n']}%nat ({q2}) {m}%nat" if model_ok else "SL []"
        ex.append(f"let c := {eqlgen.g_case(c)} in SL [{model}; {spec}]")
    vals = core.coq_values(PROP, HEADER if model_ok else SPEC_HEADER, ex, chunk=60, tag="seq")
    return [((v[0] if model_ok else None), v[1]) for v in vals]


def seq_snippet(case, sc) -> str:
    return ("import json; from harness import c10\n"
            f"case = json.loads({json.dumps(json.dumps(case))}); case2 = json.loads({json.dumps(json.dumps(sc['case2']))})\n"
            f"print(c10.run_seq(case, {sc['n']!r}, {sc['variant']!r}, case2, {sc['m']!r}))"
            "   # base = log after pulling n results and abandoning the iterator; log = after the second evaluation as well")


def run_impl_many(cases: List[dict], chunk: int = 40) -> List[Any]:
    parts = [cases[i:i + chunk] for i in range(0, len(cases), chunk)]
    out: List[Any] = []
    with ProcessPoolExecutor(max_workers=min(eqlcheck.N_WORKERS, max(1, len(parts)))) as ex:
        for r in ex.map(_impl_chunk, parts):
            out += r
    return out


def snippet(case, n=None) -> str:
    return ("import json; from harness import c10\n"
            f"case = json.loads({json.dumps(json.dumps(case))})\n"
            f"print(c10.run_stopped(case, {n!r}))   # events: [0,x,i] pull  [1,x] generator finished  [2,obj,attr] getattr  [3,row] result")


# ------------------------------------------------------------------ construction through the match API (implementation only)
from dataclasses import dataclass, field as _dfield  # noqa: E402
from krrood.entity_query_language.predicate import Symbol  # noqa: E402

_MFIELDS = {"name": 0, "age": 1, "label": 2, "owner": 3, "toys": 4, "weight": 5}
_OBSERVE = [False]


class _Observed:
    """every read of a data field of a user object is an event [2, object id, field id] (while observation is switched on)"""

    def __getattribute__(self, name):
        if _OBSERVE[0] and name in _MFIELDS:
            LOG.append([2, object.__getattribute__(self, "__dict__").get("uid", -1), _MFIELDS[name]])
        return object.__getattribute__(self, name)

    def __bool__(self):
        if _OBSERVE[0]:
            LOG.append([4, object.__getattribute__(self, "__dict__").get("uid", -1)])
        return True


@dataclass(eq=False)
class MOwner(_Observed, Symbol):
    name: str
    age: int
    uid: int = 0


@dataclass(eq=False)
class MToy(_Observed, Symbol):
    label: str
    uid: int = 0


@dataclass(eq=False)
class MPet(_Observed, Symbol):
    name: str
    owner: MOwner
    weight: int
    toys: List[MToy] = _dfield(default_factory=list)
    uid: int = 0


_NAMES = ["ann", "joe", "sue", "rex", "tom"]


def gen_match_scenario(rng) -> dict:
    no, nt, npets = rng.randint(1, 3), rng.randint(1, 3), rng.randint(1, 4)
    sc = {"owners": [{"name": rng.choice(_NAMES), "age": rng.randint(0, 2)} for _ in range(no)],
          "toys": [rng.choice(["ball", "rope", "bone"]) for _ in range(nt)],
          "pets": [{"name": rng.choice(_NAMES), "owner": rng.randint(0, no - 1), "weight": rng.randint(0, 2),
                    "toys": [rng.randint(0, nt - 1) for _ in range(rng.randint(0, 2))]} for _ in range(npets)]}

    def scalar(kind):
        """a value to match a str / int field against: literal or a let-variable over a generator domain"""
        pool = _NAMES if kind == "str" else [0, 1, 2]
        if rng.chance(0.5):
            return ["lit", rng.choice(pool)]
        return ["var", kind, [rng.choice(pool) for _ in range(rng.randint(1, 3))]]

    def owner_value(depth):
        r = rng.random()
        if r < 0.2:
            return ["obj", "owner", rng.randint(0, no - 1)]
        if r < 0.5:
            return ["var", "MOwner", [rng.randint(0, no - 1) for _ in range(rng.randint(1, 3))]]
        kw = {}
        if rng.chance(0.7):
            kw["name"] = scalar("str")
        if rng.chance(0.5) or not kw:
            kw["age"] = scalar("int")
        return ["select" if rng.chance(0.3) else "match", "MOwner", kw]

    def toys_value():
        r = rng.random()
        ids = [rng.randint(0, nt - 1) for _ in range(rng.randint(1, 2))]
        if r < 0.35:
            return ["match_any", ids]
        if r < 0.6:
            return ["match_all", ids]
        if r < 0.8:
            return ["match_any_var", ids]
        return ["match_any_nested", {"label": scalar("str")}]

    kw = {}
    for f in rng.sample(["name", "weight", "owner", "toys"], rng.randint(1, 3)):
        kw[f] = scalar("str") if f == "name" else scalar("int") if f == "weight" else owner_value(0) if f == "owner" else toys_value()
    sc["kw"] = kw
    return sc


def run_match(sc) -> Dict[str, Any]:
    """build an(entity_matching(MPet, generator)(...)) -- every domain a logging one-shot generator -- and return the events
    logged DURING CONSTRUCTION ("build", must be empty), then evaluate it (events "eval", rows)"""
    from krrood.entity_query_language.entity import let
    from krrood.entity_query_language.match import entity_matching, match, match_any, match_all, select
    from krrood.entity_query_language.quantify_entity import an
    del LOG[:]
    _OBSERVE[0] = False
    try:
        owners = [MOwner(o["name"], o["age"], uid=100 + i) for i, o in enumerate(sc["owners"])]
        toys = [MToy(t, uid=200 + i) for i, t in enumerate(sc["toys"])]
        pets = [MPet(p["name"], owners[p["owner"]], p["weight"], [toys[t] for t in p["toys"]], uid=300 + i)
                for i, p in enumerate(sc["pets"])]
        nvar = [0]

        def variable(kind, items):
            nvar[0] += 1
            if kind == "MOwner":
                return let(MOwner, logged_domain(nvar[0], [owners[i] for i in items]))
            if kind == "MToy":
                return let(MToy, logged_domain(nvar[0], [toys[i] for i in items]))
            return let({"str": str, "int": int}[kind], logged_domain(nvar[0], list(items)))

        def value(v):
            k = v[0]
            if k == "lit":
                return v[1]
            if k == "obj":
                return owners[v[2]]
            if k == "var":
                return variable(v[1], v[2])
            if k in ("match", "select"):
                return (match if k == "match" else select)(MOwner)(**{f: value(x) for f, x in v[2].items()})
            if k == "match_any":
                return match_any([toys[i] for i in v[1]])
            if k == "match_all":
                return match_all([toys[i] for i in v[1]])
            if k == "match_any_var":
                return match_any(variable("MToy", v[1]))
            if k == "match_any_nested":
                return match_any(MToy)(**{f: value(x) for f, x in v[1].items()})
            raise ValueError(k)

        _OBSERVE[0] = True
        q = an(entity_matching(MPet, logged_domain(0, pets))(**{f: value(x) for f, x in sc["kw"].items()}))
        it = q.evaluate()
        build = list(LOG)
        del LOG[:]
        try:
            rows = len(list(it))
            ev = {"rows": rows, "pulls": len([e for e in LOG if e[0] == 0])}
        except Exception as e:  # noqa: what the evaluation of such a pattern does is C11's subject
            ev = {"eval_exc": type(e).__name__}
        return dict(ev, build=build)
    except Exception as e:  # noqa
        return {"exc": type(e).__name__, "build": list(LOG)}
    finally:
        _OBSERVE[0] = False


def _match_chunk(scs):
    from krrood.entity_query_language.symbol_graph import SymbolGraph
    SymbolGraph().clear()
    SymbolGraph()
    return [run_match(sc) for sc in scs]


def run_match_many(scs: List[dict], chunk: int = 50) -> List[Any]:
    parts = [scs[i:i + chunk] for i in range(0, len(scs), chunk)]
    out: List[Any] = []
    if not parts:
        return out
    with ProcessPoolExecutor(max_workers=min(eqlcheck.N_WORKERS, len(parts))) as ex:
        for r in ex.map(_match_chunk, parts):
            out += r
    return out


def match_snippet(sc) -> str:
    return ("import json; from harness import c10\n"
            f"sc = json.loads({json.dumps(json.dumps(sc))})\n"
            "print(c10._match_chunk([sc])[0])   # 'build' = events while an(entity_matching(MPet, generator)(**kw)) was constructed: "
            "[0,var,i] element pulled from a generator domain, [2,obj,field] field read, [4,obj] bool(obj)")


# ------------------------------------------------------------------ construction with user data that has behaviour (implementation only)
from krrood.entity_query_language.predicate import Predicate, symbolic_function  # noqa: E402


@symbolic_function
def c10_allowed(allowed, part):
    return part in list(allowed)


@dataclass(eq=False)
class C10Among(Predicate):
    allowed: Any
    part: Any

    def __call__(self) -> bool:
        return self.part in list(self.allowed)


class LazyColl:
    """a lazily loading RE-ITERABLE collection (has __iter__, no __next__): [5,c] __iter__ called, [0,20+c,i] element i loaded,
    [1,20+c] loading finished, [7,c] __contains__"""

    def __init__(self, cid, items):
        self.cid, self.items = cid, list(items)

    def __iter__(self):
        LOG.append([5, self.cid])
        return logged_domain(20 + self.cid, self.items)

    def __contains__(self, item):
        LOG.append([7, self.cid])
        return item in self.items


class IterDomain:
    """a domain whose __iter__ is user code (opens a cursor): [5,c] when it is called"""

    def __init__(self, cid, items):
        self.cid, self.items = cid, list(items)

    def __iter__(self):
        LOG.append([5, self.cid])
        return iter(self.items)


class LoudKey:
    def __init__(self, k):
        self.k = k

    def __str__(self):
        LOG.append([6, self.k])
        return f"key{self.k}"

    __repr__ = __str__

    def __hash__(self):
        return hash(self.k)

    def __eq__(self, other):
        return isinstance(other, LoudKey) and other.k == self.k


class LoudBool(eqlgen.P):
    def __bool__(self):
        LOG.append([4, self.oid])
        return True


class LoudLabel:
    """a plain user object whose __str__ / __repr__ is user code: [6,8]"""

    def __str__(self):
        LOG.append([6, 8])
        return "label"

    __repr__ = __str__


class LazyList(list):
    """a list SUBCLASS whose __iter__ is user code: [5,3]"""

    def __iter__(self):
        LOG.append([5, 3])
        return list.__iter__(self)


class LazyRecord:
    """an object with a catch-all __getattr__ (a lazily loading record): [8,0] whenever an unknown attribute is asked for"""

    def __init__(self, **data):
        self.__dict__["_data"] = data

    def __getattr__(self, name):
        LOG.append([8, 0])
        try:
            return self._data[name]
        except KeyError:
            raise AttributeError(name)


CTOR_KINDS = ["sf_iter", "sf_iter", "pred_iter", "lit_lazy", "let_iterable", "index_key", "single_obj", "rule_add", "lit_subclass", "getattr_obj"]
# finding class of the scenario kinds that were findings C10-e..k (fixed in 6854387 / 7eaaf64 / c877039 / a768d6e / aa6a17a / 49f8cc9 / 628ff00: every kind
# must be silent now;
# the class and the recorded eager log [ctor_expected] are kept so that a re-opened finding would be matched narrowly)
CTOR_FINDING = {"lit_lazy": "K_lazyliteral", "let_iterable": "K_letiter", "index_key": "K_indexstr", "single_obj": "K_singlebool",
                "rule_add": "K_rulestr", "lit_subclass": "K_litsubclass", "getattr_obj": "K_getattr"}


CTOR_GETATTR_LOG = {"eq": [[8, 0]], "single": [[8, 0], [8, 0]]}     # recorded on bd78722: is_iterable asks the INSTANCE for __iter__


def gen_ctor_scenario(rng) -> dict:
    kind = rng.choice(CTOR_KINDS)
    sc = {"kind": kind, "items": [rng.randint(0, 3) for _ in range(rng.randint(1, 4))], "dom": [rng.randint(0, 3) for _ in range(rng.randint(1, 3))]}
    if kind in ("sf_iter", "pred_iter"):
        sc["coll"] = rng.choice(["generator", "generator", "list", "tuple"])
        sc["style"] = rng.choice(["positional", "kw_coll_first", "kw_var_first", "mixed"])
    elif kind == "lit_lazy":
        sc["op"] = rng.choice(["in_", "contains", "flatten", "eq", "not_"])
    elif kind == "lit_subclass":
        sc["op"] = rng.choice(["in_", "contains", "eq"])
    elif kind == "getattr_obj":
        sc["op"] = rng.choice(["eq", "single"])
    return sc


def ctor_expected(sc) -> list:
    """the construction log recorded for the open findings (the exact eager behaviour); [] for kinds that must be silent"""
    k = sc["kind"]
    if k == "lit_lazy":
        n = len(sc["items"])
        return [[5, 1]] + [[0, 21, i] for i in range(n)] + [[1, 21]]
    if k == "let_iterable":
        return [[5, 2]]
    if k == "index_key":
        return [[6, 7]]
    if k == "single_obj":
        return [[4, 9]]
    if k == "rule_add":
        return [[6, 8]]
    if k == "lit_subclass":
        return [[5, 3]]
    if k == "getattr_obj":
        return CTOR_GETATTR_LOG[sc["op"]]
    return []


def run_ctor(sc) -> Dict[str, Any]:
    from krrood.entity_query_language.entity import let, entity, in_, contains, flatten, not_
    from krrood.entity_query_language.quantify_entity import an
    del LOG[:]
    try:
        k = sc["kind"]
        x = let(int, logged_domain(0, sc["dom"]), name="x")
        if k in ("sf_iter", "pred_iter"):
            coll = {"generator": lambda: logged_domain(9, sc["items"]), "list": lambda: list(sc["items"]),
                    "tuple": lambda: tuple(sc["items"])}[sc["coll"]]()
            f = c10_allowed if k == "sf_iter" else C10Among
            st = sc["style"]
            c = (f(coll, x) if st == "positional" else f(allowed=coll, part=x) if st == "kw_coll_first"
                 else f(part=x, allowed=coll) if st == "kw_var_first" else f(coll, part=x))
            q = an(entity(x, c))
        elif k == "lit_lazy":
            coll = LazyColl(1, sc["items"])
            op = sc["op"]
            if op == "flatten":
                item = flatten(coll)
                q = an(entity(item, item >= 0))
            else:
                c = in_(x, coll) if op == "in_" else contains(coll, x) if op == "contains" else (x == coll) if op == "eq" else not_(in_(x, coll))
                q = an(entity(x, c))
        elif k == "let_iterable":
            y = let(int, IterDomain(2, sc["items"]), name="y")
            q = an(entity(y, y >= 0))
        elif k == "index_key":
            objs = [eqlgen.P(1, 0, 0, [])]
            objs[0].items = {LoudKey(7): 1}
            del LOG[:]
            p = let(eqlgen.P, logged_domain(1, objs), name="p")
            q = an(entity(p, p.items[LoudKey(7)] >= 0))
        elif k == "rule_add":
            from krrood.entity_query_language.conclusion import Add
            labels = let(LoudLabel, [], name="labels")
            q = an(entity(labels, x >= 0))
            with q:
                Add(labels, LoudLabel())
        elif k == "lit_subclass":
            coll = LazyList(sc["items"])
            op = sc["op"]
            c = in_(x, coll) if op == "in_" else contains(coll, x) if op == "contains" else (x == coll)
            q = an(entity(x, c))
        elif k == "getattr_obj":
            rec = LazyRecord(n=1)
            if sc["op"] == "eq":
                q = an(entity(x, x == rec))
            else:
                r = let(LazyRecord, rec, name="r")
                q = an(entity(x, x >= 0))
        else:
            o = LoudBool(9, 0, 0, [])
            p = let(eqlgen.P, o, name="p")
            q = an(entity(p, p.a >= 0))
        it = q.evaluate()
        build = list(LOG)
        del LOG[:]
        try:
            rows = len(list(it))
            return {"build": build, "rows": rows}
        except Exception as e:  # noqa
            return {"build": build, "eval_exc": type(e).__name__}
    except Exception as e:  # noqa
        return {"exc": type(e).__name__, "build": list(LOG)}


def _ctor_chunk(scs):
    return [run_ctor(sc) for sc in scs]


def run_ctor_many(scs: List[dict], chunk: int = 50) -> List[Any]:
    parts = [scs[i:i + chunk] for i in range(0, len(scs), chunk)]
    out: List[Any] = []
    if not parts:
        return out
    with ProcessPoolExecutor(max_workers=min(eqlcheck.N_WORKERS, len(parts))) as ex:
        for r in ex.map(_ctor_chunk, parts):
            out += r
    return out


def ctor_snippet(sc) -> str:
    return ("import json; from harness import c10\n"
            f"sc = json.loads({json.dumps(json.dumps(sc))})\n"
            "print(c10.run_ctor(sc))   # 'build' = events while the query was constructed: [0,g,i] element i pulled / loaded from g "
            "(9 = the iterator argument, 21 = the lazy collection), [1,g] finished, [4,obj] bool(obj), [5,c] __iter__ of a user collection / domain, "
            "[6,k] str(key), [7,c] __contains__")


# ------------------------------------------------------------------ flatten over one-shot iterators (implementation only)
class _LoggedAs:
    """as _Logged with an explicit attribute id"""

    def __init__(self, name, aid):
        self.name, self.slot, self.aid = name, "_v_" + name, aid

    def __get__(self, obj, cls):
        if obj is None:
            return self
        LOG.append([2, obj.oid, self.aid])
        return obj.__dict__[self.slot]

    def __set__(self, obj, value):
        obj.__dict__[self.slot] = value


class LH(LP):
    """a holder: [stream] is a one-shot iterator over objects (a logging generator)"""
    stream = _LoggedAs("stream", 6)


def gen_flat_scenario(rng) -> dict:
    """shape "direct": item = flatten(<generator>); shape "attr": h = let(LH, <generator>), item = flatten(h.stream)"""
    shape = rng.choice(["direct", "direct", "attr"])
    nobj = 0

    def objs(n):
        nonlocal nobj
        out = [{"id": 10 + nobj + i, "a": rng.randint(0, 2), "b": rng.randint(0, 2)} for i in range(n)]
        nobj += n
        return out

    sc = {"shape": shape}
    if shape == "direct":
        sc["streams"] = [objs(rng.randint(1, 6))]
    else:
        sc["holders"] = [{"id": 1 + i, "a": rng.randint(0, 2)} for i in range(rng.randint(1, 3))]
        sc["streams"] = [objs(rng.randint(0, 4)) for _ in sc["holders"]]

    def atom():
        return ["cmp", rng.choice(list(eqlgen.OPS)), rng.choice(["a", "b"]), rng.randint(0, 2)]

    r = rng.random()
    if r < 0.4:
        sc["cond"] = atom()
    elif r < 0.6:
        sc["cond"] = ["and", atom(), atom()]
    elif r < 0.8:
        sc["cond"] = ["or", atom(), atom()]
    else:
        sc["cond"] = ["not", atom()]
    sc["sel"] = rng.choice(["item", "item", "item.a", "both"]) if shape == "direct" else rng.choice(["item", "h+item", "item.a"])
    return sc


def run_flat(sc, n: Optional[int]) -> Dict[str, Any]:
    from krrood.entity_query_language.entity import let, entity, set_of, and_, or_, not_, flatten
    from krrood.entity_query_language.quantify_entity import an
    del LOG[:]
    try:
        streams = [[LP(o["id"], o["a"], o["b"], []) for o in st] for st in sc["streams"]]
        if sc["shape"] == "direct":
            item = flatten(logged_domain(5, streams[0]))
            h = None
        else:
            holders = []
            for j, (hd, st) in enumerate(zip(sc["holders"], streams)):
                ho = LH(hd["id"], hd["a"], 0, [])
                ho.stream = logged_domain(5 + j, st)
                holders.append(ho)
            del LOG[:]
            h = let(LH, logged_domain(0, holders), name="h")
            item = flatten(h.stream)

        def cond(c):
            if c[0] == "cmp":
                l = getattr(item, c[2])
                return {"==": l.__eq__, "!=": l.__ne__, "<": l.__lt__, "<=": l.__le__, ">": l.__gt__, ">=": l.__ge__}[c[1]](c[3])
            if c[0] == "and":
                return and_(cond(c[1]), cond(c[2]))
            if c[0] == "or":
                return or_(cond(c[1]), cond(c[2]))
            return not_(cond(c[1]))

        c = cond(sc["cond"])
        if sc["sel"] == "item":
            q, sels, single = an(entity(item, c)), [item], True
        elif sc["sel"] == "item.a":
            e = item.a
            q, sels, single = an(entity(e, c)), [e], True
        elif sc["sel"] == "both":
            e = item.a
            q, sels, single = an(set_of([item, e], c)), [item, e], False
        else:
            q, sels, single = an(set_of([h, item], c)), [h, item], False
        it = q.evaluate()
        build = list(LOG)
        del LOG[:]
        _pull(it, n, sels, single)
        out = {"build": build, "log": list(LOG)}
        it.close()
        return out
    except Exception as e:  # noqa
        return {"exc": type(e).__name__, "log": list(LOG)}


def run_flat_all(sc) -> Dict[str, Any]:
    full = run_flat(sc, None)
    if "exc" in full:
        return {"exc": full["exc"]}
    nrows = len([e for e in full["log"] if e[0] == 3])
    build = list(full["build"])
    ks = []
    for n in range(nrows + 2):
        r = run_flat(sc, n)
        if "exc" in r:
            return {"exc": r["exc"]}
        build += r["build"]
        ks.append(r["log"])
    return {"build": build, "full": full["log"], "ks": ks}


def _flat_chunk(scs):
    return [run_flat_all(sc) for sc in scs]


def run_flat_many(scs: List[dict], chunk: int = 40) -> List[Any]:
    parts = [scs[i:i + chunk] for i in range(0, len(scs), chunk)]
    out: List[Any] = []
    if not parts:
        return out
    with ProcessPoolExecutor(max_workers=min(eqlcheck.N_WORKERS, len(parts))) as ex:
        for r in ex.map(_flat_chunk, parts):
            out += r
    return out


def coq_flat(scs: List[dict], impls: List[dict]) -> List[int]:
    ex = []
    for sc, i in zip(scs, impls):
        gens = []
        for j, st in enumerate(sc["streams"]):
            gens.append(f"({5 + j}%nat, [" + "; ".join(f"VO {o['id']}" for o in st) + "])")
        if sc["shape"] == "attr":
            gens.append("(0%nat, [" + "; ".join(f"VO {hd['id']}" for hd in sc["holders"]) + "])")
        ks = "[" + "; ".join(g_log(l) for l in i["ks"]) + "]"
        ex.append(f"flat_spec_code [{'; '.join(gens)}] {g_log(i['full'])} {ks}")
    return core.coq_values(PROP, SPEC_HEADER, ex, chunk=60, tag="flat")


def flat_snippet(sc) -> str:
    return ("import json; from harness import c10\n"
            f"sc = json.loads({json.dumps(json.dumps(sc))})\n"
            "print(c10.run_flat(sc, 1))   # log after ONE result of an(entity(item, cond)) with item = flatten(<logging generator>) "
            "(shape direct) or flatten(h.stream) (shape attr): [0,g,i] element i pulled from iterator g (5.. = the flattened iterators, "
            "0 = the holders' domain), [1,g] iterator finished, [2,obj,attr] attribute read (6 = stream), [3,row] result")


# ------------------------------------------------------------------ log <-> sx
def canon_log(log) -> list:
    """the nested-int form show_trace prints"""
    return [[3, [list(v) for v in e[1]]] if e[0] == 3 else list(e) for e in log]


def g_event(e) -> str:
    if e[0] == 0:
        return f"Pull {e[1]}%nat {e[2]}%nat"
    if e[0] == 1:
        return f"End {e[1]}%nat"
    if e[0] == 2:
        return f"Get {core.zlit(e[1])} {e[2]}%nat"
    vals = []
    for v in e[1]:
        if v[0] == 0:
            vals.append(f"VI {core.zlit(v[1])}")
        elif v[0] == 1:
            vals.append(f"VO {v[1]}")
        elif v[0] == 2:
            vals.append("VLI [" + "; ".join(core.zlit(z) for z in v[1]) + "]")
        else:
            vals.append("VLO [" + "; ".join(str(z) for z in v[1]) + "]")
    return "Yield [" + "; ".join(vals) + "]"


def g_log(log) -> str:
    return "[" + "; ".join(g_event(e) for e in log) + "]"


# ------------------------------------------------------------------ fragment
def normalise(case) -> dict:
    """duplicate-free domains (a repeated domain element is C03's finding, not C10's subject)"""
    return dict(case, doms={v: list(dict.fromkeys(d)) for v, d in case["doms"].items()})


def has_union(c) -> bool:
    if c is None:
        return False
    k = c[0]
    if k == "or":
        return eqlgen.or_is_union(c) or has_union(c[1]) or has_union(c[2])
    if k == "and":
        return has_union(c[1]) or has_union(c[2])
    if k == "not":
        return has_union(c[1])
    return False


def classes(case) -> List[str]:
    """K_product: a selected variable that the condition does not bind in every true result (before 32abf51 drained by
    itertools.product before the first row -- finding C10-a, repaired; kept as a measured class); K_union: or_ over different
    variable sets (second pass over the right operand: outside F10)"""
    out = []
    c = case["cond"]
    bound = eqlgen.must_bind(c, True) if c is not None else set()
    roots = [eqlgen.opnd_var(s) for s in case["sels"]]
    if any(r is not None and r not in bound for r in roots):
        out.append("K_product")
    if has_union(c):
        out.append("K_union")
    return out


def in_scope(case) -> bool:
    return True


# ------------------------------------------------------------------ model / spec side
def coq_model(cases: List[dict]) -> List[Tuple[int, list, List[list]]]:
    """(in F10 as computed in Coq, model full trace, [trace_0 ..]) per case"""
    vals = core.coq_values(PROP, HEADER, [f"let c := {eqlgen.g_case(c)} in SL [case_in_F10 c; c10_traces c]" for c in cases],
                           chunk=60, tag="model")
    return [(v[0], v[1][0], v[1][1]) for v in vals]


def coq_spec(cases: List[dict], impls: List[dict]) -> List[Tuple[int, int]]:
    """(in F10, Spec code of the implementation's logs) -- needs only the Spec files"""
    ex = []
    for c, i in zip(cases, impls):
        ks = "[" + "; ".join(g_log(l) for l in i["ks"]) + "]"
        ex.append(f"let c := {eqlgen.g_case(c)} in SL [case_in_F10 c; case_spec_code c {g_log(i['full'])} {ks}]")
    vals = core.coq_values(PROP, SPEC_HEADER, ex, chunk=60, tag="spec")
    return [(v[0], v[1]) for v in vals]


SPEC_BITS = {1: "the rows / the log of an n-stopped run are not a prefix of the full run's",
             2: "a domain was not consumed as the prefix 0,1,2,...",
             4: "a domain was exhausted before any earlier-used variable moved past its first element "
                "(more pulled than the reference lazy nested-loop enumerator needs)",
             8: "an element was pulled from a generator domain and not looked at before more was pulled / the generator was finished / "
                "the log ended (read-ahead, or a partly cached domain drained)",
             16: "construction (let/entity/set_of/and_/or_/not_/contains/operators) ran user code"}
SEQ_BITS = {1: "the log after the second evaluation does not extend the log after the first",
            2: "a domain was not consumed as the prefix 0,1,2,... across the two evaluations",
            4: "re-evaluating the same query for no more results than were already obtained touched a generator "
               "(everything it needs is cached)",
            8: SPEC_BITS[8], 16: "construction of the second query ran user code"}


def explain(code: int) -> List[str]:
    return [t for b, t in SPEC_BITS.items() if code & b]


def first_diff(impl: dict, mfull, mks) -> Optional[dict]:
    if canon_log(impl["full"]) != mfull:
        return {"n": "all", "impl_log": canon_log(impl["full"]), "model_log": mfull}
    for n, (a, b) in enumerate(zip(impl["ks"], mks)):
        if canon_log(a) != b:
            return {"n": n, "impl_log": canon_log(a), "model_log": b}
    if len(impl["ks"]) != len(mks):
        return {"n": "count", "impl_log": len(impl["ks"]), "model_log": len(mks)}
    return None


def judge(case: dict, impl: dict, spec: Optional[Tuple[int, int]], model) -> Dict[str, Any]:
    """-> {"code": Spec code of the implementation (with bit 16 for a noisy construction), "diff": first log that differs
    from the model's (or None), "f10": bool}"""
    if "exc" in impl:
        return {"code": 32, "diff": None, "f10": bool(spec[0]) if spec else False, "exc": impl["exc"]}
    code = spec[1] | (16 if impl["build"] else 0)
    diff = first_diff(impl, model[1], model[2]) if model is not None else None
    return {"code": code, "diff": diff, "f10": bool(spec[0])}


def shrink(case: dict, model_ok: bool, bad) -> dict:
    cur = case
    for _ in range(8):
        cands = []
        for c in eqlcheck.candidates(cur):
            try:
                eqlgen.g_case(c)
                cands.append(normalise(c))
            except Exception:  # noqa
                pass
        cands = cands[:40]
        if not cands:
            break
        impls = run_impl_many(cands, chunk=5)
        ok = [k for k, i in enumerate(impls) if "exc" not in i]
        specs = dict(zip(ok, coq_spec([cands[k] for k in ok], [impls[k] for k in ok])))
        models = dict(zip(ok, coq_model([cands[k] for k in ok]))) if model_ok else {}
        nxt = None
        for k, c in enumerate(cands):
            j = judge(c, impls[k], specs.get(k), models.get(k))
            if bad(c, j):
                nxt = c
                break
        if nxt is None:
            break
        cur = nxt
    return cur


def run_python_witness(code: str):
    return eqlcheck.run_python_witness(code)


# ------------------------------------------------------------------ the check
def run(tier: str, seed: int, replay=None) -> int:
    rep = Report(PROP, tier, seed, "other")
    rep.trusted = core.COQ_TRUSTED + [
        "hand-written model Eql/Trace.v of the generator pipeline of symbolic.py (Variable / Literal / Attribute / Comparator / AND / "
        "ElseIf / Union (second pass: true results only) / Not / Exists (scratch list) / ForAll (candidate solutions, narrowing, early break), QueryObjectDescriptor.evaluate_selected_variables (lazy nested loops, bindings threaded), An._evaluate__) and of the "
        "domain cache hashed_data.py HashedIterable.__iter__ (replay of the cached elements, then the shared one-shot generator), "
        "tied by comparing event logs through the public API",
        "harness/c10.py: logging one-shot generators, logging attribute descriptors (classes LP / LT), log canonicaliser; "
        "harness/eqlgen.py (case generator, Gallina emission)",
        "CPython generator protocol, filter/map laziness: not modelled, only observed through the logs",
    ]
    rep.assume = [
        "LEVEL partial: the theorems bound the demand of the MODEL; that the real engine runs user code exactly when the model "
        "says is established by the event-for-event comparison on generated queries, not by proof",
        "vocabulary: variables over explicit domains, literals (ints, int lists), attribute chains, comparisons, contains/in_, and_, or_, "
        "not_, exists, for_all, entity/set_of; predicates, flatten, indexing, calls, rule trees are not modelled",
        "domains are duplicate-free (since 1997e3c a repeated element is pulled from the generator but skipped by the cache, so it is yielded "
        "once; the model enumerates D x as given and does not model the skipped pull) "
        "and every variable has its own generator; queries are tree-shaped (no node object used twice)",
        "one consumer per query: iterators resumed in an interleaved fashion are C03's subject",
        "on the real engine's logs the demand bound (Spec bit 4) is applied to conditions without Union and without for_all (the second-pass mark of the two-part bound is not observable); for Union the two-part bound is a theorem about the model (C10_demand), for_all is outside (C10_forall_eager)",
    ]
    rep.assume.append("re-evaluation scenarios: the first iterator is closed before the second evaluation starts (two LIVE iterators over one "
                      "variable are C03's subject); the model of the second evaluation is the same evaluator started from the log the first left")
    rep.assume.append("match-API constructions have NO model: silent construction is observed on the real engine only. Spec bit 8 (no read-ahead) "
                      "is proved of the model for the classes attr_only_strict / attr_only_len (C10_no_read_ahead) and the re-evaluation bit 4 for "
                      "queries without exists (C10_reeval_quiet); for exists queries bit 4 is checked on the logs only")
    rep.assume.append("flatten over one-shot iterators (directly and behind an attribute) has NO model (Eql/Trace.v has no iterator-valued data): "
                      "silent construction, prefix, pull order and no read-ahead are evaluated on the real engine's logs only")
    rep.assume.append("the log entries Frame / Note / Pass of the model are bookkeeping (scratch list of an Exists call, start of a Union's second "
                      "pass): no user code runs, show_trace drops them before the comparison")
    rep.rule = ("four families, all seeded. (1) random quantifier-free queries (harness/eqlgen.py, profile c01): 1-3 variables over object / "
                "value-equal-twin / int domains of 0-4 elements given as logging one-shot generators, conditions of depth <= 3, 1-3 selected "
                "expressions; every query is rebuilt and run for EVERY n = 0 .. rows+1 and in full; one evaluation = one (query, n) pair. "
                "(2) re-evaluation: for 1-2 values of n per query, pull n results, close the iterator, then pull m in {1, <= n, all} results "
                "from the same an(...) object / a rebuilt query / another query (sub-condition, negation, other selection) over the SAME "
                "let-variables, built after the first evaluation; log compared with the model's trace_seq. (3) construction through the match API: "
                "an(entity_matching(T, generator)(kw...)) with literals, let-variables over generator domains, nested match / select / match_any / "
                "match_all as keyword values; the construction log must be empty. (4) 150 (quick) / 2500 (thorough) queries with exists / for_all "
                "(profile quant) are part of families 1 and 2 since the model covers them. (4b) every third query again as an(..., quantification=AtLeast / "
                "AtMost / Exactly / Range) with bounds that hold, for every n: same expected log as the plain query. (5) flatten: item = flatten(<logging generator>) or "
                "flatten(h.stream) with h over holders whose attribute is such a generator, one-variable conditions over item, every n. "
                "non-trivial = at least one domain element was pulled (families 1, 2, 4) / a keyword value is a variable (family 3)")
    ok_spec, log = core.coq_make(["Base/Sx.vo", "Eql/TraceSpec.vo"])
    rep.oblige("build:spec", ok_spec, "" if ok_spec else core.first_error(log))
    model_ok = core.standard_proof_steps(rep, PROP, ["Props/C10.vo"])
    from translator import pins
    pins.oblige(rep, str(core.REPO), "eql", "the event-log model (Eql/Trace.v)")
    pins.oblige(rep, str(core.REPO), "c10", "the event-log model (Eql/Trace.v: AND / ElseIf / Union / Not, optimize_or, domain set-up), the silent-construction and the flatten scenarios")
    if tier == "thorough" and model_ok:
        rc, out = core.sh(["timeout", "900", "coqchk", "-silent", "-o", "-Q", ".", "Krrood", "Krrood.Props.C10"], cwd=core.COQ, timeout=930)
        rep.oblige("coqchk:Props/C10.vo", rc == 0 and "Axioms: <none>" in out.replace("\n", " ").replace("  ", " "), out.strip()[-400:])
    if not ok_spec:
        return rep.finish()

    findings = core.load_findings(PROP)
    open_classes = {f.cls: f for f in findings if f.kind == "open"}

    # ---- cases
    cases: List[dict] = []
    origin: List[str] = []
    seq_jobs: List[Tuple[dict, dict]] = []
    match_scs: List[dict] = []
    family = (replay or {}).get("family")
    if replay is not None and family == "seq":
        seq_jobs.append((normalise(replay["case"]), replay["scenario"]))
    elif replay is not None and family == "match":
        match_scs.append(replay["scenario"])
    elif replay is not None and "case" in replay:
        cases.append(normalise(replay["case"]))
        origin.append("replay")
    elif replay is None:
        cdir = core.VERIF / "corpus" / PROP
        for f in sorted(cdir.glob("*.json")) if cdir.is_dir() else []:
            d = json.loads(f.read_text())
            if d.get("family") == "seq":            # a recorded two-evaluation scenario (must pass)
                seq_jobs.append((normalise(d["case"]), d["scenario"]))
            elif "case" in d:
                cases.append(normalise(d["case"]))
                origin.append(f"corpus:{f.name}")
        n = 420 if tier == "quick" else 6000
        rng = core.Rng(seed * 1000003 + 17)
        i = 0
        while len(cases) < n + len([o for o in origin if o.startswith("corpus")]):
            c = normalise(eqlgen.gen_case(rng.fork(i), "c01"))
            i += 1
            if in_scope(c):
                cases.append(c)
                origin.append(f"gen:{i - 1}")
        nq = 150 if tier == "quick" else 2500
        rq = core.Rng(seed * 1000003 + 99)
        i = 0
        while nq > 0:
            c = normalise(eqlgen.gen_case(rq.fork(i), "quant"))
            i += 1
            if eqlgen.has_quant(c["cond"]):          # since the model covers exists / for_all they are ordinary cases
                cases.append(c)
                origin.append(f"genq:{i - 1}")
                nq -= 1
        rm = core.Rng(seed * 1000003 + 55)
        match_scs = [gen_match_scenario(rm.fork(i)) for i in range(300 if tier == "quick" else 4000)]

    impls = run_impl_many(cases)
    ran = [k for k, i in enumerate(impls) if "exc" not in i]
    specs: Dict[int, Tuple[int, int]] = dict(zip(ran, coq_spec([cases[k] for k in ran], [impls[k] for k in ran])))
    models: Dict[int, Any] = {}
    if model_ok:
        try:
            models = dict(zip(range(len(cases)), coq_model(cases)))
        except core.CoqEvalError as e:
            rep.oblige("correspondence:model-evaluates", False, str(e)[:300])
            model_ok = False

    dist: Dict[str, Any] = {"queries": len(cases), "pairs": 0, "in_F10": 0, "K_product": 0, "K_union": 0, "rows_ge_2": 0,
                            "log_eq_model_pairs": 0, "impl_exception": 0, "max_log_len": 0}
    ops: Dict[str, int] = {}
    kf_counts: Dict[str, int] = {}
    bad: List[Tuple[dict, dict, str]] = []
    tie_bad: List[Tuple[dict, dict, str]] = []
    for k, (c, o, i) in enumerate(zip(cases, origin, impls)):
        j = judge(c, i, specs.get(k), models.get(k))
        cls = classes(c)
        for cl in cls:
            dist[cl] += 1
        for kk, v in eqlgen.stats(c).items():
            ops[kk] = ops.get(kk, 0) + v
        if "exc" in i:
            dist["impl_exception"] += 1
            bad.append((c, j, o))
            continue
        dist["in_F10"] += int(j["f10"])
        nrows = len(i["ks"]) - 2
        dist["rows_ge_2"] += int(nrows >= 2)
        dist["max_log_len"] = max(dist["max_log_len"], len(i["full"]))
        for n, l in enumerate(i["ks"]):
            dist["pairs"] += 1
            rep.count(json.dumps([c, n], sort_keys=True), c["cond"] is not None and n >= 1 and any(e[0] == 0 for e in l))
            if k in models and n < len(models[k][2]) and canon_log(l) == models[k][2][n]:
                dist["log_eq_model_pairs"] += 1
        if j["code"] == 0:
            if j["diff"] is not None:
                tie_bad.append((c, j, o))       # meets the Spec predicates but not the model's log: the tie is broken
            continue
        # the implementation's logs miss the Spec
        if (not j["f10"]) and j["code"] in (4, 8, 12) and j["diff"] is None and model_ok and "K_product" in cls and "K_product" in open_classes:
            kf_counts["K_product"] = kf_counts.get("K_product", 0) + 1
            continue
        bad.append((c, j, o))

    def is_bad(c, j):
        if j["code"] == 0:
            return False
        return not ((not j["f10"]) and j["code"] in (4, 8, 12) and j["diff"] is None and "K_product" in classes(c) and "K_product" in open_classes)

    for c, j, o in bad[:3]:
        small = c
        try:
            small = shrink(c, model_ok, is_bad)
        except Exception as e:  # noqa
            rep.note(f"shrinking failed: {e}")
        i2 = run_impl(small)
        s2 = coq_spec([small], [i2])[0] if "exc" not in i2 else None
        m2 = coq_model([small])[0] if model_ok else None
        j2 = judge(small, i2, s2, m2)
        rep.violation({"kind": "counterexample", "origin": o, "case": small, "original_case": c, "classes": classes(small),
                       "in_F10": j2["f10"], "spec_code": j2["code"], "spec_misses": explain(j2["code"]) + ([f"raised {j2.get('exc')}"] if "exc" in j2 else []),
                       "impl": {kk: (canon_log(v) if kk in ("full", "build") else [canon_log(l) for l in v] if kk == "ks" else v) for kk, v in i2.items()},
                       "model": {"full": m2[1], "ks": m2[2]} if m2 else None, "first_difference_from_model": j2["diff"],
                       "python": snippet(small, None),
                       "explanation": "events: [0,x,i] i-th element of variable x's domain pulled from its one-shot generator; [1,x] that generator "
                                      "asked again and finished; [2,obj,attr] attribute read; [3,row] result handed out. ks[n] = log after pulling n results "
                                      "from an(...).evaluate() of a freshly built query; build = events during construction (must be empty)"})
    if len(bad) > 3:
        rep.note(f"{len(bad) - 3} further cases missing the Spec not reported individually")

    def is_tie_bad(c, j):
        return j["code"] == 0 and j["diff"] is not None

    if tie_bad:
        c, j, o = tie_bad[0]
        small = c
        try:
            small = shrink(c, model_ok, is_tie_bad)
        except Exception as e:  # noqa
            rep.note(f"shrinking failed: {e}")
        i2 = run_impl(small)
        m2 = coq_model([small])[0]
        d2 = first_diff(i2, m2[1], m2[2]) if "exc" not in i2 else None
        rep.oblige("correspondence:model", False, f"{len(tie_bad)} queries whose event log differs from the model's (first: {o})")
        rep.violation({"kind": "counterexample", "origin": o, "case": small, "original_case": c, "in_F10": j["f10"],
                       "first_difference_from_model": d2 or j["diff"], "python": snippet(small, (d2 or j["diff"])["n"] if isinstance((d2 or j["diff"])["n"], int) else None),
                       "explanation": "the real engine ran user code at other moments than the model the C10 theorems are about "
                                      "(events: [0,x,i] pull, [1,x] generator finished, [2,obj,attr] getattr, [3,row] result); the log still meets the "
                                      "Spec predicates on logs (prefix, order, exhaustion), so either the evaluation order changed harmlessly and "
                                      "Eql/Trace.v must follow it, or the engine now reads ahead / evaluates eagerly in a way only the "
                                      "event-for-event comparison sees"})
    elif model_ok:
        rep.oblige("correspondence:model", True, f"{dist['log_eq_model_pairs']} (query, n) logs equal to the model's trace_n event for event")

    # ---- result quantifiers with a constraint that holds: an(..., quantification=AtLeast/AtMost/Exactly/Range) counts the results
    #      while it hands them out, so the log for every n is that of the plain query (same model trace)
    qc_cases: List[dict] = []
    qc_src: List[int] = []
    if replay is None:
        rc = core.Rng(seed * 1000003 + 29)
        for k, (c, i) in enumerate(zip(cases, impls)):
            if "exc" not in i and k % 3 == 0:
                qc_cases.append(dict(c, quant=holding_constraint(len(i["ks"]) - 2, rc.fork(k))))
                qc_src.append(k)
    qc_impl = run_impl_many(qc_cases) if qc_cases else []
    qran = [j for j, i in enumerate(qc_impl) if "exc" not in i]
    qc_spec = dict(zip(qran, coq_spec([qc_cases[j] for j in qran], [qc_impl[j] for j in qran]))) if qran else {}
    qcdist = {"queries": len(qc_cases), "pairs": 0, "AtLeast": 0, "AtMost": 0, "Exactly": 0, "Range": 0, "log_eq_model_pairs": 0, "exceptions": 0}
    qc_bad = []
    for j, (c, i) in enumerate(zip(qc_cases, qc_impl)):
        qcdist[c["quant"][0]] += 1
        m = models.get(qc_src[j])
        jj = judge(c, i, qc_spec.get(j), m)
        if "exc" in i:
            qcdist["exceptions"] += 1
            qc_bad.append((c, jj, i))
            continue
        for n, l in enumerate(i["ks"]):
            qcdist["pairs"] += 1
            rep.count(json.dumps(["qc", c, n], sort_keys=True), n >= 1 and any(e[0] == 0 for e in l))
            if m is not None and n < len(m[2]) and canon_log(l) == m[2][n]:
                qcdist["log_eq_model_pairs"] += 1
        if jj["code"] != 0 or jj["diff"] is not None:
            kp = (not jj["f10"]) and jj["code"] == 4 and jj["diff"] is None       # outside F10 (for_all): the demand bit is not claimed
            if not kp:
                qc_bad.append((c, jj, i))
    for c, jj, i in sorted(qc_bad, key=lambda t: len(json.dumps(t[0])))[:2]:
        rep.violation({"kind": "counterexample", "family": "quantification", "case": c, "quantification": c["quant"],
                       "spec_code": jj["code"], "spec_misses": explain(jj["code"]) + ([f"raised {jj.get('exc')}"] if "exc" in jj else []),
                       "impl": {kk: (canon_log(v) if kk in ("full", "build") else [canon_log(l) for l in v] if kk == "ks" else v) for kk, v in i.items()},
                       "first_difference_from_model": jj["diff"], "python": snippet(c, 1),
                       "explanation": "an(entity/set_of(...), quantification=<case.quant>) with a constraint whose bounds hold: the count is checked while the "
                                      "results are handed out, so pulling n results must cause exactly the events of the plain query (the model's trace_n). "
                                      "events [0,x,i] pull, [1,x] generator finished, [2,obj,attr] getattr, [3,row] result; ks[n] = log after pulling n results"})
    if len(qc_bad) > 2:
        rep.note(f"{len(qc_bad)} constrained queries miss the Spec or the model's log (2 smallest reported)")
    rep.extra["quantification_constraints"] = qcdist

    # ---- re-evaluation: pull n results, abandon the iterator, evaluate again (same object / rebuilt / another query over the same variables)
    if replay is None:
        rs = core.Rng(seed * 1000003 + 71)
        for k, (c, i) in enumerate(zip(cases, impls)):
            if "exc" not in i:
                for sc in seq_scenarios(c, len(i["ks"]) - 2, rs.fork(k)):
                    seq_jobs.append((c, sc))
    seq_impl = run_seq_many(seq_jobs)
    sran = [k for k, i in enumerate(seq_impl) if "exc" not in i]
    seq_vals = dict(zip(sran, coq_seq([seq_jobs[k] for k in sran], [seq_impl[k] for k in sran], model_ok)))
    seq_bad: List[Tuple[int, dict]] = []
    seq_tie: List[Tuple[int, dict]] = []
    sdist = {"scenarios": len(seq_jobs), "same": 0, "rebuilt": 0, "other": 0, "log_eq_model": 0, "second_eval_pulled": 0, "exceptions": 0}
    for k, ((c, sc), i) in enumerate(zip(seq_jobs, seq_impl)):
        sdist[sc["variant"]] += 1
        if "exc" in i:
            sdist["exceptions"] += 1
            seq_bad.append((k, {"code": 32, "exc": i["exc"]}))
            continue
        mlog, code = seq_vals[k]
        code |= 16 if i["build"] else 0
        eq = mlog is None or canon_log(i["log"]) == mlog
        sdist["log_eq_model"] += int(mlog is not None and eq)
        pulled2 = len([e for e in i["log"][len(i["base"]):] if e[0] == 0]) > 0
        sdist["second_eval_pulled"] += int(pulled2)
        rep.count(json.dumps(["seq", c, sc], sort_keys=True), pulled2 or len(i["log"]) > len(i["base"]))
        info = {"code": code, "model_log": mlog, "eq": eq}
        if code == 0:
            if not eq:
                seq_tie.append((k, info))
            continue
        kp = "K_product" in classes(c) or "K_product" in classes(sc["case2"])
        if code == 8 and eq and model_ok and kp and "K_product" in open_classes:
            kf_counts["K_product_reeval"] = kf_counts.get("K_product_reeval", 0) + 1
            continue
        seq_bad.append((k, info))
    for k, info in sorted(seq_bad + seq_tie[:1], key=lambda t: len(json.dumps(seq_jobs[t[0]])))[:3]:
        c, sc = seq_jobs[k]
        i = seq_impl[k]
        rep.violation({"kind": "counterexample", "family": "seq", "case": c, "scenario": sc,
                       "spec_code": info["code"], "spec_misses": [t for b, t in SEQ_BITS.items() if info["code"] & b] + ([f"raised {info['exc']}"] if "exc" in info else []),
                       "impl": {kk: canon_log(v) for kk, v in i.items() if kk in ("build", "base", "log")},
                       "model_log": info.get("model_log"), "python": seq_snippet(c, sc),
                       "explanation": "pull scenario.n results from an(...).evaluate() of the case's query, close the iterator, then pull scenario.m "
                                      "(null = all) results from a second evaluation (variant same: the same an(...) object; rebuilt / other: "
                                      "scenario.case2 built over the SAME let-variables). base = log after the first step, log = after both; "
                                      "events [0,x,i] pull, [1,x] generator finished, [2,obj,attr] getattr, [3,row] result. model_log = the model's "
                                      "trace_seq (Eql/Trace.v): the domain cache replays what is cached and pulls only beyond it"})
    if seq_tie:
        rep.oblige("correspondence:model-reevaluation", False, f"{len(seq_tie)} re-evaluation scenarios whose log differs from the model's trace_seq")
    elif model_ok and seq_jobs:
        rep.oblige("correspondence:model-reevaluation", True, f"{sdist['log_eq_model']} two-evaluation logs equal to the model's trace_seq event for event")
    if len(seq_bad) > 3:
        rep.note(f"{len(seq_bad)} re-evaluation scenarios miss the Spec (3 smallest reported)")

    # ---- construction through the match API: the construction log must be empty
    mres = run_match_many(match_scs)
    mdist = {"scenarios": len(match_scs), "with_variable_kw": 0, "nested": 0, "evaluated_ok": 0, "eval_exception": 0, "construction_exception": 0, "pulled_at_eval": 0}
    mbad = []
    for sc, r in zip(match_scs, mres):
        txt = json.dumps(sc["kw"])
        mdist["with_variable_kw"] += int('"var"' in txt or "match_any_var" in txt)
        mdist["nested"] += int('"match"' in txt or '"select"' in txt or "match_any_nested" in txt)
        mdist["evaluated_ok"] += int("rows" in r)
        mdist["eval_exception"] += int("eval_exc" in r)
        mdist["construction_exception"] += int("exc" in r)
        mdist["pulled_at_eval"] += int(r.get("pulls", 0) > 0)
        rep.count(json.dumps(["match", sc], sort_keys=True), '"var"' in txt or "match_any_var" in txt)
        if r["build"]:
            mbad.append((sc, r))
    for sc, r in sorted(mbad, key=lambda t: len(json.dumps(t[0])))[:2]:
        rep.violation({"kind": "counterexample", "family": "match", "scenario": sc, "impl": {"build": r["build"]}, "spec": {"build": []},
                       "python": match_snippet(sc),
                       "explanation": "building an(entity_matching(MPet, <generator>)(**kw)) -- kw values: literals, let-variables over generator domains, "
                                      "nested match / select / match_any / match_all -- ran user code: [0,var,i] the i-th element was pulled out of a "
                                      "generator domain (var 0 = the matched entity's domain, 1.. = the keyword variables in order of creation), "
                                      "[2,obj,field] a field of a user object was read, [4,obj] bool(obj) was called. Nothing was evaluated yet."})
    if len(mbad) > 2:
        rep.note(f"{len(mbad)} match-API constructions ran user code (2 smallest reported)")

    # ---- construction with user data that has behaviour: iterator / collection arguments of predicates and symbolic functions, lazy
    #      collections as literal operands, a domain with its own __iter__, an index key with __str__, a single object as domain
    if replay is None:
        rk = core.Rng(seed * 1000003 + 41)
        ctor_scs = [gen_ctor_scenario(rk.fork(i)) for i in range(200 if tier == "quick" else 2500)]
    elif family == "ctor":
        ctor_scs = [replay["scenario"]]
    else:
        ctor_scs = []
    cres = run_ctor_many(ctor_scs)
    cdist: Dict[str, Any] = {"scenarios": len(ctor_scs), "silent": 0, "construction_exception": 0}
    cbad = []
    for sc, r in zip(ctor_scs, cres):
        cdist[sc["kind"]] = cdist.get(sc["kind"], 0) + 1
        rep.count(json.dumps(["ctor", sc], sort_keys=True), True)
        if "exc" in r:
            cdist["construction_exception"] += 1
        if not r["build"]:
            cdist["silent"] += 1
            continue
        cls = CTOR_FINDING.get(sc["kind"])
        if cls in open_classes and r["build"] == ctor_expected(sc):
            kf_counts[cls] = kf_counts.get(cls, 0) + 1
            continue
        cbad.append((sc, r))
    for sc, r in sorted(cbad, key=lambda t: len(json.dumps(t[0])))[:2]:
        rep.violation({"kind": "counterexample", "family": "ctor", "scenario": sc, "impl": {"build": r["build"]}, "spec": {"build": []},
                       "python": ctor_snippet(sc),
                       "explanation": "building a query ran user code / advanced user data. kinds: sf_iter / pred_iter = symbolic function / Predicate with a "
                                      "collection argument (one-shot generator, list, tuple) and a variable argument in several argument styles; lit_lazy = a lazily "
                                      "loading re-iterable collection as literal operand of in_/contains/flatten/==/not_; let_iterable = let(T, <object with its own "
                                      "__iter__>); index_key = variable[key] with a user key; single_obj = let(T, <one object>). events: [0,g,i] element i pulled / "
                                      "loaded, [1,g] finished, [4,obj] bool(obj), [5,c] __iter__ called, [6,k] str(key), [7,c] __contains__"})
    if len(cbad) > 2:
        rep.note(f"{len(cbad)} constructions ran user code (2 smallest reported)")
    rep.extra["construction_user_data"] = cdist

    # ---- flatten over one-shot iterators (directly, and behind an attribute): Spec predicates on the implementation's logs
    if replay is None:
        rf = core.Rng(seed * 1000003 + 83)
        flat_scs = [gen_flat_scenario(rf.fork(i)) for i in range(120 if tier == "quick" else 1500)]
    elif family == "flatten":
        flat_scs = [replay["scenario"]]
    else:
        flat_scs = []
    fimpl = run_flat_many(flat_scs)
    fran = [k for k, i in enumerate(fimpl) if "exc" not in i]
    fcodes = dict(zip(fran, coq_flat([flat_scs[k] for k in fran], [fimpl[k] for k in fran]))) if fran else {}
    fdist = {"scenarios": len(flat_scs), "direct": 0, "attr": 0, "pairs": 0, "exceptions": len(flat_scs) - len(fran), "rows_ge_2": 0}
    fbad = []
    for k, sc in enumerate(flat_scs):
        fdist[sc["shape"]] += 1
        i = fimpl[k]
        if "exc" in i:
            fbad.append((sc, 32, i))
            continue
        fdist["rows_ge_2"] += int(len(i["ks"]) >= 4)
        for n, l in enumerate(i["ks"]):
            fdist["pairs"] += 1
            rep.count(json.dumps(["flat", sc, n], sort_keys=True), n >= 1 and any(e[0] == 0 and e[1] >= 5 for e in l))
        code = fcodes[k] | (16 if i["build"] else 0)
        if code:
            fbad.append((sc, code, i))
    for sc, code, i in sorted(fbad, key=lambda t: len(json.dumps(t[0])))[:2]:
        rep.violation({"kind": "counterexample", "family": "flatten", "scenario": sc, "spec_code": code,
                       "spec_misses": explain(code) + ([f"raised {i['exc']}"] if "exc" in i else []),
                       "impl": {kk: (canon_log(v) if kk in ("full", "build") else [canon_log(l) for l in v] if kk == "ks" else v) for kk, v in i.items()},
                       "python": flat_snippet(sc),
                       "explanation": "item = flatten(<one-shot logging generator>) (shape direct) or flatten(h.stream) with h over holders whose attribute "
                                      "stream is such a generator (shape attr); ks[n] = log after pulling n results from a freshly built an(...).evaluate(). "
                                      "events [0,g,i] element i pulled from iterator g (5.. flattened iterators, 0 the holders' domain), [1,g] iterator finished, "
                                      "[2,obj,attr] attribute read (6 = stream), [3,row] result. No model: the Spec predicates are evaluated on the real engine's logs"})
    if len(fbad) > 2:
        rep.note(f"{len(fbad)} flatten scenarios miss the Spec (2 smallest reported)")
    rep.extra["flatten"] = fdist
    rep.extra["reevaluation"] = sdist
    rep.extra["match_construction"] = mdist

    # ---- known findings: replay the witnesses
    for f in findings:
        try:
            w = json.loads((core.VERIF / f.witness).read_text())
        except Exception as e:  # noqa
            rep.oblige(f"witness:{f.fid}", False, f"cannot read {f.witness}: {e}")
            continue
        if "case" in w:
            wc = normalise(w["case"])
            i = run_impl(wc)
            got = {"exc": i["exc"]} if "exc" in i else {"code": coq_spec([wc], [i])[0][1] | (16 if i["build"] else 0),
                                                         "first": canon_log(i["ks"][1]) if len(i["ks"]) > 1 else []}
            fails = got.get("code", 32) != 0
            as_recorded = got == w.get("impl_recorded")
            py = snippet(wc, 1)
        else:
            got = run_python_witness(w["python"])
            fails = got != w["spec"]
            as_recorded = got == w.get("impl_recorded")
            py = w["python"]
        if f.kind == "open":
            if fails and as_recorded:
                rep.known(f)
                rep.extra.setdefault("known_finding_instances", {})[f.fid] = kf_counts.get(f.cls, 0)
            elif fails:
                rep.violation({"kind": "counterexample", "finding": f.fid, "witness": f.witness, "impl": got,
                               "impl_recorded": w.get("impl_recorded"), "spec": w.get("spec"), "python": py,
                               "explanation": "the witness of a listed finding now fails in a different way than recorded"})
            else:
                rep.note(f"finding {f.fid} no longer reproduces (witness now meets the Spec)")
        elif fails:
            rep.violation({"kind": "counterexample", "finding": f.fid, "witness": f.witness, "impl": got, "spec": w.get("spec"),
                           "python": py, "explanation": f"regression: defect repaired in {f.commit} is back"})

    if replay is not None and family is None and "python" in replay and "case" not in replay:
        got = run_python_witness(replay["python"])
        if got != replay.get("spec"):
            rep.violation({"kind": "counterexample", "impl": got, "spec": replay.get("spec"), "python": replay["python"]})

    rep.extra["distribution"] = dict(dist, operators=ops, known_finding_instances=kf_counts)
    step = max(1, len(cases) // 5)
    rep.samples = [{"origin": o, "case": c, "log_after_1": canon_log(i["ks"][1]) if "ks" in i and len(i["ks"]) > 1 else None}
                   for c, o, i in list(zip(cases, origin, impls))[::step]][:5]
    return rep.finish()
