"""Shared driver of the EQL-core checks (C01 sets, C02 multisets): proofs, correspondence implementation / model / Spec,
known findings, shrinking, evidence.  See DESIGN.md sections 5 and 6 (C01, C02)."""
from __future__ import annotations

import json
import os
import subprocess
import sys
from concurrent.futures import ProcessPoolExecutor
from pathlib import Path
from typing import Any, Callable, Dict, List, Optional, Tuple, Sequence

from . import core, eqlgen
from .core import Report

N_WORKERS = 16


# ------------------------------------------------------------------ implementation side (worker processes)
def _impl_chunk(cases: List[dict]) -> List[Any]:
    return [eqlgen.run_impl(c) for c in cases]


def run_impl_many(cases: List[dict], chunk: int = 150) -> List[Any]:
    parts = [cases[i:i + chunk] for i in range(0, len(cases), chunk)]
    out: List[Any] = []
    with ProcessPoolExecutor(max_workers=min(N_WORKERS, max(1, len(parts)))) as ex:
        for r in ex.map(_impl_chunk, parts):
            out += r
    return out


# ------------------------------------------------------------------ model / spec side
FRAG02: Dict[str, bool] = {}  # the same for C02's fragment (ShowFrag.case_in_F02)
FRAG: Dict[str, bool] = {}   # canonical case text -> the proved-fragment flag computed in Coq (ShowFrag.case_in_F01)


DEPCLS: Dict[str, List[str]] = {}   # canonical case text -> finding classes of a case with generated variables (computed in Coq)
DEP_ISSUES: List[str] = []          # cross-check failures of the dependent Spec (turned into obligations by run_check)
DEP_STATE: Dict[str, Any] = {"level": None, "log": ""}


def is_dep(c: dict) -> bool:
    return bool(c.get("flat") or c.get("sub"))


def dep_level() -> int:
    """what is available for cases with generated variables (flatten / nested sub-queries):
    2 = model + Spec + proved-fragment flag (Eql/ShowDepFrag.vo), 1 = model + Spec, 0 = Spec only, -1 = nothing"""
    if DEP_STATE["level"] is None:
        lvl, logs = -1, []
        for k, tgt in ((2, "Eql/ShowDepFrag.vo"), (1, "Eql/ShowDep.vo"), (0, "Eql/ShowDepSpec.vo")):
            ok, log = core.coq_make([tgt])
            if ok:
                lvl = k
                break
            logs.append(f"{tgt}: {core.first_error(log)}")
        DEP_STATE["level"], DEP_STATE["log"] = lvl, "; ".join(logs)
    return DEP_STATE["level"]


def classes_of(c: dict) -> List[str]:
    return DEPCLS.get(case_key(c), []) if is_dep(c) else eqlgen.classes(c)


def case_key(c: dict) -> str:
    return json.dumps(c, sort_keys=True)


def coq_rows_dep(prop: str, cases: List[dict], model_ok: bool) -> List[Tuple[Optional[list], list]]:
    """cases with generated variables: (model rows or None, Spec rows) from Eql/EvalDep.v / Eql/EvalDepSpec.v; records the
    Coq-computed fragment flag (ShowDepFrag.dcase_in_FD) and finding class, and cross-checks the Spec's rows against the
    first-order reading of eqlgen.spec_case evaluated by the plain Spec (Eql/Sat.v)"""
    if not cases:
        return []
    lvl = dep_level() if model_ok else min(dep_level(), 0)
    terms = [eqlgen.g_case_dep(c) for c in cases]
    cross = core.coq_values(prop, eqlgen.SPEC_ONLY_HEADER, [f"spec_rows ({eqlgen.g_case(eqlgen.spec_case(c))})" for c in cases],
                            chunk=120, tag="depx")
    out: List[Tuple[Optional[list], list]] = []
    if lvl < 0:
        for c, x in zip(cases, cross):
            FRAG[case_key(c)] = FRAG02[case_key(c)] = False
            out.append((None, x))
        return out
    if lvl == 2:
        vals = core.coq_values(prop, eqlgen.DEP_FRAG_HEADER, [f"rows_dep {t}" for t in terms], chunk=100, tag="dep")
    elif lvl == 1:
        vals = core.coq_values(prop, eqlgen.DEP_HEADER, [f"SL [dmodel_rows {t}; dspec_rows {t}; SB false; SB (dspec_wf {t}); SB false]" for t in terms], chunk=100, tag="dep")
    else:
        vals = core.coq_values(prop, eqlgen.DEP_SPEC_ONLY_HEADER, [f"SL [SL []; dspec_rows {t}; SB false; SB (dspec_wf {t}); SB false]" for t in terms], chunk=100, tag="dep")
    for c, v, x in zip(cases, vals, cross):
        k = case_key(c)
        FRAG[k] = bool(v[2])
        FRAG02[k] = False
        # the excluded class: a variable may be left without a value -- with flatten that is finding C01-h2, with a
        # sub-query (or a plain variable) over nothing C01-h
        DEPCLS[k] = ([("K_emptyflat" if c.get("flat") else "K_emptydom")] if v[4] else [])
        if not v[3]:
            DEP_ISSUES.append(f"declarations not in dependency order / quantified variable not scoped (executable Spec not covered by C01b_spec_exec): {k[:400]}")
        if view(v[1], "set") != view(x, "set") and not eqlgen.flat_over_twins(c):
            DEP_ISSUES.append(f"Spec rows of Eql/EvalDepSpec.v differ from the first-order reading spec_case: {k[:600]} dep={v[1]} spec_case={x}")
        out.append((v[0] if lvl >= 1 else None, v[1]))
    return out


def coq_rows(prop: str, cases: List[dict], model_ok: bool) -> List[Tuple[Optional[list], list]]:
    """(model rows or None, spec rows) per case; also records the Coq-computed fragment flag in FRAG"""
    # cases with flattened collections / nested sub-queries are evaluated by the generalised model (Eql/EvalDep.v) and its
    # Spec (Eql/EvalDepSpec.v); their proved fragment is the flag ShowDepFrag.dcase_in_FD (theorem C01b_fragment_flag)
    dep_idx = [i for i, c in enumerate(cases) if is_dep(c)]
    plain_idx = [i for i, c in enumerate(cases) if not is_dep(c)]
    res: List[Any] = [None] * len(cases)
    for i, r in zip(dep_idx, coq_rows_dep(prop, [cases[i] for i in dep_idx], model_ok)):
        res[i] = r
    plain = [cases[i] for i in plain_idx]
    if model_ok:
        vals = core.coq_values(prop, eqlgen.HEADER, [f"rows_and_frags ({eqlgen.g_case(c)})" for c in plain], chunk=120) if plain else []
        for i, c, v in zip(plain_idx, plain, vals):
            FRAG[case_key(c)] = bool(v[2])
            FRAG02[case_key(c)] = bool(v[3])
            res[i] = (v[0], v[1])
        return res
    vals = core.coq_values(prop, eqlgen.SPEC_ONLY_HEADER, [f"spec_rows ({eqlgen.g_case(c)})" for c in plain], chunk=120) if plain else []
    for i, v in zip(plain_idx, vals):
        res[i] = (None, v)
    return res


def view(rows, mode: str):
    if rows is None or (rows and rows[0] == "exc"):
        return rows
    ks = [json.dumps(r) for r in rows]
    if mode == "set":
        return sorted(set(ks))
    if mode == "bag":
        return sorted(ks)
    return ks


# ------------------------------------------------------------------ shrinking
def _subconds(c):
    """smaller candidates for a condition"""
    k = c[0]
    if k in ("and", "or"):
        yield c[1]
        yield c[2]
        for s in _subconds(c[1]):
            yield [k, s, c[2]]
        for s in _subconds(c[2]):
            yield [k, c[1], s]
    elif k == "not":
        yield c[1]
        for s in _subconds(c[1]):
            yield ["not", s]


def _used_vars(case):
    vs = set(v for v in (eqlgen.opnd_var(s) for s in case["sels"]) if v)
    if case["cond"] is not None:
        vs |= set(eqlgen.cond_vars(case["cond"]))
    return vs


def candidates(case):
    c = case["cond"]
    if c is not None:
        for s in _subconds(c):
            yield dict(case, cond=s)
    if len(case["sels"]) > 1:
        for i in range(len(case["sels"])):
            yield dict(case, sels=case["sels"][:i] + case["sels"][i + 1:])
    for v, d in case["doms"].items():
        for i in range(len(d)):
            yield dict(case, doms=dict(case["doms"], **{v: d[:i] + d[i + 1:]}))
    used = _used_vars(case)
    for v in list(case["vars"]):
        if v not in used:
            yield dict(case, vars={k: t for k, t in case["vars"].items() if k != v},
                       doms={k: t for k, t in case["doms"].items() if k != v})
    for o in case["objs"]:
        if o["cls"] == "P" and (o["items"] or o["kids"]):
            yield dict(case, objs=[dict(p, items=[], kids=[]) if p is o else p for p in case["objs"]])


def shrink(prop: str, case: dict, still_bad: Callable[[dict, Any, Any, Any], bool], model_ok: bool, rounds: int = 8) -> dict:
    cur = case
    for _ in range(rounds):
        cands = []
        for c in candidates(cur):
            try:
                eqlgen.g_case(c)
                cands.append(c)
            except Exception:  # noqa: ill-typed after the cut
                pass
        cands = cands[:60]
        if not cands:
            break
        impl = run_impl_many(cands, chunk=10)
        ms = coq_rows(prop, cands, model_ok)
        nxt = None
        for c, i, (m, s) in zip(cands, impl, ms):
            if still_bad(c, i, m, s):
                nxt = c
                break
        if nxt is None:
            break
        cur = nxt
    return cur


# ------------------------------------------------------------------ python-snippet witnesses (findings outside the modelled vocabulary)
def run_python_witness(code: str, timeout: int = 120) -> Any:
    r = subprocess.run([core.PY, "-c", code], env=core.IMPL_ENV, stdout=subprocess.PIPE, stderr=subprocess.PIPE, text=True,
                       timeout=timeout, cwd=str(core.VERIF))
    last = [l for l in r.stdout.strip().splitlines() if l.strip()]
    if r.returncode != 0 or not last:
        tail = (r.stderr.strip().splitlines() or ["?"])[-1]
        return ["exc", tail.split(":")[0].strip()]
    try:
        return json.loads(last[-1])
    except Exception:  # noqa
        return ["unparsable", last[-1][:200]]


# ------------------------------------------------------------------ the check
def run_check(prop: str, tier: str, seed: int, replay: Optional[dict], *, profile: str, mode: str, n_quick: int,
              n_thorough: int, targets: List[str], in_fragment: Callable[[dict], bool], modelled_classes: List[str],
              in_scope: Callable[[dict], bool] = lambda c: True,
              trusted: List[str], assume: List[str], rule: str, level: str = "proof",
              extra_streams: Sequence[Callable[[Any, Any, str], None]] = (), dep_prop: Optional[str] = None) -> int:
    rep = Report(prop, tier, seed, level)
    rep.trusted = core.COQ_TRUSTED + trusted
    rep.assume = assume
    rep.rule = rule
    ok_spec, log = core.coq_make(["Base/Sx.vo", "Eql/ShowSpec.vo"])
    rep.oblige("build:spec", ok_spec, "" if ok_spec else core.first_error(log))
    # T-tie of the decision code (optimize_or, the _invert_ table, not_/and_/or_/chained_logic): regenerated from the
    # source and proved equal to the model's smart constructors; kept apart from Props/*.v so that the evaluator model
    # stays available for the search when this obligation breaks
    from translator import t_symbolic
    gen = core.COQ / "Gen" / "SymbolicDecisions.v"
    try:
        core.write_if_changed(gen, t_symbolic.translate(str(core.REPO)))
        rep.oblige("regen:Gen/SymbolicDecisions.v", True, "optimize_or, _invert_ table, not_/and_/or_, chained_logic")
        ok_dec, log = core.coq_make(["Eql/DecisionsProofs.vo"])
        rep.oblige("proof:source-decisions (optimize_or = mk_or, invert = mk_not)", ok_dec, "" if ok_dec else core.first_error(log))
    except Exception as e:  # noqa: translator refused
        rep.oblige("regen:Gen/SymbolicDecisions.v", False, str(e))
        for ext in (".v", ".vo", ".vos", ".vok", ".glob"):
            if gen.with_suffix(ext).exists():
                gen.with_suffix(ext).unlink()
    # T-tie of the generator bodies of Not / AND / OR / Union / ElseIf: regenerated as list-monad functions and proved to
    # be what the evaluator model computes (Eql/EvalSourceProofs.v)
    from translator import t_symeval
    gen2 = core.COQ / "Gen" / "SymbolicEval.v"
    try:
        core.write_if_changed(gen2, t_symeval.translate(str(core.REPO)))
        rep.oblige("regen:Gen/SymbolicEval.v", True, "Not/AND/OR/Union/ElseIf generator bodies")
        ok_ev, log = core.coq_make(["Eql/EvalSourceProofs.vo"])
        rep.oblige("proof:source-evaluators (eval of and_/else-if/union/not = translated method bodies)", ok_ev,
                   "" if ok_ev else core.first_error(log))
    except Exception as e:  # noqa: translator refused
        rep.oblige("regen:Gen/SymbolicEval.v", False, str(e))
        for ext in (".v", ".vo", ".vos", ".vok", ".glob"):
            if gen2.with_suffix(ext).exists():
                gen2.with_suffix(ext).unlink()
    # source pins: the methods the hand model mirrors and no translator covers must be the ones it was written against
    from translator import pins
    pins.oblige(rep, str(core.REPO), "eql", "the evaluator model (Eql/Eval.v)")
    model_ok = core.standard_proof_steps(rep, prop, targets)
    if model_ok:
        ok_show, log = core.coq_make(["Eql/Show.vo", "Eql/ShowFrag.vo"])
        rep.oblige("build:model-printer", ok_show, "" if ok_show else core.first_error(log))
        model_ok = ok_show
    if dep_prop is not None:
        # the theorems about generated variables (flatten / nested sub-queries): Props/<dep_prop>.v, built and its
        # Print Assumptions collected like the main property file; kept apart so that the evaluator model of the ordinary
        # cases stays available when these proofs break
        pins.oblige(rep, str(core.REPO), "eqldep", "the generated-variable model (Eql/EvalDep.v: Flatten, ResultQuantifier over Entity as operand)")
        ok_dep, log = core.coq_make([f"Props/{dep_prop}.vo"])
        rep.oblige(f"build:Props/{dep_prop}.vo", ok_dep, "" if ok_dep else core.first_error(log))
        if ok_dep:
            ok_a, ass, out = core.print_assumptions(dep_prop)
            if not ok_a:
                rep.oblige(f"props:{dep_prop}", False, core.first_error(out))
            else:
                rep.assumptions = dict(rep.assumptions, **ass)
                for thm in core.theorem_names(dep_prop):
                    a = ass.get(thm)
                    if a is not None:
                        rep.oblige(f"theorem:{thm}", a.startswith("Closed under the global context"), a[:300])
            rep.checker_cmd = (rep.checker_cmd or "") + f" && make -f Makefile.coq Props/{dep_prop}.vo && coqc -Q . Krrood Props/{dep_prop}.v"
        lvl = dep_level()
        rep.oblige("build:dep-model-printer (Eql/ShowDepFrag.vo: model, Spec and fragment flag for flatten / sub-query cases)", lvl == 2,
                   "" if lvl == 2 else f"available level {lvl} (1 = model + Spec, 0 = Spec only): {DEP_STATE['log']}")
    if not ok_spec:
        return rep.finish()
    if model_ok and tier == "thorough":
        core.coqchk(rep, prop)
        if dep_prop is not None and dep_level() == 2:
            core.coqchk(rep, dep_prop)

    findings = core.load_findings(prop)
    open_classes = {f.cls: f for f in findings if f.kind == "open"}

    # ---- cases: corpus first, then generated
    cases: List[dict] = []
    origin: List[str] = []
    if replay is not None:
        cases.append(replay["case"])
        origin.append("replay")
    else:
        cdir = core.VERIF / "corpus" / prop
        for f in sorted(cdir.glob("*.json")) if cdir.is_dir() else []:
            d = json.loads(f.read_text())
            if "case" in d:
                cases.append(d["case"])
                origin.append(f"corpus:{f.name}")
        n = n_quick if tier == "quick" else n_thorough
        rng = core.Rng(seed * 1000003 + 17)
        for i in range(n):
            prof = profile
            if profile == "c01+quant":
                prof = "quant" if i % 4 == 3 else ("flat" if i % 8 == 1 else ("subq" if i % 8 == 5 else ("share" if i % 8 == 2 else "c01")))
                if i % 32 == 9:
                    prof = "flat0"      # flattened collections that may be empty (finding class K_emptyflat, three-way)
                elif i % 32 == 13:
                    prof = "subq0"      # sub-queries that may have no answer (finding class K_emptydom)
                elif i % 32 == 17:
                    prof = "flatT"      # collections of value-equal but distinct objects (seeded C11-D)
            cases.append(eqlgen.gen_case(rng.fork(i), prof, extras=True))
            origin.append(f"gen:{i}")

    impl = run_impl_many(cases)
    ms = coq_rows(prop, cases, model_ok)

    dist: Dict[str, int] = {"in_fragment": 0, "nonempty_result": 0, "impl_exception": 0, "seq_model_eq_impl": 0}
    ops: Dict[str, int] = {}
    kf_counts: Dict[str, int] = {}
    bad: List[Tuple[dict, Any, Any, Any, str]] = []
    stale_model = 0
    dep_stats = {"cases": 0, "in_fragment": 0, "model_eq_impl": 0, "seq_model_eq_impl": 0, "quantified": 0}
    dep_model_bad: List[str] = []
    for c, o, i, (m, s) in zip(cases, origin, impl, ms):
        flat = is_dep(c)
        cls = classes_of(c)
        infrag = in_fragment(c)
        dup = any(len(d) != len(set(d)) for d in c["doms"].values())
        if flat:
            kind = "flatten" if c.get("flat") else "subquery"
            dist[kind + "_cases"] = dist.get(kind + "_cases", 0) + 1
            dist[kind + "_nonempty"] = dist.get(kind + "_nonempty", 0) + int(bool(s))
            dep_stats["cases"] += 1
            dep_stats["in_fragment"] += int(infrag)
            dep_stats["quantified"] += int(eqlgen.has_quant(c["cond"]))
        nontrivial = bool(s) and c["cond"] is not None
        rep.count(json.dumps(c, sort_keys=True), nontrivial)
        for k, v in eqlgen.stats(eqlgen.spec_case(c)).items():
            ops[k] = ops.get(k, 0) + v
        dist["in_fragment"] += int(infrag)
        dist["nonempty_result"] += int(bool(s))
        for k in cls:
            dist[k] = dist.get(k, 0) + 1
        if i and i[0] == "exc":
            dist["impl_exception"] += 1
        iv, sv = view(i, mode), view(s, mode)
        mv = view(m, mode) if m is not None else None
        if m is not None and m == i:
            dist["seq_model_eq_impl"] += 1
            if flat:
                dep_stats["seq_model_eq_impl"] += 1
        if flat and mv is not None and mv == iv:
            dep_stats["model_eq_impl"] += 1
        if not in_scope(c):
            # outside what the property speaks about: only the model/implementation tie is observed
            dist["out_of_scope"] = dist.get("out_of_scope", 0) + 1
            if mv is not None and mv != iv:
                dist["out_of_scope_model_ne_impl"] = dist.get("out_of_scope_model_ne_impl", 0) + 1
            continue
        if iv == sv:
            if mv is not None and mv != sv and infrag:
                # theorem says model = spec inside the fragment: cannot happen unless the harness mis-evaluates
                if flat:
                    dep_model_bad.append(f"model differs from impl = spec inside the fragment on {o}: {case_key(c)[:500]}")
                else:
                    rep.oblige("correspondence:model-in-fragment", False, f"model differs from impl = spec on {o}")
            elif mv is not None and mv != sv:
                stale_model += 1
            continue
        # impl differs from the Spec
        if (not infrag) and mv is not None and iv == mv:
            hit = [k for k in cls if k in open_classes and k in modelled_classes]
            if hit:
                for k in hit:
                    kf_counts[k] = kf_counts.get(k, 0) + 1
                continue
        if flat and infrag and mv is not None and mv != iv:
            # inside the fragment the model meets the Spec (C01b_fragment_flag), the implementation does not: the model is
            # no longer what the code does (the disagreement itself is reported below as a violation)
            dep_model_bad.append(f"impl differs from model = spec inside the fragment on {o}")
        bad.append((c, i, m, s, o))
    if dep_stats["cases"]:
        rep.oblige("correspondence:model-dep", not dep_model_bad,
                   (f"{dep_stats['model_eq_impl']} of {dep_stats['cases']} flatten / sub-query cases: model rows = implementation rows "
                    f"(as sequences: {dep_stats['seq_model_eq_impl']}); {dep_stats['in_fragment']} inside the proved fragment flag")
                   if not dep_model_bad else "; ".join(dep_model_bad[:3]))
        rep.oblige("correspondence:dep-spec = spec_case (Eql/EvalDepSpec.v's rows equal the first-order reading evaluated by Eql/Sat.v; "
                   "declarations well-formed)", not DEP_ISSUES, "; ".join(DEP_ISSUES[:3]))
        rep.extra["dependent_variable_cases"] = dep_stats
    if stale_model:
        rep.note(f"{stale_model} cases outside the fragment where impl = spec but the model differs (a listed finding appears repaired there)")

    # ---- violations: shrink and report (at most 3)
    def still_bad(c, i, m, s):
        return in_scope(c) and view(i, mode) != view(s, mode) and (in_fragment(c) or m is None or view(i, mode) != view(m, mode)
                                                    or not any(k in open_classes for k in classes_of(c)))

    for c, i, m, s, o in bad[:3]:
        small = c
        try:
            small = shrink(prop, c, still_bad, model_ok)
        except Exception as e:  # noqa
            rep.note(f"shrinking failed: {e}")
        i2 = eqlgen.run_impl(small)
        m2, s2 = coq_rows(prop, [small], model_ok)[0]
        rep.violation({"kind": "counterexample", "origin": o, "case": small, "original_case": c,
                       "classes": classes_of(small), "in_fragment": in_fragment(small), "compared_as": mode,
                       "impl": i2, "model": m2, "spec": s2, "python": eqlgen.snippet(small),
                       "explanation": "rows as lists of [kind, payload]: [0,int] [1,object id] [2,[ints]] [3,[object ids]]; "
                                      "impl = an(entity/set_of(...)).evaluate() through the public API; spec = first-order answers (Eql/Sat.v)"})
    if len(bad) > 3:
        rep.note(f"{len(bad) - 3} further disagreeing cases not reported individually")

    # ---- known findings: replay witnesses
    for f in findings:
        wpath = core.VERIF / f.witness
        try:
            w = json.loads(wpath.read_text())
        except Exception as e:  # noqa
            rep.oblige(f"witness:{f.fid}", False, f"cannot read {f.witness}: {e}")
            continue
        wcase = w.get("case") or w.get("witness_case")   # "witness_case": replayed here only, not run as a corpus case
        if wcase is not None:
            got = eqlgen.run_impl(wcase)
            spec = coq_rows(prop, [wcase], False)[0][1]
            fails = view(got, mode) != view(spec, mode)
            as_recorded = view(got, mode) == view(w.get("impl_recorded"), mode)
        else:
            got = run_python_witness(w["python"])
            fails = got != w["spec"]
            as_recorded = got == w.get("impl_recorded")
        if f.kind == "open":
            if fails and as_recorded:
                rep.known(f)
                rep.extra.setdefault("known_finding_instances", {})[f.fid] = kf_counts.get(f.cls, 0)
            elif fails:
                rep.violation({"kind": "counterexample", "finding": f.fid, "witness": f.witness, "impl": got,
                               "impl_recorded": w.get("impl_recorded"), "spec": w.get("spec"),
                               "python": w.get("python") or eqlgen.snippet(wcase),
                               "explanation": "the witness of a listed finding now fails in a different way than recorded"})
            else:
                rep.note(f"finding {f.fid} no longer reproduces (witness now meets the Spec)")
        else:
            if fails:
                rep.violation({"kind": "counterexample", "finding": f.fid, "witness": f.witness, "impl": got,
                               "spec": w.get("spec"), "python": w.get("python") or eqlgen.snippet(wcase),
                               "explanation": f"regression: defect repaired in {f.commit} is back"})
    # instances of classes that are not listed at all would have been reported above as violations
    rep.extra["distribution"] = dict(dist, operators=ops, known_finding_instances=kf_counts, cases=len(cases))
    if replay is None:
        for k, stream in enumerate(extra_streams):
            stream(rep, core.Rng(seed * 7919 + 101 + k), tier)
    rep.samples = [{"origin": o, "case": c, "impl": i} for c, o, i in list(zip(cases, origin, impl))[:: max(1, len(cases) // 5)]][:5]
    return rep.finish()
