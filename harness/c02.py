"""C02 -- exactly one result per satisfying assignment in the conjunctive / else-if fragment.  Same model and Spec as C01;
theorems Props/C02.v (partition of the assignment space, totality of true results); compared as MULTISETS of rows."""
from __future__ import annotations

from . import eqlcheck, eqlgen, eqlpred

PROP = "C02"


def run(tier: str, seed: int, replay=None) -> int:
    return eqlcheck.run_check(
        PROP, tier, seed, replay, profile="c02", mode="bag", n_quick=2500, n_thorough=100000,
        targets=["Props/C02.vo"],
        in_fragment=lambda c: eqlcheck.FRAG02.get(eqlcheck.case_key(c), False),
        in_scope=lambda c: eqlcheck.FRAG02.get(eqlcheck.case_key(c), eqlgen.in_f02(c)), modelled_classes=[], extra_streams=[eqlpred.stream],
        trusted=[
            "hand-written model Eql/Eval.v of symbolic.py, tied by differential execution through the public API; the generator bodies of "
            "Not/AND/OR/Union/ElseIf and the decisions of or_/not_ are additionally regenerated from the source on every run "
            "(translator/t_symeval.py, t_symbolic.py) and proved equal to the model (Eql/EvalSourceProofs.v, Eql/DecisionsProofs.v)",
            "harness/eqlgen.py (generator) and harness/eqlcheck.py; the fragment of every generated case is the flag case_in_F02 COMPUTED IN COQ (theorem C02_fragment_flag: inside it the model's rows are a Permutation of the Spec's enumeration)",
            "atomic comparison semantics apply_op / py_eq (Eql/Syntax.v) shared by model and Spec",
            "predicate bridge: hand-written model Eql/PredCond.v (peval: Eql/Eval.v's operators over comparison and predicate-call atoms; "
            "the call atom mirrors the methods of pin set `pred`, checked by C12), Spec psat, theorems Props/C02b.v built and their Print "
            "Assumptions collected by the predicate stream; harness/eqlpred.py builds the cases, the six functions' Coq readings are std_preds (Eql/PredCondShow.v)",
        ],
        assume=[
            "scope of the property: negation-normal conditions over comparisons with and_, and or_ only between conditions over the same "
            "variables; domains list no element twice; selected expressions have distinct root variables that occur in the condition",
            "first evaluation of a fresh query (re-evaluation is C03)",
            "CPython generator protocol",
        ],
        rule=("seeded random queries (harness/eqlgen.py, profile c02, biased to the fragment); rows compared as MULTISETS with the "
              "Spec's enumeration of satisfying assignments; cases outside the fragment only observe the model/implementation tie. "
              "distinct = distinct (world, domains, query); non-trivial = has a condition and a non-empty answer. Plus a "
              "predicate stream (harness/eqlpred.py, 400 quick / 6000 thorough): conditions over int variables that mix "
              "comparisons with symbolic-function calls under and_/not_ and or_ between same-variable conditions, compared as "
              "multisets three ways -- implementation, model and Spec of Eql/PredCond.v evaluated inside Coq (Props/C02b.v; ~15% of the cases "
              "lie outside the fragment: Union / negated compound, implementation vs model only) -- with the direct Python evaluation kept "
              "as a cross-check of the Coq Spec"))
