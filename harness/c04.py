"""C04 -- object -> DAO -> object round trip preserves structure, types and aliasing.

Tie (H): random object graphs over the repository's dataset classes are converted with the real
to_dao / from_dao; the original graph g and the result g' are dumped as finite heaps and compared
 (a) inside Coq: spec = canon g, impl = canon g', model = canon (round_trip g)   (Orm/IsoCanon.v, Orm/RoundTrip.v)
 (b) in Python by an identity-tracking bisimulation (second opinion on the comparison itself).
"""
from __future__ import annotations

import datetime as _dt
import gc
import json
from typing import Any, Dict, List, Optional, Tuple

from . import core
from .core import Report

PROP = "C04"
HEADER = """From Coq Require Import List ZArith Bool.
From Krrood Require Import Base.Sx Orm.ObjGraph Orm.Iso Orm.ObjGraphWalk Orm.IsoCanon Orm.ToDao Orm.FromDao Orm.RoundTrip.
Import ListNotations."""
HEADER_SPEC = """From Coq Require Import List ZArith Bool.
From Krrood Require Import Base.Sx Orm.ObjGraph Orm.Iso Orm.ObjGraphWalk Orm.IsoCanon.
Import ListNotations."""

# ----------------------------------------------------------------------------- class model of the dataset
# scalars: mapped column fields;  refs (in the order of the DAO mapper's relationships):
# (field, 'one'|'many', declared target class, optional)
SCAL: Dict[str, List[str]] = {
    "Position": ["x", "y", "z"], "Position4D": ["x", "y", "z", "w"], "Position5D": ["x", "y", "z", "w", "v"],
    "Orientation": ["x", "y", "z", "w"], "Pose": [], "Positions": ["some_strings"],
    "PositionsSubclassWithAnotherPosition": ["some_strings"], "DoublePositionAggregator": [], "Node": [],
    "Atom": ["element", "type", "charge", "timestamp"], "OriginalSimulatedObject": ["concept", "placeholder"],
    "ObjectAnnotation": [], "KinematicChain": ["name"], "Torso": ["name"], "Entity": ["name"],
    "DerivedEntity": ["name", "description"], "EntityAssociation": ["a"], "Reference": ["value"],
    "Backreference": ["unmappable"], "BackreferenceMapping": ["values"], "AlternativeMappingAggregator": [],
    "ItemWithBackreference": ["value"], "ContainerGeneration": [], "Vector": ["x"], "VectorsWithProperty": [],
    "CustomEntity": ["overwritten_name"], "VectorMapped": ["x"],
    "PositionTypeWrapper": ["position_type"],                 # custom column type krrood.ormatic.custom_types.TypeType
    "CallableWrapper": [],                                    # func: FunctionType, alternatively mapped by
    "function": ["__module__", "__name__", "__class_name__"],  # krrood.ormatic.alternative_mappings.FunctionMapping
    "_Holder": [],   # harness-side carrier of several roots converted one by one with ONE ToDAOState / ONE FromDAOState (never converted itself)
}
REFS: Dict[str, List[Tuple[str, str, str, bool]]] = {
    "Pose": [("position", "one", "Position", False), ("orientation", "one", "Orientation", False)],
    "Positions": [("positions", "many", "Position", False)],
    "PositionsSubclassWithAnotherPosition": [("positions2", "one", "Position", False), ("positions", "many", "Position", False)],
    "DoublePositionAggregator": [("positions1", "many", "Position", False), ("positions2", "many", "Position", False)],
    "Node": [("parent", "one", "Node", True)],
    "ObjectAnnotation": [("object_reference", "one", "OriginalSimulatedObject", False)],
    "Torso": [("kinematic_chains", "many", "KinematicChain", False)],
    "EntityAssociation": [("entity", "one", "Entity", False)],
    "Reference": [("backreference", "one", "Backreference", True)],
    "Backreference": [("reference", "one", "Reference", True)],
    "BackreferenceMapping": [("reference", "one", "Reference", True)],
    "AlternativeMappingAggregator": [("entities1", "many", "Entity", False), ("entities2", "many", "Entity", False)],
    "ItemWithBackreference": [("container", "one", "ContainerGeneration", True)],
    "ContainerGeneration": [("items", "many", "ItemWithBackreference", False)],
    "VectorsWithProperty": [("_vectors", "many", "Vector", False)],
    "CallableWrapper": [("func", "one", "function", False)],
    "_Holder": [("items", "many", "_Holder", False)],
}
SUB = {"Position": ["Position", "Position4D", "Position5D"], "KinematicChain": ["KinematicChain", "Torso"],
       "Entity": ["Entity", "DerivedEntity"]}
ALT = {"Entity": "CustomEntity", "Backreference": "BackreferenceMapping", "Vector": "VectorMapped",
       "VectorsWithProperty": "VectorsWithPropertyMapped", "function": "FunctionMapping"}
# function-valued fields: plain module-level functions, a static method, and name COLLISIONS in the dataset module:
# example_classes imports to_json / from_json (module-level names) and defines JSONSerializableClass.to_json (a method)
FUNCTIONS = ["module_level_function", "CallableWrapper.custom_static_method", "JSONSerializableClass.to_json", "to_json",
             "from_json", "CallableWrapper.custom_instance_method",
             # the same function name in the same module under different classes
             "CustomEntity.create_from_dao", "BackreferenceMapping.create_from_dao", "VectorMapped.create_from_dao"]
ALTBASE = {"DerivedEntity"}  # DAO below an alternatively mapped DAO (to_dao_if_subclass_of_alternative_mapping): not modelled
CLASS_ID = {n: i + 1 for i, n in enumerate(sorted(set(SCAL) | set(ALT.values())))}
ROOT_KINDS = (["Torso"] * 8 + ["Node"] * 4 + ["ContainerGeneration", "ItemWithBackreference"] * 2 +
              ["AlternativeMappingAggregator", "DoublePositionAggregator", "PositionsSubclassWithAnotherPosition"] * 2 +
              ["Reference", "Backreference"] * 2 +
              ["Pose", "Positions", "ObjectAnnotation", "EntityAssociation", "VectorsWithProperty", "Atom", "Position5D", "KinematicChain",
               "PositionTypeWrapper", "CallableWrapper"])


MODEL_MODULE = "test.dataset.example_classes"   # where the domain classes live (harness/c05.py also uses generated models)
SCAL_TYPES: Dict[str, Dict[str, str]] = {}      # generated models: class -> field -> scalar type name
NOINIT: Dict[str, set] = {}                     # generated models: class -> dataclass fields with init=False (no constructor arguments)
CONTAINER: Dict[Tuple[str, str], str] = {}      # generated models: (class, collection field) -> declared container ("tuple"); default list
TAGNAME: Dict[Tuple[str, str], str] = {}        # (mapping class, its field) -> name of the object's field it stands for (same tag in the heaps)
DAOKEY: Dict[Tuple[str, str], str] = {}         # (class, reference field) -> relationship key of its DAO when the mapping renames it
FROZEN: set = set()                             # generated models: classes declared @dataclass(frozen=True)
FALSY_FIELDS: Dict[str, Tuple[str, str]] = {}   # generated models: class -> ("len"|"bool", field): bool(instance) follows that field


def model_module():
    import importlib
    return importlib.import_module(MODEL_MODULE)


class _Holder:
    """not a mapped class: its items are the roots of a multi-root case"""

    def __init__(self, items=None):
        self.items = list(items or [])


def class_of(cn: str):
    from types import FunctionType
    if cn == "_Holder":
        return _Holder
    return FunctionType if cn == "function" else getattr(model_module(), cn)


def is_multi(descr) -> bool:
    return descr["objs"][descr["root"]]["c"] == "_Holder"


def make_multi(rng: "core.Rng", d: dict) -> dict:
    """Turn a rooted graph into a multi-root case: 2-3 roots drawn from its objects (overlapping sub-graphs; sometimes the
    same root twice = the same DAO converted twice with the same state), carried by a _Holder."""
    import copy
    objs = copy.deepcopy(d["objs"])
    cand = [i for i, o in enumerate(objs) if o["c"] not in ("function", "_Holder")]
    if not cand:
        return d
    roots = [rng.choice(cand) for _ in range(rng.choice([2, 2, 3]))]
    if rng.chance(0.5):
        roots[0] = d["root"] if d["root"] in cand else roots[0]
    if rng.chance(0.3):
        roots.append(roots[0])
    objs.append({"c": "_Holder", "s": {}, "r": {"items": roots}})
    return prune({"objs": objs, "root": len(objs) - 1})


def subs(t: str) -> List[str]:
    return SUB.get(t, [t])


def ab_term() -> str:
    """DAO classes below an alternatively mapped DAO (from_dao converts a temporary parent DAO for them)"""
    return "[" + "; ".join(f"{CLASS_ID[c]}%Z" for c in sorted(ALTBASE) if c in CLASS_ID) + "]"


ALTGC: Dict[str, List[Tuple[int, Any]]] = {}   # columns krrood itself loses: class -> [(position in SCAL[class], value it comes back as)];
#                                              empty since 96f6440 (finding C04-d fixed); kept as the hook for the model's [gc] argument


def gc_term() -> str:
    items = []
    for c in sorted(ALTGC):
        ov = "; ".join(f"({p}%nat, {SCALARS(scalar_key(v))}%Z)" for p, v in ALTGC[c])
        items.append(f"({CLASS_ID[c]}%Z, [{ov}])")
    return "[" + "; ".join(items) + "]"


def alts_ab() -> str:
    """the class-model arguments of the Coq functions: alternative mappings, DAO classes below one, columns lost two levels below"""
    return f"{alts_term()} {ab_term()} {gc_term()}"


def alts_term() -> str:
    return "[" + "; ".join(f"({CLASS_ID[a]}%Z, {CLASS_ID[m]}%Z)" for a, m in sorted(ALT.items())) + "]"


# ----------------------------------------------------------------------------- interning (strings / values -> ints)
class Intern:
    def __init__(self):
        self.t: Dict[Any, int] = {}

    def __call__(self, key) -> int:
        if key not in self.t:
            self.t[key] = len(self.t) + 1
        return self.t[key]


SCALARS = Intern()
TAGS = Intern()


def scalar_key(v) -> Any:
    """Canonical comparable key of a column value (numbers by value: SQL and dataclasses compare 1 == 1.0)."""
    import enum
    if v is None:
        return ("none",)
    if isinstance(v, bool):
        return ("bool", v)
    if isinstance(v, (int, float)):
        return ("num", float(v))
    if isinstance(v, str):
        return ("str", v)
    if isinstance(v, enum.Enum):
        return ("enum", type(v).__name__, v.name)
    if isinstance(v, _dt.datetime):
        return ("dt", v.isoformat())
    if isinstance(v, dict):
        return ("list", tuple(sorted(scalar_key(x) for x in v.values())))
    if isinstance(v, tuple):
        return ("tuple", tuple(scalar_key(x) for x in v))
    if isinstance(v, (set, frozenset)):
        return ("set", tuple(sorted(scalar_key(x) for x in v)))
    if isinstance(v, list):
        return ("list", tuple(scalar_key(x) for x in v))
    if isinstance(v, type):
        return ("type", v.__name__)
    return ("inst", type(v).__name__)


def ctype(v) -> str:
    """container class of a collection value, as far as the round trip has to preserve it"""
    return "tuple" if isinstance(v, tuple) else "set" if isinstance(v, (set, frozenset)) else "list"


def ref_tag(cn: str, f: str, kind: str, container: str = "list") -> int:
    name = TAGNAME.get((cn, f), f.lstrip("_"))
    return TAGS((name, kind)) if kind == "one" or container == "list" else TAGS((name, kind, container))


def get_scalar(o, f):
    """value of the mapped column field f of o; functions are described as FunctionMapping describes them"""
    if type(o).__name__ == "function":
        if f == "__class_name__":
            return o.__qualname__.split(".")[0] if "." in o.__qualname__ else None
        return getattr(o, f)
    return getattr(o, f)


def has_scalar(o, f) -> bool:
    return True if type(o).__name__ == "function" else hasattr(o, f)


# ----------------------------------------------------------------------------- descr (JSON) <-> python objects
def _dec(v):
    ex = model_module()
    if isinstance(v, dict):
        if "enum" in v:
            return ex.Element[v["enum"]]
        if "dt" in v:
            return _dt.datetime.fromisoformat(v["dt"])
        if "inst" in v:
            return getattr(ex, v["inst"])()
        if "dictvals" in v:
            return {x: x for x in v["dictvals"]}
        if "type" in v:
            return getattr(ex, v["type"])
        if "set" in v:
            return set(v["set"])
        if "tuple" in v:
            return tuple(v["tuple"])
    return v


def build(descr) -> List[Any]:
    """Construct the object graph of a case through the classes' own constructors, then wire the references."""
    ex = model_module()
    objs = []
    for o in descr["objs"]:
        if o["c"] == "function":
            fn = ex
            for part in o["s"]["fn"].split("."):
                fn = getattr(fn, part)
            objs.append(fn)
            continue
        cls = class_of(o["c"])
        noinit = NOINIT.get(o["c"], set())
        kw = {k: _dec(v) for k, v in o["s"].items() if k not in noinit}
        for f, kind, _t, _opt in REFS.get(o["c"], []):
            if f not in noinit:
                kw[f] = None if kind == "one" else ([] if CONTAINER.get((o["c"], f), "list") == "list" else ())
        po = cls(**kw)
        for k, v in o["s"].items():
            if k in noinit:
                object.__setattr__(po, k, _dec(v))     # fields that are no constructor arguments are set after construction
        objs.append(po)
    for o, po in zip(descr["objs"], objs):
        for f, kind, _t, _opt in REFS.get(o["c"], []):
            ids = o["r"].get(f, [])
            if kind == "one":
                object.__setattr__(po, f, objs[ids[0]] if ids else None)     # (frozen dataclasses: as their own __init__ does)
            elif CONTAINER.get((o["c"], f), "list") == "tuple":
                object.__setattr__(po, f, tuple(objs[i] for i in ids))
            else:
                object.__setattr__(po, f, [objs[i] for i in ids])
    return objs


def dump(root, reverse=False) -> Tuple[List[Tuple[int, int, List[int], List[Tuple[int, List[int]]]]], int, List[str]]:
    """Python object graph -> finite heap [(addr, cls, scalars, [(tag, kids)])], root addr, anomalies.
    Addresses are discovery order (or its reverse, so that canonicalisation has something to do)."""
    order: List[Any] = []
    index: Dict[int, int] = {}
    anomalies: List[str] = []

    def visit(o):
        if id(o) in index:
            return
        index[id(o)] = len(order)
        order.append(o)
        cn = type(o).__name__
        for f, kind, _t, _opt in REFS.get(cn, []):
            v = getattr(o, f, None)
            if kind == "one":
                if v is not None:
                    visit(v)
            else:
                try:
                    for x in list(v):
                        visit(x)
                except TypeError:
                    anomalies.append(f"{cn}.{f} is not a collection: {v!r:.40}")

    visit(root)
    n = len(order)
    adr = (lambda i: n - 1 - i) if reverse else (lambda i: i)
    heap = []
    for i, o in enumerate(order):
        cn = type(o).__name__
        cid = CLASS_ID.get(cn)
        if cid is None:
            cid = 1000 + SCALARS(("class", cn))
            anomalies.append(f"object of unexpected class {cn}")
        scal = []
        for f in SCAL.get(cn, []):
            if not has_scalar(o, f):
                scal.append(SCALARS(("missing", f)))
                anomalies.append(f"{cn}.{f} missing")
            else:
                scal.append(SCALARS(scalar_key(get_scalar(o, f))))
        flds = []
        for f, kind, _t, _opt in REFS.get(cn, []):
            v = getattr(o, f, None)
            tag = ref_tag(cn, f, kind, ctype(v) if kind == "many" else "list")
            if kind == "one":
                kids = [] if v is None else [adr(index[id(v)])]
            else:
                try:
                    kids = [adr(index[id(x)]) for x in list(v)]
                except TypeError:
                    kids = []
            flds.append((tag, kids))
        heap.append((adr(i), cid, scal, flds))
    return heap, adr(0), anomalies


def heap_term(heap) -> str:
    def z(v):
        return f"({v})%Z" if v < 0 else f"{v}%Z"
    items = []
    for a, c, scal, flds in heap:
        fl = "; ".join(f"({z(t)}, [{'; '.join(f'{k}%nat' for k in ks)}])" for t, ks in flds)
        items.append(f"({a}%nat, mkObj {z(c)} [{'; '.join(z(s) for s in scal)}] [{fl}])")
    return "[" + "; ".join(items) + "]"


PARENT_SCAL = {"DerivedEntity": ["name"]}   # scalars of an ALTBASE object that from_dao takes from the alternatively mapped parent


def all_objects(root) -> List[Any]:
    out: List[Any] = []
    seen = set()
    todo = [root]
    while todo:
        o = todo.pop()
        if o is None or id(o) in seen:
            continue
        seen.add(id(o))
        out.append(o)
        for f, kind, _t, _opt in REFS.get(type(o).__name__, []):
            v = getattr(o, f, None)
            if kind == "one":
                todo.append(v)
            else:
                try:
                    todo.extend(list(v))
                except TypeError:
                    pass
    return out


def py_iso(a, b, relax_altbase: bool = False) -> Optional[str]:
    """Identity-tracking bisimulation between two python object graphs; None if isomorphic, else the first difference.
    relax_altbase (matcher of finding C04-c): a parent-provided scalar of an ALTBASE object may carry the value that
    ANOTHER object of that class has in the input graph; everything else must agree exactly."""
    pool: Dict[Tuple[str, str], set] = {}
    if relax_altbase:
        for o in all_objects(a):
            cn = type(o).__name__
            for f in PARENT_SCAL.get(cn, []):
                pool.setdefault((cn, f), set()).add(scalar_key(get_scalar(o, f)))
    m_ab: Dict[int, Any] = {}
    m_ba: Dict[int, Any] = {}
    stack = [(a, b, "root")]
    while stack:
        x, y, path = stack.pop()
        if x is None or y is None:
            if x is not y:
                return f"{path}: None vs object"
            continue
        if type(x) is not type(y):
            return f"{path}: class {type(x).__name__} vs {type(y).__name__}"
        if id(x) in m_ab:
            if m_ab[id(x)] is not y:
                return f"{path}: aliasing differs (original shared, copy not)"
            continue
        if id(y) in m_ba:
            return f"{path}: aliasing differs (copy shared, original not)"
        m_ab[id(x)] = y
        m_ba[id(y)] = x
        cn = type(x).__name__
        for f in SCAL.get(cn, []):
            if not has_scalar(y, f) or scalar_key(get_scalar(x, f)) != scalar_key(get_scalar(y, f)):
                if relax_altbase and has_scalar(y, f) and scalar_key(get_scalar(y, f)) in pool.get((cn, f), ()):
                    continue
                return f"{path}.{f}: value {get_scalar(x, f)!r:.40} vs {getattr(y, f, '<missing>')!r:.40}"
        for f, kind, _t, _opt in REFS.get(cn, []):
            u, v = getattr(x, f), getattr(y, f, None)
            if kind == "one":
                stack.append((u, v, f"{path}.{f}"))
            else:
                try:
                    u, v = list(u), list(v)
                except TypeError:
                    return f"{path}.{f}: not a collection"
                if ctype(getattr(x, f)) != ctype(getattr(y, f, None)):
                    return f"{path}.{f}: container {ctype(getattr(x, f))} vs {ctype(getattr(y, f, None))}"
                if len(u) != len(v):
                    return f"{path}.{f}: collection length {len(u)} vs {len(v)}"
                for i, (p, q) in enumerate(zip(u, v)):
                    stack.append((p, q, f"{path}.{f}[{i}]"))
    return None


# ----------------------------------------------------------------------------- generator (abstract graphs)
def gen_scalars(rng: core.Rng, cls: str, idx: int) -> Dict[str, Any]:
    num = lambda: rng.choice([0, 1, 2, 3, 0.5, -1.5, 4.0])
    if cls in SCAL_TYPES:
        mk = {"int": lambda: rng.randint(-2, 5), "float": num, "str": lambda: f"s{rng.randint(0, 4)}",
              "bool": lambda: rng.chance(0.5), "Optional[float]": lambda: rng.choice([None, 0.5, 2.0]),
              "Optional[int]": lambda: rng.choice([None, 0, 7]), "List[str]": lambda: [f"t{rng.randint(0, 2)}" for _ in range(rng.randint(0, 2))],
              "Set[int]": lambda: {"set": sorted({rng.randint(0, 5) for _ in range(rng.randint(0, 3))})},
              "Tuple[int, ...]": lambda: {"tuple": [rng.randint(0, 5) for _ in range(rng.randint(0, 3))]},
              "Optional[datetime]": lambda: rng.choice([None, {"dt": "2021-03-04T05:06:07"}, {"dt": "2021-03-04T05:06:07+00:00"},
                                                        {"dt": "2022-01-02T03:04:05+02:00"}])}
        vals = {f: mk[t]() for f, t in SCAL_TYPES[cls].items()}
        ff = FALSY_FIELDS.get(cls)
        if ff and ff[1] in vals and rng.chance(0.5):      # make the instance FALSY at conversion time
            vals[ff[1]] = {"int": 0, "float": 0.0, "bool": False, "List[str]": []}.get(SCAL_TYPES[cls][ff[1]], vals[ff[1]])
        return vals
    if cls in ("Position", "Position4D", "Position5D"):
        return {f: num() for f in SCAL[cls]}
    if cls == "Orientation":
        return {"x": num(), "y": num(), "z": num(), "w": rng.choice([None, 1.0, 0.25])}
    if cls in ("Positions", "PositionsSubclassWithAnotherPosition"):
        return {"some_strings": [f"s{rng.randint(0, 3)}" for _ in range(rng.randint(0, 2))]}
    if cls == "Atom":
        return {"element": {"enum": rng.choice(["C", "H"])}, "type": rng.randint(0, 3), "charge": num(),
                "timestamp": {"dt": f"202{rng.randint(0, 5)}-01-02T03:04:05"}}
    if cls == "OriginalSimulatedObject":
        return {"concept": rng.choice([{"inst": "Cup"}, {"inst": "Bowl"}]), "placeholder": num()}
    if cls in ("KinematicChain", "Torso"):
        return {"name": f"k{idx}"}
    if cls == "Entity":
        return {"name": f"e{rng.randint(0, 5)}"}
    if cls == "DerivedEntity":
        return {"name": f"d{rng.randint(0, 5)}", "description": rng.choice(["x", "y"])}
    if cls == "EntityAssociation":
        return {"a": rng.choice([None, [], ["x"], ["x", "y"]])}
    if cls in ("Reference", "ItemWithBackreference"):
        return {"value": rng.randint(0, 5)}
    if cls == "Backreference":
        return {"unmappable": {"dictvals": sorted({rng.randint(0, 4) for _ in range(rng.randint(0, 2))})}}
    if cls == "Vector":
        return {"x": num()}
    if cls == "PositionTypeWrapper":
        return {"position_type": {"type": rng.choice(["Position", "Position4D", "Position5D"])}}
    if cls == "function":
        return {"fn": rng.choice(FUNCTIONS)}
    return {}


def gen_graph(rng: core.Rng, max_objs: int = 12) -> dict:
    n = rng.randint(2, max_objs)
    p_reuse = rng.choice([0.0, 0.15, 0.3, 0.5])
    p_none = rng.choice([0.05, 0.3])
    objs: List[dict] = []

    def new(cls):
        i = len(objs)
        objs.append({"c": cls, "s": gen_scalars(rng, cls, i), "r": {}})
        fill(i)
        return i

    def pick(target):
        compat = [i for i, o in enumerate(objs) if o["c"] in subs(target)]
        if compat and (len(objs) >= n or rng.chance(p_reuse if 2 * len(objs) >= n else p_reuse / 4)):
            return rng.choice(compat)
        ss = subs(target)
        # below the budget prefer the classes that have references of their own (deeper graphs)
        deep = [c for c in ss if REFS.get(c)]
        return new(rng.choice(deep) if deep and len(objs) < n and rng.chance(0.7) else rng.choice(ss))

    def fill(i):
        for f, kind, target, opt in REFS.get(objs[i]["c"], []):
            if kind == "one":
                objs[i]["r"][f] = [] if (opt and rng.chance(p_none if 2 * len(objs) >= n else p_none / 3)) else [pick(target)]
            else:
                k = rng.choice([0, 1, 2, 2, 3, 3, 4, 5])
                if FALSY_FIELDS.get(objs[i]["c"]) == ("len", f) and rng.chance(0.4):
                    k = 0                                    # an empty container-like object: falsy through __len__
                objs[i]["r"][f] = [pick(target) for _ in range(k)]

    root = new(rng.choice(ROOT_KINDS))
    # ContainerGeneration.__post_init__ sets item.container: keep the data consistent with that user code
    owner: Dict[int, int] = {}
    for ci, o in enumerate(objs):
        if o["c"] == "ContainerGeneration":
            keep = []
            for it in o["r"]["items"]:
                if owner.setdefault(it, ci) == ci:
                    keep.append(it)
            o["r"]["items"] = keep
    for it, ci in owner.items():
        objs[it]["r"]["container"] = [ci]
    return prune({"objs": objs, "root": root})


def prune(descr: dict) -> dict:
    objs, root = descr["objs"], descr["root"]
    seen: List[int] = []
    todo = [root]
    while todo:
        i = todo.pop()
        if i in seen:
            continue
        seen.append(i)
        for ks in objs[i]["r"].values():
            todo.extend(ks)
    seen.sort()
    ren = {old: new for new, old in enumerate(seen)}
    out = []
    for old in seen:
        o = objs[old]
        out.append({"c": o["c"], "s": o["s"], "r": {f: [ren[k] for k in ks] for f, ks in o["r"].items()}})
    return {"objs": out, "root": ren[root]}


def features(descr: dict) -> Dict[str, Any]:
    objs = descr["objs"]
    n = len(objs)
    succ = [sorted({k for ks in o["r"].values() for k in ks}) for o in objs]
    indeg = [0] * n
    for o in objs:
        for ks in o["r"].values():
            for k in ks:
                indeg[k] += 1

    def reaches(a, b):  # path of length >= 1 from a to b
        seen, todo = set(), list(succ[a])
        while todo:
            x = todo.pop()
            if x == b:
                return True
            if x in seen:
                continue
            seen.add(x)
            todo.extend(succ[x])
        return False

    on_cycle = [reaches(i, i) for i in range(n)]
    return {
        "n": n,
        "shared": sum(1 for d in indeg if d >= 2),
        "cyclic_objs": sum(on_cycle),
        "self_loops": sum(1 for i in range(n) if i in succ[i]),
        "none_refs": sum(1 for o in objs for f, kind, _t, _o in REFS.get(o["c"], []) if kind == "one" and not o["r"].get(f)),
        "empty_colls": sum(1 for o in objs for f, kind, _t, _o in REFS.get(o["c"], []) if kind == "many" and not o["r"].get(f)),
        "repeated_elems": sum(1 for o in objs for f, kind, _t, _o in REFS.get(o["c"], []) if kind == "many" and len(set(o["r"].get(f, []))) < len(o["r"].get(f, []))),
        "subclass_in_base_field": sum(1 for o in objs for f, _k, t, _o in REFS.get(o["c"], []) for k in o["r"].get(f, []) if objs[k]["c"] != t),
        "alt_objs": sum(1 for o in objs if o["c"] in ALT),
        "altbase_objs": sum(1 for o in objs if o["c"] in ALTBASE),
        "altgc_objs": sum(1 for o in objs if o["c"] in ALTGC),
        "frozen_with_refs": sum(1 for o in objs if o["c"] in FROZEN and any(o["r"].get(f) for f, _k, _t, _o in REFS.get(o["c"], []))),
        "altcycle": any(on_cycle[i] and objs[i]["c"] in ALT for i in range(n)),
    }


# ----------------------------------------------------------------------------- running the implementation
_READY = False
INTERFACE_MODULE = "test.dataset.ormatic_interface"   # the DAO layer in use; harness/c05.py substitutes a freshly generated one


def interface():
    import importlib
    return importlib.import_module(INTERFACE_MODULE)


def setup_impl():
    global _READY
    if _READY:
        return
    import sqlalchemy
    from sqlalchemy.orm import configure_mappers
    from krrood.ormatic.dao import get_dao_class
    interface()  # the generated DAO layer
    configure_mappers()
    # the field order the model walks must be the order of the DAO mapper's relationships
    for cn, refs in REFS.items():
        if cn in ("BackreferenceMapping", "_Holder"):
            continue
        dao = get_dao_class(class_of(cn))
        keys = [r.key for r in sqlalchemy.inspect(dao).relationships]
        mine = [DAOKEY.get((cn, f), f.lstrip("_")) for f, *_ in refs]
        if [k for k in keys if k in mine] != mine:
            raise RuntimeError(f"relationship order of {dao.__name__} is {keys}, the class table of harness/c04.py says {mine}")
    _READY = True


def run_impl(descr) -> Dict[str, Any]:
    """to_dao -> from_dao on the real code; returns the result heap (reverse-numbered), python bisimulation verdict."""
    from krrood.ormatic.dao import to_dao
    setup_impl()
    objs = build(descr)
    root = objs[descr["root"]]
    try:
        if isinstance(root, _Holder):
            # a graph with several roots converted root by root: ONE explicitly created (still empty) state per direction
            from krrood.ormatic.dao import ToDAOState, FromDAOState
            ts = ToDAOState()
            daos = [to_dao(o, ts) for o in root.items]
            fs = FromDAOState()
            back = _Holder([d.from_dao(fs) for d in daos])
        else:
            back = to_dao(root).from_dao()
    except RecursionError:
        return {"exc": "RecursionError"}
    except Exception as e:  # noqa
        return {"exc": f"{type(e).__name__}: {str(e)[:120]}"}
    heap, r, anomalies = dump(back, reverse=True)
    return {"heap": heap, "root": r, "anomalies": anomalies, "py_iso": py_iso(root, back), "_objs": (root, back)}


def falsy_features(descr) -> Dict[str, int]:
    """How many objects of the case are falsy (bool(obj) is False through a user __len__/__bool__) and where they sit."""
    objs = build(descr)
    falsy = [not o for o in objs]
    single = coll = 0
    for o in descr["objs"]:
        for f, kind, _t, _o in REFS.get(o["c"], []):
            for k in o["r"].get(f, []):
                if falsy[k]:
                    single += kind == "one"
                    coll += kind == "many"
    return {"falsy_objs": sum(falsy), "falsy_behind_single_ref": single, "falsy_in_collection": coll, "falsy_root": int(falsy[descr["root"]])}


def code_fns(descr, model_ok: bool) -> Tuple[str, str]:
    """(Coq function classifying the case, Coq function giving the model's canonical form)"""
    if is_multi(descr):
        return ("case_code_multi" if model_ok else "case_code_spec"), "model_canon_multi"
    return ("case_code" if model_ok else "case_code_spec"), "model_canon"


def input_heap(descr):
    objs = build(descr)
    heap, r, anomalies = dump(objs[descr["root"]], reverse=False)
    return heap, r, anomalies


def explain(descr) -> str:
    """Replay helper: runs the case on the real code and prints what differs."""
    res = run_impl(descr)
    return json.dumps({"impl": res.get("exc") or res.get("py_iso") or "isomorphic", "result_heap": res.get("heap")}, default=str)


def shrink(descr: dict, fails, budget: int = 150) -> dict:
    """Greedy delta debugging on the abstract graph: drop collection elements, clear optional references, move the
    root to a referenced object; keep a step when [fails] still holds.  [fails] runs the real implementation."""
    import copy
    cur = descr
    runs = 0
    changed = True
    while changed and runs < budget:
        changed = False
        cands = []
        for i, o in enumerate(cur["objs"]):
            for f, kind, _t, opt in REFS.get(o["c"], []):
                ks = o["r"].get(f, [])
                if kind == "many":
                    for j in range(len(ks)):
                        cands.append(("drop", i, f, j))
                elif ks and opt:
                    cands.append(("none", i, f, 0))
        for k in sorted({k for o in cur["objs"] for ks in o["r"].values() for k in ks}):
            if k != cur["root"]:
                cands.append(("root", k, "", 0))
        for kind, i, f, j in cands:
            if runs >= budget:
                break
            c = copy.deepcopy(cur)
            if kind == "drop":
                if i >= len(c["objs"]) or j >= len(c["objs"][i]["r"].get(f, [])):
                    continue
                del c["objs"][i]["r"][f][j]
            elif kind == "none":
                if i >= len(c["objs"]):
                    continue
                c["objs"][i]["r"][f] = []
            else:
                c["root"] = i
            c = prune(c)
            if len(json.dumps(c)) >= len(json.dumps(cur)):
                continue
            runs += 1
            try:
                bad = fails(c)
            except Exception:  # noqa
                bad = False
            if bad:
                cur = c
                changed = True
                break
    return cur


def _fails_like(res0):
    """same kind of failure as the original: an exception, or a difference found by the bisimulation"""
    def f(d):
        res = run_impl(d)
        return ("exc" in res) if "exc" in res0 else ("exc" not in res and res.get("py_iso") is not None)
    return f


def state_reuse_scenario(attempts: int = 400) -> Dict[str, Any]:
    """C04-b: one FromDAOState for several from_dao calls while earlier DAOs are released (what a caller does who
    loads rows one by one from a Session whose identity map is weak).  Returns what was observed."""
    from krrood.ormatic.dao import to_dao, FromDAOState
    from test.dataset.example_classes import Position
    setup_impl()
    st = FromDAOState()
    firsts: Dict[int, Any] = {}
    positions = [Position(i, i, i) for i in range(attempts)]   # allocated up front so that they do not take the freed slot
    for i in range(attempts):
        d = to_dao(positions[i])
        reused = id(d) in st.memo          # read-only look at the memo: is this id() a key left by a released DAO?
        o = d.from_dao(st)
        if reused:
            return {"reused": True, "attempt": i, "returned_first_object": o is firsts.get(id(d)), "x": o.x, "expected_x": i}
        firsts[id(d)] = o
        del d
        gc.collect()
    return {"reused": False}


def altbase_tmp_scenario() -> Dict[str, Any]:
    """C04-c: objects whose DAO inherits from an alternatively mapped DAO (DerivedEntityDAO below CustomEntityDAO).
    from_dao builds a TEMPORARY parent DAO per object and memoises its result under id(temporary); once the temporary
    has been collected the next object's temporary can get the same id() and is handed the previous object's base fields.
    Deterministic form: one FromDAOState, four DerivedEntity DAOs, a garbage collection between the conversions."""
    from krrood.ormatic.dao import to_dao, FromDAOState
    from test.dataset.example_classes import DerivedEntity
    setup_impl()
    first = None
    nwrong = 0
    trials = 40
    for _t in range(trials):
        ents = [DerivedEntity(f"d{i}", description=f"x{i}") for i in range(4)]
        daos = [to_dao(e) for e in ents]
        st = FromDAOState()
        out = []
        for d in daos:
            out.append(d.from_dao(st))
            gc.collect()
        names, expected = [o.name for o in out], [e.name for e in ents]
        wrong = [i for i in range(4) if names[i] != expected[i]]
        if wrong:
            nwrong += 1
            if first is None:
                first = {"names": names, "expected": expected, "wrong": wrong,
                         "as_predicted": all(names[i] in expected[:i] for i in wrong) and
                                         [o.description for o in out] == [e.description for e in ents]}
    res = first or {"names": None, "wrong": [], "as_predicted": False}
    res.update(trials=trials, trials_wrong=nwrong)
    return res


def altbase_tmp_observe() -> Dict[str, Any]:
    """Run the scenario in a fresh interpreter (the id() reuse depends on the allocator's state)."""
    rc, out = core.sh([core.PY, "-c", "import json; from harness import c04; print('RESULT ' + json.dumps(c04.altbase_tmp_scenario()))"],
                      cwd=str(core.VERIF), env=core.IMPL_ENV, timeout=300)
    for line in out.splitlines():
        if line.startswith("RESULT "):
            return json.loads(line[7:])
    return {"names": None, "wrong": [], "as_predicted": False, "error": out[-300:]}


def todao_state_scenario(n: int = 400) -> Dict[str, Any]:
    """One ToDAOState for many to_dao calls on short-lived objects: keep_alive must pin every converted object, otherwise a
    later object can get the id() of a dead one and receive the dead one's DAO from the memo."""
    from krrood.ormatic.dao import to_dao, ToDAOState
    from test.dataset.example_classes import Position
    setup_impl()
    st = ToDAOState()
    for i in range(n):
        p = Position(i, i, i)
        d = to_dao(p, st)
        if d.x != i:
            return {"ok": False, "attempt": i, "dao_x": d.x, "expected_x": i}
        del p, d
    return {"ok": True, "conversions": n, "memo_size": len(st.memo)}


# ----------------------------------------------------------------------------- the check
def run(tier: str, seed: int, replay=None) -> int:
    rep = Report(PROP, tier, seed, "proof")
    rep.trusted = core.COQ_TRUSTED + [
        "hand-written model Orm/ObjGraphWalk.v (memoised walk of dao.py to_dao/from_dao; fields written at initialisation; "
        "DAO class identified with the class it wraps), tied by differential execution on random graphs over the dataset classes",
        "source pins pins/ormrt.json (41 methods of dao.py, alternative_mappings.py, custom_types.py, wrapped_table.py, utils.create_engine that the hand "
        "models mirror; a changed method reopens the correspondence obligation)",
        "harness/c04.py: class table of the dataset (scalar / reference fields, checked against the DAO mappers' relationship order), "
        "graph builder through the dataclass constructors, heap dump, scalar interning (numbers by value), python bisimulation",
        "user code of the dataset (create_instance/create_from_dao of the alternative mappings, ContainerGeneration.__post_init__) "
        "is run, not modelled; generated data respect it (Backreference.unmappable = {v: v}; items belong to one container)",
    ]
    rep.assume = ["CPython id() is unique among live objects; ToDAOState.keep_alive and (since 32013a0) FromDAOState.keep_alive pin every memoised "
                  "object (modelled: state field [keep], invariant C04_keep_alive_invariant; histories over one heap, C04_state_reuse_safe)",
                  "dataclass __init__ assigns exactly the given kwargs (the setattr fallback yields the same fields)"]
    rep.rule = ("random rooted graphs over 22 dataset classes (1..12 objects; reuse probability 0/0.3/0.6 over ALL compatible earlier "
                "objects incl. ancestors => shared nodes, back references, cycles incl. self loops; optional refs None with p 0.1/0.4; "
                "collections of 0..4 with repeats; subclass instances in base-typed fields; alt-mapped Entity/Backreference/Vector/"
                "VectorsWithProperty, DerivedEntity below an alt-mapped DAO); distinct = distinct graph descriptions; "
                "non-trivial = at least 2 objects")
    ok_spec, log = core.coq_make(["Base/Sx.vo", "Orm/IsoCanon.vo"])
    rep.oblige("build:spec", ok_spec, "" if ok_spec else core.first_error(log))
    model_ok = core.standard_proof_steps(rep, PROP, ["Props/C04.vo"])
    from translator import pins
    pins.oblige(rep, str(core.REPO), "ormrt", "Orm/ObjGraphWalk.v + ToDao.v + FromDao.v (hand model of to_dao/from_dao)")
    try:
        setup_impl()
        rep.oblige("impl:dataset-layer", True, "test.dataset.ormatic_interface imported, mappers configured, relationship order checked")
    except Exception as e:  # noqa
        rep.oblige("impl:dataset-layer", False, f"{type(e).__name__}: {e}")
        return rep.finish()

    findings = core.load_findings(PROP)
    from . import c05 as _c05r
    _c05r.OPEN_RULES.clear()
    _c05r.OPEN_RULES.update(rule for rule, fid in _c05r.RULE_FINDING.items() if any(f.fid == fid and f.kind == "open" for f in findings))
    if replay is None:
        rep.extra["scenarios"] = _c05r.run_scenarios(rep, PROP, findings)
    descrs: List[dict] = []
    origin: List[str] = []
    from . import c05 as _c05          # generated class models (with falsy-capable classes) are produced by harness/c05.py's workers
    gdir = core.WORK / PROP / "genmodels"
    gdir.mkdir(parents=True, exist_ok=True)
    procs = []
    if replay is not None and "class_model" in replay:
        rf = gdir / "replay_in.json"
        rf.write_text(json.dumps(replay))
        procs.append(("replay", gdir / "out_replay.json",
                      _c05.spawn_worker(PROP, seed, int(replay["class_model"]["idx"]), 1, model_ok, gdir / "out_replay.json", rf)))
    elif replay is not None:
        case = replay["case"]
        if isinstance(case, dict) and case.get("scenario") == "state_reuse":
            return _run_state_reuse(rep, findings, only=True)
        if isinstance(case, dict) and case.get("scenario") == "altbase_tmp":
            obs = altbase_tmp_observe()
            rep.count("altbase_tmp", True)
            rep.extra["altbase_tmp"] = obs
            if obs["wrong"]:
                rep.violation({"kind": "counterexample", "case": case, "impl": obs,
                               "python": "from harness import c04; print(c04.altbase_tmp_scenario())"})
            return rep.finish()
        if isinstance(case, dict) and case.get("scenario") == "todao_state":
            descrs, origin = [], []
        else:
            descrs, origin = [case], ["replay"]
    else:
        cdir = core.VERIF / "corpus" / PROP
        for f in sorted(cdir.glob("*.json")) if cdir.is_dir() else []:
            w = json.loads(f.read_text())
            c = w["case"]
            if "class_model" in w:       # a witness over a generated class model: re-installed and run by a worker
                outw = gdir / f"out_corpus_{f.stem}.json"
                procs.append((f"corpus:{f.name}", outw, _c05.spawn_worker(PROP, seed, int(w["class_model"]["idx"]), 1, model_ok, outw, f)))
            elif isinstance(c, dict) and "objs" in c:
                descrs.append(c)
                origin.append(f"corpus/{PROP}/{f.name}")
        nmodels, per_model = (6, 60) if tier == "quick" else (16, 150)
        for j in range(nmodels):
            procs.append((j, gdir / f"out_{j}.json", _c05.spawn_worker(PROP, seed, j, per_model, model_ok, gdir / f"out_{j}.json")))
        rng = core.Rng(seed).fork(4)
        ncases = 4000 if tier == "quick" else 30000
        for i in range(ncases):
            g = gen_graph(rng.fork(i), 12 if tier == "quick" or i % 4 else 24)
            if i % 5 == 4:      # every fifth case: several roots, one shared ToDAOState and one shared FromDAOState
                g = make_multi(rng.fork(1000000 + i), g)
            descrs.append(g)
            origin.append(f"gen:{i}")

    # run the implementation, build the Coq cases
    exprs, metas = [], []
    dist = {"n": {}, "root_class": {}, "shared>0": 0, "cyclic>0": 0, "self_loop>0": 0, "none>0": 0, "empty_coll>0": 0,
            "repeated_elem>0": 0, "subclass_in_base_field>0": 0, "alt>0": 0, "altbase>0": 0, "altcycle": 0, "in_F04": 0}
    dist["multi_root"] = 0
    for d, org in zip(descrs, origin):
        fn = code_fns(d, model_ok)[0]
        dist["multi_root"] += 1 if is_multi(d) else 0
        ft = features(d)
        res = run_impl(d)
        heap, r, anom = input_heap(d)
        if anom:
            rep.oblige("harness:dump", False, f"{org}: {anom}")
        rep.count(json.dumps(d, sort_keys=True), ft["n"] >= 2)
        dist["n"][ft["n"]] = dist["n"].get(ft["n"], 0) + 1
        rc = d["objs"][d["root"]]["c"]
        dist["root_class"][rc] = dist["root_class"].get(rc, 0) + 1
        for k, key in (("shared>0", "shared"), ("cyclic>0", "cyclic_objs"), ("self_loop>0", "self_loops"), ("none>0", "none_refs"),
                       ("empty_coll>0", "empty_colls"), ("repeated_elem>0", "repeated_elems"),
                       ("subclass_in_base_field>0", "subclass_in_base_field"), ("alt>0", "alt_objs"), ("altbase>0", "altbase_objs")):
            dist[k] += 1 if ft[key] else 0
        dist["altcycle"] += 1 if ft["altcycle"] else 0
        meta = {"descr": d, "origin": org, "ft": ft, "res": res, "in_f": False, "heap": heap, "root": r}
        metas.append(meta)
        if "exc" in res:
            continue
        args = f"{heap_term(heap)} {r}%nat {heap_term(res['heap'])} {res['root']}%nat"
        exprs.append((len(metas) - 1, f"{fn} {alts_ab()} {args}" if model_ok else f"{fn} {args}"))
    # cases over freshly generated class models (ORMatic generates the layer in a subprocess per model): classes whose instances
    # can be FALSY (__len__ over a collection / JSON list, __bool__ over a scalar) behind single references and in collections
    gdist = {"models": 0, "cases": 0, "setup_errors": [], "falsy_objs>0": 0, "falsy_behind_single_ref>0": 0, "falsy_in_collection>0": 0,
             "falsy_root": 0, "cyclic>0": 0, "shared>0": 0, "n": {}}
    for j, outf, pr in procs:
        o = _c05.collect_worker(rep, j, outf, pr)
        if o is None:
            continue
        if "setup_error" in o:
            gdist["setup_errors"].append({"model": j, "error": o["setup_error"]})
            continue
        gdist["models"] += 1
        for m in o["cases"]:
            m["model"], m["source"] = o["model"], o.get("source")
            ft = m["ft"]
            gdist["cases"] += 1
            gdist["n"][ft["n"]] = gdist["n"].get(ft["n"], 0) + 1
            for k in ("falsy_objs", "falsy_behind_single_ref", "falsy_in_collection", "falsy_root"):
                gdist[k + (">0" if k != "falsy_root" else "")] += 1 if ft.get(k) else 0
            gdist["cyclic>0"] += 1 if ft["cyclic_objs"] else 0
            gdist["shared>0"] += 1 if ft["shared"] else 0
            rep.count(m["origin"] + json.dumps(m["descr"], sort_keys=True), ft["n"] >= 2)
            metas.append(m)
            if m.get("expr"):
                exprs.append((len(metas) - 1, m["expr"]))
    if not model_ok:
        rep.note("model not available; comparing the implementation with the Spec only (search for a failing input)")
    try:
        vals = core.coq_values(PROP, HEADER if model_ok else HEADER_SPEC, [e for _, e in exprs], chunk=150)
    except core.CoqEvalError as e:
        rep.oblige("correspondence:evaluate", False, str(e)[:400])
        return rep.finish()
    codes: Dict[int, List[int]] = {i: v for (i, _), v in zip(exprs, vals)}

    kf_altcycle = 0
    kf_inexact = 0
    kf_rules: Dict[str, int] = {}
    kf_altbase = 0
    c04c_open = any(f.fid == "C04-c" and f.kind == "open" for f in findings)
    stale = 0
    bad: List[Tuple[dict, str]] = []
    for i, m in enumerate(metas):
        res, ft = m["res"], m["ft"]
        if "exc" in res:
            bad.append((m, f"exception {res['exc']}"))
            continue
        code, f04, wf = codes[i]
        m["code"] = code
        if code != 0 and _c05r.rule_instances(m):
            for fid in _c05r.rule_instances(m):
                kf_rules[fid] = kf_rules.get(fid, 0) + 1
            continue
        m["in_f"] = bool(model_ok and f04 == 1)      # F04w: coherent class model and no mapping object handed out in progress
        dist["in_F04"] += 1 if m["in_f"] else 0
        dist["old_F04"] = dist.get("old_F04", 0) + (1 if not ft["alt_objs"] and not ft["altbase_objs"] else 0)
        m["code"] = code
        if wf != 1:
            rep.oblige("harness:wf", False, f"{m['origin']}: dumped heap is not closed")
            continue
        if model_ok and f04 != 1 and not ft["altcycle"] and not ft.get("altgc_objs"):
            rep.oblige("harness:F04w", False, f"{m['origin']}: the model puts the case outside F04w, but no alternatively mapped object of the case "
                                              f"lies on a cycle and no object is two levels below an alternatively mapped class")
        # the two comparators must agree: canonical forms equal <-> python bisimulation finds no difference
        if (code in (0, 1)) != (res["py_iso"] is None):
            rep.oblige("harness:comparators", False, f"{m['origin']}: canon says {'equal' if code in (0, 1) else 'different'}, "
                                                     f"python bisimulation says {res['py_iso']}")
        if code == 0:
            continue
        if code == 1:
            if m["in_f"]:
                rep.oblige("correspondence:model", False, f"{m['origin']}: impl = spec but the model differs inside F04 (contradicts C04_round_trip)")
            else:
                stale += 1
            continue
        if code == 2 and not m["in_f"] and ft["altcycle"]:
            kf_altcycle += 1        # C04-a: outside F04w and the implementation fails exactly as the faithful model predicts
            continue
        if (code == 3 and ft["altcycle"] and not m["in_f"] and ft["altbase_objs"] and m.get("renamed_rel") and "Mapping" in (res.get("py_iso") or "")):
            # C04-a, INEXACT in the model: below an alternatively mapped DAO whose mapping renames a relationship the real traversal
            # order differs per direction (to_dao: parent's relationships first; from_dao: the renamed ones last, inside the temporary
            # parent conversion), so WHICH objects keep a mapping object can differ from the model's single field order
            kf_altcycle += 1
            kf_inexact += 1
            continue
        if c04c_open and ft["altbase_objs"] >= 2 and "_objs" in res and py_iso(res["_objs"][0], res["_objs"][1], relax_altbase=True) is None:
            kf_altbase += 1          # finding C04-c (not modelled: DAO below an alternatively mapped DAO); narrow matcher above
            continue
        bad.append((m, f"code {code}: {res['py_iso']}"))
    if stale:
        rep.note(f"{stale} cases outside F04 where impl = spec but the model predicts a failure (model inexact / finding repaired)")
    dist["generated_models"] = gdist
    rep.extra["distribution"] = dist
    rep.extra["inexact_model_instances"] = {"C04-a": kf_inexact}
    rep.extra["known_finding_instances"] = {"C04-a": kf_altcycle, "C04-c": kf_altbase, **kf_rules}
    rep.samples = [{"case": m["descr"], "features": m["ft"]} for m in metas[:: max(1, len(metas) // 5)]][:5]

    for m, why in bad[:5]:
        detail = {}
        small = m["descr"] if m.get("generated") else shrink(m["descr"], _fails_like(m["res"]))   # generated cases are shrunk by their worker
        if small != m["descr"]:
            m = {"descr": small, "origin": m["origin"] + " (shrunk)", "ft": features(small), "res": run_impl(small)}
            m["heap"], m["root"], _ = input_heap(small)
            why = "exception " + m["res"]["exc"] if "exc" in m["res"] else f"shrunk: {m['res'].get('py_iso')}"
        if "heap" in m["res"] and model_ok:
            try:
                alts = m.get("alts") or alts_ab()
                a1 = f"{heap_term(m['heap'])} {m['root']}%nat"
                v = core.coq_eval_sx(PROP, HEADER, [f"spec_canon {a1}", f"{code_fns(m['descr'], True)[1]} {alts} {a1}",
                                                   f"spec_canon {heap_term(m['res']['heap'])} {m['res']['root']}%nat"])
                detail = {"spec": v[0], "model": v[1], "impl": v[2]}
            except Exception as e:  # noqa
                detail = {"detail_error": str(e)[:200]}
        gen = {"class_model": m["model"], "model_source": m.get("source")} if m.get("generated") else {}
        rep.violation({"kind": "counterexample", "case": m["descr"], "origin": m["origin"], "features": m["ft"], "why": why,
                       "impl_result_heap": m["res"].get("heap"), **detail, **gen,
                       "python": (f"from harness import c04; print(c04.explain({m['descr']!r}))" if not m.get("generated") else
                                  "# generated class model: save model_source as a module, generate its layer with ORMatic(ClassDiagram(classes)), build the "
                                  "graph in 'case' (objs[i].c = class, s = scalar kwargs, r = reference fields by object index), then to_dao(root).from_dao(); "
                                  "or: ./check C04 --replay <this file>"),
                       "explanation": "canonical form = [root, [object: [class id, scalar ids, [[field tag, [targets]]]]]] in DFS discovery order; "
                                      "spec = canon of the input graph, impl = canon of from_dao(to_dao(input)) on the real code"})
    if replay is None or replay.get("case", {}).get("scenario") == "todao_state":
        obs = todao_state_scenario()
        rep.count("todao_state", True)
        rep.extra["todao_state_reuse"] = obs
        if not obs["ok"]:
            rep.violation({"kind": "counterexample", "case": {"scenario": "todao_state"}, "impl": obs,
                           "spec": "to_dao(Position(i,i,i), state).x == i for every i, with one ToDAOState shared by all calls",
                           "python": "from harness import c04; print(c04.todao_state_scenario())"})
    # known findings / fixed entries
    for f in (findings if replay is None else []):
        w = json.loads((core.VERIF / f.witness).read_text())
        if f.cls.startswith("K_scn"):
            continue          # judged by run_scenarios
        if f.cls == "K_state_reuse":
            _run_state_reuse(rep, [f], only=False)
            continue
        if f.cls == "K_altbase_tmp":
            obs = altbase_tmp_observe()
            rep.count("altbase_tmp", True)
            rep.extra["altbase_tmp"] = obs
            if obs["wrong"] and obs["as_predicted"] and f.kind == "open":
                rep.known(f)
            elif obs["wrong"]:
                rep.violation({"kind": "counterexample", "case": {"scenario": "altbase_tmp"}, "impl": obs,
                               "python": "from harness import c04; print(c04.altbase_tmp_scenario())"})
            elif f.kind == "open":
                rep.note("known finding C04-c: the scenario no longer yields a wrong object (finding appears repaired, or the allocator did not reuse the address)")
            continue
        still = any(m["origin"] == f.witness and (m.get("code") == 2 or "exc" in m["res"] or f.fid in _c05r.rule_instances(m))
                    for m in metas) if replay is None else None
        if replay is not None:
            continue
        if f.kind == "open":
            if still:
                rep.known(f)
            else:
                rep.note(f"known finding {f.fid}: witness {f.witness} no longer fails (finding appears repaired)")
        elif still:
            rep.violation({"kind": "counterexample", "case": w["case"], "why": f"regression of fixed finding {f.fid}",
                           "python": f"from harness import c04; print(c04.explain({w['case']!r}))"})
    return rep.finish()


def _run_state_reuse(rep: Report, findings, only: bool) -> int:
    obs = state_reuse_scenario()
    rep.count("state_reuse", True)
    rep.extra["state_reuse"] = obs
    fs = [f for f in findings if f.cls == "K_state_reuse"]
    if not obs.get("reused"):
        if not (fs and fs[0].kind == "fixed"):   # with keep_alive no id() is ever handed out again: the fixed witness passes silently
            rep.note("C04-b: the allocator did not hand out the released DAO's address again in this run; scenario not exercised")
    elif obs["returned_first_object"]:
        # exactly what the model predicts (C04_refuted_state_reuse): the memo hit returns the first load's object
        if fs and fs[0].kind == "open":
            rep.known(fs[0])
        else:
            rep.violation({"kind": "counterexample", "case": {"scenario": "state_reuse"}, "impl": obs,
                           "python": "from harness import c04; print(c04.state_reuse_scenario())"})
    elif obs["x"] != obs["expected_x"]:
        rep.violation({"kind": "counterexample", "case": {"scenario": "state_reuse"}, "impl": obs,
                       "python": "from harness import c04; print(c04.state_reuse_scenario())"})
    else:
        if fs and fs[0].kind == "open":
            rep.note("known finding C04-b: a reused FromDAOState no longer returns a dead DAO's object (finding appears repaired)")
    return rep.finish() if only else 0
