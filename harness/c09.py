"""C09 -- result quantifiers enforce exactly the stated solution count.
Tie: translator (Gen/Quant.v from result_quantification_constraint.py) + exhaustive correspondence of the
hand-written counting loop (Eql/Quant.v) with an(...)/the(...) through the public API."""
from __future__ import annotations

import json
from typing import Any, List

from . import core
from .core import Case, Report

PROP = "C09"
HEADER = """From Coq Require Import List ZArith.
From Krrood Require Import Base.Sx Eql.QuantSpec Eql.Quant.
Import ListNotations. Open Scope Z_scope."""
HEADER_SPEC = """From Coq Require Import List ZArith.
From Krrood Require Import Base.Sx Eql.QuantSpec.
Import ListNotations. Open Scope Z_scope."""

EXN = {"NegativeQuantificationError": 1, "QuantificationConsistencyError": 2,
       "GreaterThanExpectedNumberOfSolutions": 3, "LessThanExpectedNumberOfSolutions": 4,
       "NoSolutionFound": 5, "MultipleSolutionFound": 6}


def ctor_term(k) -> str:
    if k is None:
        return "None"
    kind, *vals = k
    return "(Some (K%s %s))" % (kind, " ".join(core.zlit(v) for v in vals))


def run_impl(descr) -> Any:
    """Execute one case against the real implementation through the public API."""
    from krrood.entity_query_language.entity import let, entity, set_of
    from krrood.entity_query_language.quantify_entity import an, the
    from krrood.entity_query_language import result_quantification_constraint as rq

    n = descr["n"]
    if descr.get("mode") == "reeval":
        return run_reeval(descr)
    dom = list(range(1, n + 1))
    x = let(int, dom, name="x")
    shape = descr.get("shape", "entity")
    if shape == "match":
        # the same description written with the match API: entity_matching(_Row, items)(on=True) -- n solutions
        from krrood.entity_query_language.match import entity_matching
        _Row = _row_class()
        items = [_Row(i, True) for i in dom]
    if descr["q"] == "the":
        try:
            if shape == "match":
                return [0, the(entity_matching(_Row, items)(on=True)).evaluate().i]
            q = the(entity(x, x >= 1)) if shape == "entity" else the(set_of([x], x >= 1))
            v = q.evaluate()
            if shape != "entity":
                v = v[x]
            return [0, v]
        except Exception as e:  # noqa
            name = type(e).__name__
            return [EXN[name]] if name in ("NoSolutionFound", "MultipleSolutionFound") else [99, _h(name)]
    k = descr["k"]
    try:
        if k is None:
            c = None
        elif k[0] == "Range":
            c = rq.Range(rq.AtLeast(k[1]), rq.AtMost(k[2]))
        else:
            c = getattr(rq, k[0])(k[1])
    except Exception as e:  # noqa
        return [-1, EXN.get(type(e).__name__, 99)]
    rows: List[int] = []
    exn = 0
    if descr.get("mode") == "lockstep":
        # two live evaluations of the same query object consumed in lock-step (after a complete evaluation has filled
        # the domain cache, which avoids the known C03-a interference): each must behave as a single evaluation does
        ent = entity(x, x >= 1)
        q = an(ent, quantification=c) if c is not None else an(ent)
        try:
            list(q.evaluate())
        except Exception:  # noqa
            pass
        outs = []
        its = [iter(q.evaluate()), iter(q.evaluate())]
        state = [[[], 0], [[], 0]]
        live = [True, True]
        while any(live):
            for k in (0, 1):
                if not live[k]:
                    continue
                try:
                    state[k][0].append(next(its[k]))
                except StopIteration:
                    live[k] = False
                except Exception as e:  # noqa
                    state[k][1] = EXN.get(type(e).__name__, 99)
                    live[k] = False
        if state[0] != state[1]:
            return [[-98], 98]
        return state[0]
    try:
        if shape == "match":
            ent = entity_matching(_Row, items)(on=True)
            if descr.get("again"):
                # the SAME pattern object quantified a second time (krrood 382bab2; it raised InvalidEntityType before)
                try:
                    list(an(ent).evaluate())
                except Exception:  # noqa
                    pass
        else:
            ent = entity(x, x >= 1) if shape == "entity" else set_of([x], x >= 1)
        q = an(ent, quantification=c) if c is not None else an(ent)
        for r in q.evaluate():
            rows.append(r.i if shape == "match" else (r if shape == "entity" else r[x]))
    except Exception as e:  # noqa
        exn = EXN.get(type(e).__name__, 99)
    return [rows, exn]


_ROW = None


def _row_class():
    """a Symbol dataclass for the match API (entity_matching reads the fields from the symbol graph's class diagram, which is
    built when the graph is created: the graph is re-created once after the class exists)"""
    global _ROW
    if _ROW is None:
        import dataclasses
        from krrood.entity_query_language.predicate import Symbol
        from krrood.entity_query_language.symbol_graph import SymbolGraph

        @dataclasses.dataclass(eq=False)
        class _Row(Symbol):
            i: int
            on: bool = True

        SymbolGraph().clear()
        SymbolGraph()
        _ROW = _Row
    return _ROW


class _Item:
    """a mutable fact: whether item i currently satisfies the condition"""

    def __init__(self, i, on):
        self.i, self.on = i, on


def run_reeval(descr) -> Any:
    """the SAME query object evaluated twice with the data changed in between (first n0 items satisfy the condition, then
    n): the second evaluation must behave exactly as a first evaluation over the new data (seeded C09-E: a memoised
    the(...).evaluate() keeps returning the first answer)"""
    from krrood.entity_query_language.entity import let, entity
    from krrood.entity_query_language.quantify_entity import an, the
    from krrood.entity_query_language import result_quantification_constraint as rq

    n0, n = descr["n0"], descr["n"]
    items = [_Item(i, i <= n0) for i in range(1, max(n0, n) + 1)]
    x = let(_Item, items, name="x")
    k = descr.get("k")
    if descr["q"] == "the":
        q = the(entity(x, x.on == True))  # noqa: E712
    else:
        try:
            if k is None:
                c = None
            elif k[0] == "Range":
                c = rq.Range(rq.AtLeast(k[1]), rq.AtMost(k[2]))
            else:
                c = getattr(rq, k[0])(k[1])
        except Exception as e:  # noqa
            return [-1, EXN.get(type(e).__name__, 99)]
        q = an(entity(x, x.on == True), quantification=c) if c is not None else an(entity(x, x.on == True))  # noqa: E712
    try:
        r = q.evaluate()
        if descr["q"] != "the":
            list(r)
    except Exception:  # noqa
        pass
    for it in items:
        it.on = it.i <= n
    if descr["q"] == "the":
        try:
            return [0, q.evaluate().i]
        except Exception as e:  # noqa
            name = type(e).__name__
            return [EXN[name]] if name in ("NoSolutionFound", "MultipleSolutionFound") else [99, _h(name)]
    rows, exn = [], 0
    try:
        for r in q.evaluate():
            rows.append(r.i)
    except Exception as e:  # noqa
        exn = EXN.get(type(e).__name__, 99)
    return [rows, exn]


def run_nested_scenario() -> Any:
    """a quantified sub-query over a domain-less variable, nested in an outer query that is evaluated AGAIN after the data
    changed: the(entity(w)) with w = let(W, None) must see the instances that exist at each evaluation (seeded C09-H: the
    memory of the nested query's variable was not reset).  Runs in a subprocess (it creates Symbol instances).
    Returns the list of outcomes of the successive evaluations."""
    import subprocess
    code = r"""
import json
from dataclasses import dataclass
from krrood.entity_query_language.entity import let, entity, Symbol
from krrood.entity_query_language.quantify_entity import an, the
from krrood.entity_query_language import result_quantification_constraint as rq

@dataclass(eq=False)
class W(Symbol):
    v: int

out = []
def ev(q):
    try:
        return sorted(int(r) for r in q.evaluate())
    except Exception as e:
        return type(e).__name__

for inner_kind in ("the", "atmost1"):
    keep = []
    w = let(W, None)
    inner = the(entity(w)) if inner_kind == "the" else an(entity(w), quantification=rq.AtMost(1))
    x = let(int, [1, 2, 3], name="x")
    outer = an(entity(x, x == inner.v))
    res = [ev(outer)]            # no W exists
    keep.append(W(2)); res.append(ev(outer))      # exactly one
    keep.append(W(3)); res.append(ev(outer))      # two: the inner constraint is violated
    res.append(ev(outer))                         # and stays violated
    out.append(res)
    del keep
    import gc; gc.collect()
# a quantified sub-query referenced TWICE by the outer condition, with a falsy solution (0): its count is that of the
# sub-query, whatever value the outer binding fixes (seeded C09-I: a bound but falsy solution was enumerated again and
# recounted as 1)
from krrood.entity_query_language.entity import and_
for dom in ([0, 5], [3, 5], [0]):
    for cname, c in (("AtLeast2", lambda: rq.AtLeast(2)), ("Exactly2", lambda: rq.Exactly(2)),
                     ("Range23", lambda: rq.Range(rq.AtLeast(2), rq.AtMost(3))), ("AtMost2", lambda: rq.AtMost(2))):
        y = let(int, dom, name="y")
        inner = an(entity(y), quantification=c())
        x = let(int, [0, 3, 5, 7], name="x")
        out.append([ev(an(entity(x, and_(x >= inner, x <= inner))))])
# a constrained quantifier as the VALUE of a conclusion: it is evaluated to its end, so it enforces its constraint
# (krrood 9ed7528; before, Add / Set took the first result and abandoned the rest)
from krrood.entity_query_language.conclusion import Add
for hi, mk in ((1, lambda c, hi: the(entity(c, c < hi))), (2, lambda c, hi: the(entity(c, c < hi))), (0, lambda c, hi: the(entity(c, c < hi))),
               (2, lambda c, hi: an(entity(c, c < hi), quantification=rq.AtMost(1))), (1, lambda c, hi: an(entity(c, c < hi), quantification=rq.AtMost(1))),
               (1, lambda c, hi: an(entity(c, c < hi), quantification=rq.AtLeast(2))), (3, lambda c, hi: an(entity(c, c < hi), quantification=rq.Exactly(3)))):
    trigger = let(int, [7], name="trigger")
    cand = let(int, [0, 1, 2, 3, 4], name="cand")
    result = let(int, None, name="result")
    q = an(entity(result, trigger > 0))
    with q:
        Add(result, mk(cand, hi))
    out.append([ev(q)])
print(json.dumps(out))
"""
    r = subprocess.run([core.PY, "-c", code], env=core.IMPL_ENV, stdout=subprocess.PIPE, stderr=subprocess.PIPE, text=True,
                       timeout=300, cwd=str(core.VERIF))
    last = [l for l in r.stdout.strip().splitlines() if l.strip()]
    if r.returncode != 0 or not last:
        return ["crash", (r.stderr.strip().splitlines() or ["?"])[-1][:200]]
    return json.loads(last[-1])


_LESS = "LessThanExpectedNumberOfSolutions"
NESTED_EXPECTED = [["NoSolutionFound", [2], "MultipleSolutionFound", "MultipleSolutionFound"],
                   [[], [2], "GreaterThanExpectedNumberOfSolutions", "GreaterThanExpectedNumberOfSolutions"],
                   # sub-query over [0, 5] (two solutions) / [3, 5] (two) / [0] (one): AtLeast(2), Exactly(2), Range(2..3), AtMost(2)
                   [[0, 5]], [[0, 5]], [[0, 5]], [[0, 5]],
                   [[3, 5]], [[3, 5]], [[3, 5]], [[3, 5]],
                   [_LESS], [_LESS], [_LESS], [[0]],
                   # conclusion values: the(1 solution), the(2), the(0), AtMost(1) over 2, over 1, AtLeast(2) over 1, Exactly(3) over 3
                   [[0]], ["MultipleSolutionFound"], ["NoSolutionFound"], ["GreaterThanExpectedNumberOfSolutions"], [[0]], [_LESS], [[0]]]


def _h(name: str) -> int:
    return sum(ord(c) for c in name)


def make_case(descr, run=True) -> Case:
    n = descr["n"]
    rows = core.zlist(range(1, n + 1))
    if descr["q"] == "the":
        term = f"QThe {rows}"
    else:
        term = f"QAn {ctor_term(descr['k'])} {rows}"
    snippet = f"from harness import c09; print(c09.run_impl({descr!r}))"
    return Case(term=term, impl=run_impl(descr) if run else None, descr=descr, snippet=snippet)


def gen_cases(tier: str, seed: int) -> List[dict]:
    nmax, lo, hi = (8, -1, 9) if tier == "quick" else (30, -2, 32)
    out = []
    for n in range(0, nmax + 1):
        out.append({"q": "an", "k": None, "n": n})
        out.append({"q": "the", "n": n})
        for kind in ("Exactly", "AtLeast", "AtMost"):
            for v in range(lo, hi + 1):
                out.append({"q": "an", "k": [kind, v], "n": n})
        for a in range(lo, hi + 1):
            for b in range(lo, hi + 1):
                out.append({"q": "an", "k": ["Range", a, b], "n": n})
    # the same through set_of (different descriptor / result mapping) on a deterministic sample
    rng = core.Rng(seed)
    extra = []
    for d in out:
        if rng.chance(0.1):
            extra.append(dict(d, shape="setof"))
        if rng.chance(0.1):
            extra.append(dict(d, shape="match"))       # (seeded C09-J: the match branch of an() dropped quantification=)
            if d["q"] == "an":
                extra.append(dict(d, shape="match", again=1))
        if d["q"] == "an" and d["k"] is not None and rng.chance(0.06):
            extra.append(dict(d, mode="lockstep"))
        if d.get("k") is None or (d["q"] == "an" and rng.chance(0.03)):
            # re-evaluation of the same query object after the data changed (every the / unconstrained an, 3% of the rest)
            for n0 in sorted({0, 1, 2, d["n"]} - {d["n"]} | ({3} if d["n"] != 3 else set())):
                extra.append(dict(d, mode="reeval", n0=n0))
    return out + extra


def run(tier: str, seed: int, replay=None) -> int:
    from translator import t_quant
    rep = Report(PROP, tier, seed, "proof")
    rep.trusted = core.COQ_TRUSTED + [
        "translator/py2coq.py + t_quant.py (fail-closed ast translator; result_quantification_constraint.py -> Gen/Quant.v)",
        "hand-written model of the counting loop in ResultQuantifier._evaluate__/The (Eql/Quant.v), tied by exhaustive differential execution through an()/the()",
        "harness/c09.py case builder and outcome canonicaliser",
    ]
    rep.assume = ["CPython generator protocol: a generator that raises has yielded exactly the rows before the raise",
                  "rows come from let(int, [1..n]) with condition x >= 1: the child query itself is C01's concern"]
    rep.rule = ("exhaustive over n in 0..N and every Exactly/AtLeast/AtMost/Range constraint with bounds lo..hi (quick N=8,-1..9; thorough N=30,-2..32), "
                "plus the(...) and unconstrained an(...), plus re-evaluations of the SAME query object after the data changed (every the(...) / unconstrained an(...) case from four earlier solution counts, 3% of the constrained ones), plus a seeded 10% re-run through set_of, a seeded 10% re-run written with the match API (entity_matching) and a seeded 6% re-run as two evaluations of one query object consumed in lock-step (each must behave as the single evaluation the model describes); distinct = distinct (constraint, n, shape); "
                "non-trivial = every case (each has a different expected outcome)")
    # Spec must always build (independent of the source)
    ok_spec, log = core.coq_make(["Base/Sx.vo", "Eql/QuantSpec.vo"])
    rep.oblige("build:spec", ok_spec, "" if ok_spec else core.first_error(log))
    model_ok = core.standard_proof_steps(
        rep, PROP, ["Props/C09.vo"],
        regen=[("Gen/Quant.v", lambda: t_quant.translate(str(core.REPO)), core.COQ / "Gen" / "Quant.v")])
    from translator import pins
    pins.oblige(rep, str(core.REPO), "quant", "the counting-loop model (Eql/Quant.v)")
    if model_ok and tier == "thorough":
        core.coqchk(rep, PROP)
    descrs = [replay["case"]] if replay else gen_cases(tier, seed)
    cases = [make_case(d) for d in descrs]
    pairs = [(c.term, core.sx(c.impl)) for c in cases]
    if model_ok:
        codes = core.coq_codes(PROP, HEADER, "qcase", "case_code", pairs, chunk=700)
    else:
        rep.note("model not available; comparing the implementation with the Spec only (search for a failing input)")
        codes = core.coq_codes(PROP, HEADER_SPEC, "qcase", "case_code_spec", pairs, chunk=700)
    bad = []
    for c, code in zip(cases, codes):
        rep.count(repr(c.descr), True)
        if code in (0,):
            continue
        if code == 1:
            rep.note(f"model differs from impl=spec on {c.descr} (harness error: C09 has no fragment exclusions)")
            rep.oblige("correspondence:model", False, f"{c.descr}")
            continue
        bad.append(c)
    rep.samples = [{"case": c.descr, "impl": c.impl} for c in cases[:: max(1, len(cases) // 6)]][:6]
    rep.extra["exhaustive"] = True
    rep.extra["case_space"] = {"tier": tier, "cases": len(cases)}
    for c in bad[:5]:
        exprs = [f"spec_{'the' if c.descr['q'] == 'the' else 'an'} " + c.term.split(" ", 1)[1]]
        try:
            spec = core.coq_eval_sx(PROP, HEADER_SPEC, exprs)[0]
        except Exception as e:  # noqa
            spec = f"<{e}>"
        rep.violation({"kind": "counterexample", "case": c.descr, "impl": c.impl, "spec": spec,
                       "python": c.snippet,
                       "explanation": "outcome encoding: an -> [rows yielded, exception id 0 none/3 Greater/4 Less] or [-1, ctor exception 1 Negative/2 Consistency]; the -> [0,value] | [5] NoSolutionFound | [6] MultipleSolutionFound"})
    if replay is None:
        got = run_nested_scenario()
        rep.count("nested-quantified-subquery", True)
        ok = got == NESTED_EXPECTED
        rep.extra["nested_subquery_scenario"] = {"got": got, "expected": NESTED_EXPECTED}
        if not ok:
            rep.violation({"kind": "counterexample", "case": "nested quantified sub-query over a domain-less variable, outer query "
                           "evaluated with 0, 1, 2, 2 instances of W existing", "impl": got, "spec": NESTED_EXPECTED,
                           "python": "from harness import c09; print(c09.run_nested_scenario())",
                           "explanation": "per inner kind (the / an with AtMost(1)): the outcome of each successive evaluation of the SAME "
                                          "outer query object; a quantifier must see the true number of solutions at every evaluation"})
    # ---- known findings: python-snippet witnesses (constructs outside the counting-loop model), replayed on every run
    if replay is None:
        from harness import eqlcheck
        for f in core.load_findings(PROP):
            try:
                w = json.loads((core.VERIF / f.witness).read_text())
            except Exception as e:  # noqa
                rep.oblige(f"witness:{f.fid}", False, f"cannot read {f.witness}: {e}")
                continue
            if "python" not in w:
                continue          # (fixed C09-a: re-checked by the scenario table above)
            got = eqlcheck.run_python_witness(w["python"])
            fails, as_recorded = got != w["spec"], got == w.get("impl_recorded")
            if f.kind == "open" and fails and as_recorded:
                rep.known(f)
            elif fails:
                rep.violation({"kind": "counterexample", "finding": f.fid, "witness": f.witness, "impl": got, "spec": w["spec"],
                               "impl_recorded": w.get("impl_recorded"), "python": w["python"],
                               "explanation": ("regression: defect repaired in %s is back" % f.commit) if f.kind == "fixed" else
                                              "the witness of a listed finding now fails in a different way than recorded"})
            elif f.kind == "open":
                rep.note(f"finding {f.fid} no longer reproduces (witness now meets the Spec)")
    return rep.finish()
