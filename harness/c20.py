"""C20 -- krrood never extends the lifetime of user objects; its containers do not grow.

Partial: the Coq model (Onto/Registry.v + Onto/Lifetime.v) states what krrood holds (strong / weak references) and
proves that the registry holds nothing and returns to its baseline sizes; whether CPython reclaims an object nobody
holds is observed by the weak-reference census.  Ties:
 (a) model-tied histories (shared with C13) with the census, the five container sizes and the growth of the expression
     table compared after every operation, incl. long create / relate / query / discard loops expressed as histories;
 (b) loops over descriptor-related Person/Company pairs (reference cycles, so the collector is needed): nothing alive
     and every container back to baseline after each round -- or, when the round evaluates an EQL query, exactly the
     retention the model predicts (known finding C20-a)."""
from __future__ import annotations

import json
from typing import List

from . import c13, core
from .core import Report

PROP = "C20"
ACCEPT = {"K_clear": "C13-d"}


def gen_loop_history(rng: core.Rng, iters: int, query: str) -> List[list]:
    classes = [rng.choice([0, 1, 3, 5, 6, 7]) for _ in range(rng.randint(1, 4))]
    rels = [[rng.next() % len(classes), rng.next() % 2, rng.next() % len(classes)] for _ in range(rng.randint(0, 4))]
    h: List[list] = []
    n = 0
    for _ in range(iters):
        ids = list(range(n, n + len(classes)))
        n += len(classes)
        for c in classes:
            h.append(["New", c])
        for a, f, b in rels:
            h.append(["Relate", ids[a], f, ids[b]])
        if query == "registry":
            h.append(["QueryG", rng.choice([0, 1, 6])])
        elif query == "eql":
            h.append(["QueryE", rng.choice([0, 1, 6])] + rng.choice([[], ["attr"], ["setof"]]))
        elif query == "declare":
            h.append(["Declare", rng.choice([0, 1, 6])])   # declared while the instances exist, never evaluated
        for o in ids:
            h.append(["Drop", o])
        h.append(["Sweep"])
    return h


def gen_loop(rng: core.Rng, iters: int, mode: str) -> dict:
    classes = [rng.choice([0, 1, 3, 5, 6, 7]) for _ in range(rng.randint(1, 4))]
    rels = [[rng.next() % len(classes), rng.next() % 2, rng.next() % len(classes)] for _ in range(rng.randint(0, 3))]
    return {"iters": iters, "classes": classes, "rels": rels, "pairs": rng.randint(0, 3), "query": mode}


def loop_snippet(p) -> str:
    return ("import json; from harness import c13\n"
            f"print(json.dumps(c13.run_loop({p!r}))[:3000])   # run with ./check's PYTHONPATH")


def check_loop(p: dict, r: dict):
    """-> (verdict, detail); verdict: 'ok' | 'C20-a1' | 'C20-a2' (exactly the listed finding, nothing else) | 'bad'
    After drop-everything + gc.collect() + sweep of a round:
      none / registry        nothing alive, containers empty, expression tables unchanged;
      eql / declare          nothing alive, containers empty; the expression tables grew by 3 entries per query (C20-a2);
      eql_literal            an instance used as a constant in a condition is wrapped into a Literal: it stays alive, with its node and
                             its self-relations (C20-a3), tables + 6 per round
      eql_domain             let(T, xs) with an EXPLICIT domain keeps the cache of that domain (by design, C03 / C10 rely on it):
                             the instances of T in xs stay alive, with their nodes and relations (C20-a1), tables + 3 (C20-a2)."""
    if "fatal" in r:
        return "bad", r["fatal"]
    mode = p["query"]
    n_a = sum(1 for c in p["classes"] if c != 6)   # instances of A (classes 0..5, 7) are what let(A, ...) ranges over
    n_rel = len({(a, f, b) for a, f, b in p["rels"] if p["classes"][a] != 6 and p["classes"][b] != 6})
    for it, row in enumerate(r["rows"]):
        k = it + 1
        exprs = 0 if mode in ("none", "registry") else (4 if mode == "eql_attr" else 3) * k
        if mode == "eql_literal":
            exprs = 6 * k
            n_self = len({(a, f, b) for a, f, b in p["rels"] if a == 0 and b == 0})
            alive, sizes = k, [k, k, k, k * n_self, k * n_self]
        elif mode == "eql_domain":
            alive, sizes = k * n_a, [k * n_a, k * n_a, k * n_a, k * n_rel, k * n_rel]
        else:
            alive, sizes = 0, [0, 0, 0, 0, 0]
        if row["alive"] != alive or row["sizes"] != sizes or row["exprs"] != exprs or (exprs == 0 and row["rwx"] != 0):
            return "bad", f"round {it}: {row} expected alive={alive} sizes={sizes} exprs={exprs}"
    if mode == "eql_literal":
        return "C20-a3", ""
    if mode == "eql_domain":
        return ("C20-a1" if n_a else "C20-a2"), ""
    return ("ok" if mode in ("none", "registry") else "C20-a2"), ""


def run(tier: str, seed: int, replay=None) -> int:
    rep = Report(PROP, tier, seed, "other")
    rep.trusted = core.COQ_TRUSTED + c13.TRUSTED + [
        "the reference-holding abstraction Onto/Lifetime.v (which structures hold strong / weak references) is hand-written; "
        "it is tied by the census: an instance is alive after drop + gc.collect() iff the model says a cached domain holds it"]
    rep.assume = c13.ASSUME + ["partial: reclamation itself is CPython's decision; the theorems are about what krrood holds"]
    rep.rule = ("corpus + seeded random histories of C13's machine weighted towards EQL queries and drops + create/relate/query/"
                "drop-all/sweep loops as histories (12 rounds quick, 60 thorough; none / registry / EQL query / variable declared but never evaluated) + "
                "C13's 'decl' profile (declare, change the world, evaluate later) + descriptor loops over "
                "Person/Company pairs (30 rounds quick, 200 thorough; none / registry / eql / eql selecting only an attribute of the variable / eql with explicit domain / declared-only query); "
                "non-trivial = >= 4 ops of >= 3 kinds; every loop")
    ok_spec, log = core.coq_make(["Base/Sx.vo", "Onto/RegistrySpec.vo", "Onto/RegistrySpecRun.vo"])
    rep.oblige("build:spec", ok_spec, "" if ok_spec else core.first_error(log))
    model_ok = c13.proof_steps(rep, PROP)
    rng = core.Rng(seed)
    n = 1 if tier == "quick" else 10
    if replay and replay.get("loop") is not None:
        hists, loops = [], [replay["loop"]]
    elif replay and replay.get("case") is not None:
        hists, loops = [replay["case"]], []
    elif replay and (replay.get("roles") is not None or replay.get("grow") is not None or replay.get("rules") is not None):
        hists, loops = [], []
    else:
        r1, r2, r3 = rng.fork(1), rng.fork(2), rng.fork(3)
        hists = c13.corpus_cases(PROP)
        hists += [c13.gen_history(r1, "all", 4, 16 if tier == "quick" else 28) for _ in range(300 * n)]
        hists += [c13.gen_history(r1, "live", 4, 16 if tier == "quick" else 28) for _ in range(250 * n)]
        hists += [c13.gen_history(r1, "livenodrop", 4, 16 if tier == "quick" else 28) for _ in range(100 * n)]
        hists += [c13.gen_history(r1, "churn", 4, 16 if tier == "quick" else 28) for _ in range(300 * n)]
        it = 12 if tier == "quick" else 60
        hists += [c13.gen_history(r1, "decl", 4, 16 if tier == "quick" else 28) for _ in range(250 * n)]
        hists += [gen_loop_history(r2, it, q) for q in ("none", "registry", "eql", "declare") for _ in range(12 if q != "declare" else 8)]
        its = 30 if tier == "quick" else 200
        loops = [gen_loop(r3, its, m) for m in ("none", "registry", "eql", "eql_attr", "eql_domain", "eql_literal", "declare") for _ in range(3 if tier == "quick" else 6)]
    if not model_ok:
        rep.note("model not available; comparing the implementation with the Spec only (search for a failing input)")
    results, codes, hd, inst = c13.decide(rep, PROP, hists, model_ok, "lifetime", ACCEPT)
    rep.extra["distribution"] = c13.distribution(hists)
    rep.extra["reuse"] = c13.reuse_stats(hists, results)
    rep.extra["codes"] = {str(c): list(codes.values()).count(c) for c in (0, 1, 2, 3)}
    _, lres = c13.run_jobs([("loop", p) for p in loops], chunk=2, procs=8)
    nbad = 0
    verdicts = {}
    for p, r in zip(loops, lres):
        rep.count("loop:" + json.dumps(p), True)
        v, detail = check_loop(p, r)
        verdicts[v] = verdicts.get(v, 0) + 1
        if v.startswith("C20-a"):
            inst[v] = inst.get(v, 0) + 1
        if v == "bad":
            nbad += 1
            if nbad <= 3:
                rep.violation({"kind": "counterexample", "loop": p, "impl": {"rows": r.get("rows", [])[:6]}, "detail": detail,
                               "python": loop_snippet(p),
                               "explanation": "after dropping everything + gc.collect() + sweep, instances are still alive or krrood's "
                                              "containers did not return to baseline (rows: alive, sizes = nodes/by_id/by_class/edges/"
                                              "rel_index, growth of _id_expression_map_ and RWXNode._graph), beyond what finding C20-a predicts"})
    rep.extra["loops"] = {"cases": len(loops), "verdicts": verdicts}
    # (e) rule queries (conclusions that infer instances; refinement / alternative branches; a selected inferred variable)
    if replay and replay.get("rules") is not None:
        rules = [replay["rules"]]
    elif replay:
        rules = []
    else:
        rules = [{"rounds": 2, "shape": sh, "evaluations": e} for sh, e in
                 (("plain", 1), ("plain", 2), ("inferred_selected", 1), ("inferred_selected", 2), ("refinement", 1), ("alternative", 1))]
        # an abandoned / a failed evaluation first (the iterator dropped after k results; a condition that raises), then complete ones
        rules += [{"rounds": 2, "shape": sh, "evaluations": e, "abandon": k} for sh, e, k in
                  (("refinement", 1, 1), ("refinement", 0, 1), ("alternative", 1, 2), ("inferred_selected", 1, 1), ("plain", 0, 2))]
        rules += [{"rounds": 2, "shape": sh, "evaluations": e, "fail": True} for sh, e in (("refinement", 1), ("alternative", 0))]
    rule_f = {}
    for f in core.load_findings(PROP):
        w = json.loads((core.VERIF / f.witness).read_text())
        if "rules" in w and f.kind == "open":
            rule_f[json.dumps(w["rules"], sort_keys=True)] = (f, w)
    _, rres = c13.run_jobs([("rules", p) for p in rules], chunk=2) if rules else (None, [])
    nbad_rules = 0
    for p, r in zip(rules, rres):
        key = json.dumps(p, sort_keys=True)
        rep.count("rules:" + key, True)
        clean = "fatal" not in r and all(row["alive"] == 0 and row["visible"] == 0 and row["nodes"] == 0
                                         and row["results"] == (["failed"] if p.get("fail") else []) + [3] * p["evaluations"]
                                         for row in r["rows"])
        if clean:
            if key in rule_f:
                rep.note(f"finding {rule_f[key][0].fid}: witness no longer fails (appears repaired)")
            continue
        if "fatal" not in r and key in rule_f and r["rows"] == rule_f[key][1]["defect_rows"]:
            inst[rule_f[key][0].fid] = inst.get(rule_f[key][0].fid, 0) + 1
            if not replay:
                rep.known(rule_f[key][0])
            continue
        nbad_rules += 1
        rep.violation({"kind": "counterexample", "rules": p, "impl": r, "python": "import json; from harness import c13\n"
                       f"print(json.dumps(c13.run_rules({p!r}), indent=1))   # run with ./check's PYTHONPATH",
                       "explanation": "a rule query was built, evaluated and dropped with everything it ranged over: per round "
                                      "[number of results per evaluation, instances still alive, instances a fresh domain-less variable "
                                      "still sees, graph nodes] -- expected 3 results, nothing alive / visible / registered"})
    rep.extra["rules"] = {"cases": len(rules), "failed": nbad_rules}
    # open findings whose witness is a loop (C20-a1, C20-a2): still failing exactly as listed -> KNOWN-FINDING line
    if not replay:
        lf = [f for f in core.load_findings(PROP) if "loop" in json.loads((core.VERIF / f.witness).read_text())]
        lf = [f for f in lf if f.fid not in inst or True]
        lw = [json.loads((core.VERIF / f.witness).read_text())["loop"] for f in lf]
        _, lr = c13.run_jobs([("loop", p) for p in lw], chunk=2) if lw else (None, [])
        for f, p, r in zip(lf, lw, lr):
            rep.count("kf:" + f.fid, True)
            v, detail = check_loop(p, r)
            if f.kind == "open" and v == f.fid:
                rep.known(f)
            elif f.kind == "open" and v == "ok":
                rep.note(f"finding {f.fid}: witness no longer fails (appears repaired)")
            elif f.kind == "fixed" and v in ("ok", "C20-a2"):
                pass
            else:
                rep.violation({"kind": "counterexample", "loop": p, "impl": {"rows": r.get("rows", [])[:6]}, "detail": detail,
                               "finding": f.fid, "python": loop_snippet(p),
                               "explanation": "witness of a listed finding behaves differently from what is listed"})
    # (c) role-taker relations: the edge (company -> role) survives while the role taker leaves
    if replay and replay.get("roles") is not None:
        roles = [replay["roles"]]
    elif replay:
        roles = []
    else:
        r4 = rng.fork(4)
        roles = [{"iters": 6 if tier == "quick" else 40, "hires": r4.randint(1, 3), "mode": m, "keep_company": k}
                 for m in ("fire", "handover") for k in (True, False)]
    _, rres = c13.run_jobs([("roles", p) for p in roles], chunk=2, procs=8) if roles else (None, [])
    nbad = 0
    for p, r in zip(roles, rres):
        rep.count("roles:" + json.dumps(p), True)
        bad = None
        if "fatal" in r:
            bad = r["fatal"]
        else:
            for it, row in enumerate(r["rows"]):
                if not row["inferred"]:
                    bad = f"round {it}: the role-taker inference did not happen: {row}"
                elif row["alive_before_sweep"] or row["alive_after_sweep"]:
                    bad = f"round {it}: persons / role objects the program dropped are still alive: {row}"
                elif row["nodes"] != row["live_nodes"] or row["by_id"] != row["live_nodes"]:
                    bad = f"round {it}: after the sweep the graph / id index keep entries of reclaimed instances: {row}"
                if bad:
                    break
        if bad:
            nbad += 1
            if nbad <= 2:
                rep.violation({"kind": "counterexample", "roles": p, "impl": {"rows": r.get("rows", [])[:4]}, "detail": bad,
                               "python": "import json; from harness import c13\n"
                                         f"print(json.dumps(c13.run_roles({p!r}), indent=1))   # run with ./check's PYTHONPATH",
                               "explanation": "ceo = CEO(person); ceo.head_of = company (inference through the role taker), then the program "
                                              "drops the person / the role object while the company lives on: krrood must hold neither"})
    rep.extra["roles"] = {"cases": len(roles), "failed": nbad}
    # (d) the expression tree of ONE query object grows between evaluations (a conclusion with a new domain-less variable is added)
    if replay and replay.get("grow") is not None:
        grow = [replay["grow"]]
    elif replay:
        grow = []
    else:
        grow = [{"rounds": 3 if tier == "quick" else 20, "extend_after": e, "evaluations": n} for e in (0, 1, 2) for n in (1, 2)]
    c13.scenario_jobs(rep, "grow", grow, "one query object evaluated, then extended with a conclusion that introduces a new domain-less "
                      "variable, evaluated again, everything dropped + gc.collect() + sweep: instances are still alive / the symbol graph "
                      "grew (the evaluation's forget / release walk has to reach variables added after the first evaluation)")
    rep.extra["known_finding_instances"] = inst
    rep.samples = [{"case": h[:30]} for h in hists[-2:]] + [{"loop": p} for p in loops[:2]]
    if not (replay and (replay.get("case") is not None or replay.get("loop") is not None or replay.get("roles") is not None or replay.get("grow") is not None or replay.get("rules") is not None)):
        c13.replay_findings(rep, PROP, model_ok, ACCEPT)
    return rep.finish()
