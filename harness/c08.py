"""C08 -- rule trees follow except-if / else-if / also-if semantics.

Tie: correspondence.  A rule program is built with the real `with`-blocks through krrood's public API
(`an`, `entity`, `let`, `inference`, `Add`, `refinement`, `alternative`, `next_rule`) and evaluated in worker subprocesses;
the same program is run through the Coq model (Eql/RuleBuild.v heap surgery + Eql/RuleEval.v selector evaluation, `model_sx`)
and the Spec (Eql/RuleSpec.v `rdr`, `spec_sx`) by vm_compute; `fragW_sx` says whether it lies in the ordered fragments Fx
(C08_rules / C08_rules_next / C08_rules_next2) and whether it is in the unsettled class `later_ref_next`; every other program
lies in the fragment of C08_rules_next_all (next_rule anywhere, set of instances).
Decision: impl != spec -> VIOLATION, except in the unsettled class (model only, never an alarm); a class with an OPEN listed
finding (none at present) counts instances only when impl = model.  Half of the programs written in two `with query:` blocks
are evaluated once between the blocks (C08-j, repaired by /repo 8d7ea4d).
A second stream of TWO-variable programs (see "two-variable rule programs" below) is compared three ways: implementation,
two-variable model (Eql/RuleEval2.v) and Spec (Eql/RuleSpec2.v); `frag2_sx` says whether the case lies in the fragment of
C08_rules2; two-variable programs with next_rule are compared with model and Spec as well.

Case (JSON):  {"world": [[a, b], ...], "prog": RULE}
RULE        :  {"conds": [ATOM, ...] (>= 1), "tag": int | None, "body": [[KIND, RULE], ...]}   KIND in "R" "A" "N"
ATOM        :  [attr, op, rk, rv]   meaning  x.<attr> <op> (rv if rk == 0 else x.<attr rv>)
               attr in 0 (a) / 1 (b); op in 0 '==', 1 '!=', 2 '<', 3 '<=', 4 '>', 5 '>='
Outcome     :  [0, sorted [[tag, index of the element the instance was built from], ...], rows of instance OBJECTS that were
                returned a second time]  |  [1, exception code]
Run as a worker:  python -m harness.c08   (reads a JSON list of cases on stdin, writes a JSON list of outcomes)."""
from __future__ import annotations

import json
import operator
import os
import sys
from dataclasses import dataclass

NTAGS = 16
ATTRS = ("a", "b")
OPS = (operator.eq, operator.ne, operator.lt, operator.le, operator.gt, operator.ge)
OPNAMES = ("==", "!=", "<", "<=", ">", ">=")
KINDS = {"R": "refinement", "A": "alternative", "N": "next_rule"}


@dataclass(eq=False)
class P:
    a: int
    b: int = 0
    uid: int = -1            # position in the world (used when a conclusion is built from an attribute of x: "concl_attr")


@dataclass(eq=False)
class Q(P):
    """elements with b == 1 are instances of Q when the case writes some conditions in another form ("forms")"""


@dataclass(eq=False)
class D:
    """a second variable the base rule joins over ("empty_join"): its domain is empty / no value of it ever matches"""
    v: int


@dataclass(eq=False)
class View:
    p: P = None


VIEWS = [dataclass(eq=False)(type(f"V{i}", (View,), {})) for i in range(NTAGS)]
TAG_OF = {c: i for i, c in enumerate(VIEWS)}


@dataclass(eq=False)
class ViewU:
    """conclusions built from an ATTRIBUTE of the rule variable: inference(VU<i>)(uid=x.uid)  ("concl_attr")"""
    uid: int = None


VIEWS_U = [dataclass(eq=False)(type(f"VU{i}", (ViewU,), {})) for i in range(NTAGS)]
TAG_OF.update({c: i for i, c in enumerate(VIEWS_U)})


@dataclass(eq=False)
class ViewF:
    """inferred instances that are FALSY (a container-like view that is empty)  ("falsy_views")"""
    p: P = None

    def __len__(self):
        return 0


VIEWS_F = [dataclass(eq=False)(type(f"VF{i}", (ViewF,), {})) for i in range(NTAGS)]
TAG_OF.update({c: i for i, c in enumerate(VIEWS_F)})


@dataclass(eq=False)
class Box:
    """a collection the rule variable is taken from: x = flatten(box.parts)  ("boxes")"""
    parts: list


_SYM_VIEWS = []


def sym_views():
    """view classes that are Symbols, for a selected variable declared with let(<Symbol type>, domain=None) ("selected_let")"""
    if not _SYM_VIEWS:
        from dataclasses import make_dataclass
        from krrood.entity_query_language.predicate import Symbol
        base = make_dataclass("SView", [("p", P, None)], bases=(Symbol,), eq=False)
        subs = [make_dataclass(f"SV{i}", [], bases=(base,), eq=False) for i in range(NTAGS)]
        _SYM_VIEWS.extend([base, subs])
        for i, c0 in enumerate(subs):
            TAG_OF[c0] = i
    return _SYM_VIEWS


def exc_code(e: BaseException) -> int:
    return sum(ord(c) for c in type(e).__name__) % 9973


def run_case(case) -> list:
    from krrood.entity_query_language.entity import let, entity, inference
    from krrood.entity_query_language.quantify_entity import an
    from krrood.entity_query_language.conclusion import Add
    from krrood.entity_query_language import rule as R
    from krrood.entity_query_language.symbolic import SymbolicExpression

    SymbolicExpression._symbolic_expression_stack_.clear()
    xs = [(Q if (case.get("forms") and b == 1) else P)(a, b, i0) for i0, (a, b) in enumerate(case["world"])]
    keep = []
    index = {id(p): i for i, p in enumerate(xs)}
    try:
        view_classes = VIEWS
        if case.get("boxes"):
            # the rule variable is the element of a flattened collection
            from krrood.entity_query_language.entity import flatten
            bx, k0 = [], 0
            for nparts in case["boxes"]:
                bx.append(Box(xs[k0:k0 + nparts]))
                k0 += nparts
            keep.append(bx)
            box = let(Box, bx, name="box")
            x = flatten(box.parts)
        else:
            x = let(P, xs, name="x")
        if case.get("selected_let"):
            # the selected variable is declared like in the repository's rule tests: let(<Symbol type>, domain=None)
            from krrood.entity_query_language.symbol_graph import SymbolGraph
            SymbolGraph().clear()
            sbase, view_classes = sym_views()
            views = let(sbase, domain=None)
        elif case.get("concl_attr"):
            view_classes = VIEWS_U
            views = inference(ViewU)()
        elif case.get("falsy_views"):
            view_classes = VIEWS_F
            views = inference(ViewF)()
        else:
            views = inference(View)()
        const_tags = case.get("const_tags") or []

        def conds_of(rule):
            # "form": the same condition written differently (the Coq terms keep the atom)
            #   1: the single atom `x.b == 1` written as the predicate HasType(x, Q)
            #   2: the single atom `x.<attr> != v` written as not_(x.<attr> == v)
            if rule.get("form") == 1:
                from krrood.entity_query_language.predicate import HasType
                assert rule["conds"] == [[1, 0, 0, 1]]
                return [HasType(x, Q)]
            if rule.get("form") == 2:
                from krrood.entity_query_language.entity import not_
                (attr, op, rk, rv), = rule["conds"]
                assert op == 1 and rk == 0
                return [not_(getattr(x, ATTRS[attr]) == rv)]
            out = []
            for attr, op, rk, rv in rule["conds"]:
                lhs = getattr(x, ATTRS[attr])
                rhs = rv if rk == 0 else getattr(x, ATTRS[rv])
                out.append(OPS[op](lhs, rhs))
            return out

        head = conds_of(case["prog"])
        if case.get("empty_join") == 1:
            # the base rule also joins over a variable with an EMPTY domain that no other branch mentions
            d = let(D, [], name="d")
            head = head + [d.v == x.a]
        elif case.get("empty_join") == 3:
            # the base rule joins over a variable with a NON-empty domain that matches nothing: false rows exist, so the
            # alternatives of the chain must fire too
            d = let(D, [D(-99)], name="d")
            head = head + [d.v == x.a]
        elif case.get("empty_join") == 2:
            # the base rule starts with an exists(...) that holds for no element (Exists drops its false rows)
            from krrood.entity_query_language.entity import exists
            d = let(D, [D(-99)], name="d")
            head = [exists(d, d.v == x.a)] + head
        elif case.get("quant") is not None:
            # a quantified conjunct in the base rule that is false for SOME elements: exists d. d.v == x.a over the
            # domain {quant, .., 3}, i.e. x.a >= quant for the attribute values the generator uses (-1..3)
            from krrood.entity_query_language.entity import exists
            d = let(D, [D(v) for v in range(case["quant"], 4)], name="d")
            head = [exists(d, d.v == x.a)] + head
        q = an(entity(views, *head))

        def body(rule):
            if rule["tag"] is not None:
                if rule["tag"] in const_tags:
                    Add(views, inference(view_classes[rule["tag"]])())      # a conclusion that mentions no variable
                elif case.get("concl_attr"):
                    Add(views, inference(view_classes[rule["tag"]])(uid=x.uid))     # built from an attribute of x
                else:
                    Add(views, inference(view_classes[rule["tag"]])(p=x))
            for kind, sub in rule["body"]:
                with getattr(R, KINDS[kind])(*conds_of(sub)):
                    body(sub)

        st = case.get("stages")
        if not st:
            with q:
                body(case["prog"])
        else:
            # the same program written in two `with q:` blocks: [split index of the top-level body, block that holds the Add]
            k, add_stage = st
            prog = case["prog"]
            for stage, part in ((0, prog["body"][:k]), (1, prog["body"][k:])):
                with q:
                    body({"conds": prog["conds"], "tag": prog["tag"] if stage == add_stage else None, "body": part})
                if stage == 0:
                    for _ in range(case.get("mid_evals", 0)):      # the query is evaluated before the second block is written
                        keep.extend(q.evaluate())
        for _ in range(case.get("evals", 1) - 1):      # the finished query is evaluated completely before the observed evaluation
            keep.extend(q.evaluate())
        if case.get("abandon") is not None:            # experiments only (C03): an iterator advanced k steps, then abandoned
            it = iter(q.evaluate())
            for _ in range(case["abandon"]):
                try:
                    keep.append(next(it))
                except StopIteration:
                    break
            if case.get("abandon_keep"):
                keep.append(it)                        # abandoned but still referenced
            else:
                del it
                import gc
                gc.collect()
        out, again, seen = [], [], set()
        for v in q.evaluate():
            row = [TAG_OF.get(type(v), -1), v.uid if case.get("concl_attr") else index.get(id(v.p), -1)]
            if id(v) in seen:
                again.append(row)          # the very same instance object returned a second time (C08-f)
            else:
                seen.add(id(v))
                out.append(row)
            keep.append(v)
        return [0, sorted(out), sorted(again)]
    except Exception as e:  # noqa
        return [1, exc_code(e)]
    finally:
        SymbolicExpression._symbolic_expression_stack_.clear()


def snippet(case) -> str:
    """A self-contained runnable Python program reproducing the case against the public API."""
    lines = [
        "from dataclasses import dataclass",
        "from krrood.entity_query_language.entity import let, entity, inference, not_",
        "from krrood.entity_query_language.predicate import HasType",
        "from krrood.entity_query_language.quantify_entity import an",
        "from krrood.entity_query_language.conclusion import Add",
        "from krrood.entity_query_language.rule import refinement, alternative, next_rule",
        "@dataclass(eq=False)\nclass P:\n    a: int\n    b: int = 0\n    uid: int = -1",
        "@dataclass(eq=False)\nclass Q(P): ...",
        "@dataclass(eq=False)\nclass View:\n    p: P = None",
    ]
    tags = []

    def collect(r):
        if r["tag"] is not None:
            tags.append(r["tag"])
        for _, s in r["body"]:
            collect(s)

    collect(case["prog"])
    for t in sorted(set(tags)):
        lines.append(f"@dataclass(eq=False)\nclass V{t}(View): ...")
    lines.append("xs = [" + ", ".join(f"{'Q' if (case.get('forms') and b == 1) else 'P'}({a}, {b})" for a, b in case["world"]) + "]")
    if case.get("boxes"):
        lines.append("from krrood.entity_query_language.entity import flatten")
        lines.append("@dataclass(eq=False)\nclass Box:\n    parts: list")
        cuts, k0 = [], 0
        for nparts in case["boxes"]:
            cuts.append(f"Box(xs[{k0}:{k0 + nparts}])")
            k0 += nparts
        lines.append("box = let(Box, [" + ", ".join(cuts) + "], name='box'); x = flatten(box.parts)")
    else:
        lines.append("x = let(P, xs, name='x')")
    if case.get("selected_let"):
        lines.append("# (View and the V<i> classes must derive from krrood.entity_query_language.predicate.Symbol for this line)")
        lines.append("views = let(View, domain=None)")
    else:
        lines.append("views = inference(View)()")

    def conds(r):
        if r.get("form") == 1:
            return "HasType(x, Q)"
        if r.get("form") == 2:
            (a, _o, _rk, rv), = r["conds"]
            return f"not_(x.{ATTRS[a]} == {rv})"
        return ", ".join(f"x.{ATTRS[a]} {OPNAMES[o]} " + (str(rv) if rk == 0 else f"x.{ATTRS[rv]}") for a, o, rk, rv in r["conds"])

    if case.get("empty_join") == 1:
        lines.append("@dataclass(eq=False)\nclass D:\n    v: int")
        lines.append("d = let(D, [], name='d')        # the base rule joins over a variable with an empty domain")
        lines.append(f"q = an(entity(views, {conds(case['prog'])}, d.v == x.a))")
    elif case.get("empty_join") == 3:
        lines.append("@dataclass(eq=False)\nclass D:\n    v: int")
        lines.append("d = let(D, [D(-99)], name='d')  # the base rule joins over a variable that matches nothing")
        lines.append(f"q = an(entity(views, {conds(case['prog'])}, d.v == x.a))")
    elif case.get("empty_join") == 2:
        lines.append("from krrood.entity_query_language.entity import exists")
        lines.append("@dataclass(eq=False)\nclass D:\n    v: int")
        lines.append("d = let(D, [D(-99)], name='d')  # the base rule starts with an exists(...) that holds nowhere")
        lines.append(f"q = an(entity(views, exists(d, d.v == x.a), {conds(case['prog'])}))")
    elif case.get("quant") is not None:
        lines.append("from krrood.entity_query_language.entity import exists")
        lines.append("@dataclass(eq=False)\nclass D:\n    v: int")
        lines.append(f"d = let(D, [D(v) for v in range({case['quant']}, 4)], name='d')  # exists d. d.v == x.a  <=>  x.a >= {case['quant']} (values are -1..3)")
        lines.append(f"q = an(entity(views, exists(d, d.v == x.a), {conds(case['prog'])}))")
    else:
        lines.append(f"q = an(entity(views, {conds(case['prog'])}))")
    def body(r, ind):
        pad = "    " * ind
        wrote = False
        if r["tag"] is not None:
            if r["tag"] in (case.get("const_tags") or []):
                lines.append(f"{pad}Add(views, inference(V{r['tag']})())        # mentions no variable of the binding")
            else:
                if case.get("concl_attr"):
                    lines.append(f"{pad}Add(views, inference(V{r['tag']})(uid=x.uid))   # (View needs a field uid: int = None; xs[i].uid must be i)")
                else:
                    lines.append(f"{pad}Add(views, inference(V{r['tag']})(p=x))"
                                 + ("   # (View must be falsy: def __len__(self): return 0)" if case.get("falsy_views") else ""))
            wrote = True
        for k, s in r["body"]:
            lines.append(f"{pad}with {KINDS[k]}({conds(s)}):")
            body(s, ind + 1)
            wrote = True
        if not wrote:
            lines.append(f"{pad}pass")

    st = case.get("stages")
    if not st:
        lines.append("with q:")
        body(case["prog"], 1)
    else:
        k, add_stage = st
        prog = case["prog"]
        for stage, part in ((0, prog["body"][:k]), (1, prog["body"][k:])):
            lines.append("with q:")
            body({"conds": prog["conds"], "tag": prog["tag"] if stage == add_stage else None, "body": part}, 1)
            if stage == 0:
                for _ in range(case.get("mid_evals", 0)):
                    lines.append("list(q.evaluate())        # the query is evaluated before the second block is written")
    for _ in range(case.get("evals", 1) - 1):
        lines.append("list(q.evaluate())        # evaluated completely before the observed evaluation")
    lines.append("print(sorted((type(v).__name__, xs.index(v.p)) for v in q.evaluate()))")
    return "\n".join(lines)


# ------------------------------------------------------------------ Gallina terms of a case
CMPS = ("CEq", "CNe", "CLt", "CLe", "CGt", "CGe")
KCOQ = {"R": "KRef", "A": "KAlt", "N": "KNext"}


def z(v: int) -> str:
    return f"({v})%Z" if v < 0 else f"{v}%Z"


def atom_term(a) -> str:
    attr, op, rk, rv = a
    rhs = f"(RConst {z(rv)})" if rk == 0 else f"(RAttr {rv})"
    return f"(Atom {attr} {CMPS[op]} {rhs})"


UNSAT = [[0, 2, 0, 0], [0, 4, 0, 0]]        # x.a < 0 and x.a > 0


def coq_prog(case):
    """the program as the Coq side reads it: with "empty_join" the base rule holds for no element"""
    if case.get("empty_join"):
        d = dict(case["prog"])
        d["conds"] = UNSAT
        d.pop("form", None)
        return d
    if case.get("quant") is not None:
        d = dict(case["prog"])
        d["conds"] = [[0, 5, 0, case["quant"]]] + d["conds"]      # x.a >= quant and the written conditions
        d.pop("form", None)
        return d
    return case["prog"]


def quant_defect_prog(case):
    """open finding C08-l (cause: C01-j, exists/for_all never yield a false result): for an element for which the
    quantified conjunct of the base rule is false the base rule yields NO row, so no alternative of the top-level chain is
    ever tried for it; the next_rules of the chain are (second pass of Next).  For those elements the implementation
    behaves like this program: base rule and every alternative of the top-level chain can never hold."""
    d = json.loads(json.dumps(case["prog"]))
    d["conds"] = UNSAT
    d.pop("form", None)

    def chain(r):
        for k, sub in r["body"]:
            if k in "AN":
                if k == "A":
                    sub["conds"] = UNSAT
                    sub.pop("form", None)
                chain(sub)

    chain(d)
    return d


def quant_predicted(case, spec_full, spec_defect):
    """the recorded defect behaviour: the Spec where the quantified conjunct holds, [quant_defect_prog] where it does not"""
    t = case["quant"]
    holds = [a >= t for a, _b in case["world"]]
    return sorted([list(r) for r in spec_full if holds[r[1]]] + [list(r) for r in spec_defect if not holds[r[1]]])


def rule_term(r) -> str:
    conds = "[" + "; ".join(atom_term(a) for a in r["conds"]) + "]"
    tag = "None" if r["tag"] is None else f"(Some {r['tag']})"
    body = "[" + "; ".join(f"({KCOQ[k]}, {rule_term(s)})" for k, s in r["body"]) + "]"
    return f"(Rule {conds} {tag} {body})"


def world_term(w) -> str:
    return "[" + "; ".join(f"({z(a)}, {z(b)})" for a, b in w) + "]"


# ------------------------------------------------------------------ two-variable rule programs (implementation vs Spec)
# c ranges over connection-like objects C2(k, parent), b over bodies B2(a).  Exactly one refinement J of the program
# "joins" b (`b == c.parent` is its first condition); atoms with attr 1 mean b.a and may occur only in J and below it;
# every rule carries "sel": which variables its conclusion is built from (0: p=c, 1: q=b, 2: p=c and q=b; 1/2 only in
# J and below).  Since b is determined by c, the Spec is the one-variable `rdr` over the elements (c.k, c.parent.a), one
# per connection; an inferred instance is (tag, index of c or -1, index of b or -1) and instances are compared as a SET
# (the property does not say whether two bindings that agree on every constructor argument give one instance or two).
@dataclass(eq=False)
class B2:
    a: int


@dataclass(eq=False)
class C2:
    k: int
    parent: B2 = None


@dataclass(eq=False)
class View2:
    p: C2 = None
    q: B2 = None


VIEWS2 = [dataclass(eq=False)(type(f"W{i}", (View2,), {})) for i in range(NTAGS)]
TAG2_OF = {c: i for i, c in enumerate(VIEWS2)}


def run_case2(case) -> list:
    from krrood.entity_query_language.entity import let, entity, inference
    from krrood.entity_query_language.quantify_entity import an
    from krrood.entity_query_language.conclusion import Add
    from krrood.entity_query_language import rule as R
    from krrood.entity_query_language.symbolic import SymbolicExpression

    SymbolicExpression._symbolic_expression_stack_.clear()
    bs = [B2(a) for a in case["bs"]]
    cs = [C2(k, bs[pi]) for k, pi in case["cs"]]
    ci = {id(x): i for i, x in enumerate(cs)}
    bi = {id(x): i for i, x in enumerate(bs)}
    keep = []
    try:
        c = let(C2, cs, name="c")
        b = let(B2, bs, name="b")
        views = inference(View2)()

        def operand(attr):
            return c.k if attr == 0 else b.a

        def conds_of(rule):
            out = [b == c.parent] if rule.get("join") else []
            for attr, op, rk, rv in rule["conds"]:
                out.append(OPS[op](operand(attr), rv if rk == 0 else operand(rv)))
            return out

        def conclusion(rule):
            kw = {0: {"p": c}, 1: {"q": b}, 2: {"p": c, "q": b}}[rule.get("sel", 0)]
            return inference(VIEWS2[rule["tag"]])(**kw)

        q = an(entity(views, *conds_of(case["prog"])))

        def body(rule):
            if rule["tag"] is not None:
                Add(views, conclusion(rule))
            for kind, sub in rule["body"]:
                with getattr(R, KINDS[kind])(*conds_of(sub)):
                    body(sub)

        with q:
            body(case["prog"])
        for _ in range(case.get("evals", 1) - 1):
            keep.extend(q.evaluate())
        out, again, seen = [], [], set()
        for v in q.evaluate():
            row = [TAG2_OF.get(type(v), -1), ci.get(id(v.p), -1), bi.get(id(v.q), -1)]
            (again if id(v) in seen else out).append(row)
            seen.add(id(v))
            keep.append(v)
        return [0, sorted(out), sorted(again)]
    except Exception as e:  # noqa
        return [1, exc_code(e)]
    finally:
        SymbolicExpression._symbolic_expression_stack_.clear()


def encode2(case):
    """the one-variable program / world the Spec is run on"""
    def strip(r):
        return {"conds": r["conds"], "tag": r["tag"], "body": [[k, strip(s)] for k, s in r["body"]]}
    return {"prog": strip(case["prog"]), "world": [[k, case["bs"][pi]] for k, pi in case["cs"]]}


def project2(case, spec_rows):
    """Spec rows (tag, connection index) -> set of instances (tag, c index or -1, b index or -1)"""
    sel = {}

    def walk(r):
        if r["tag"] is not None:
            sel[r["tag"]] = r.get("sel", 0)
        for _, s in r["body"]:
            walk(s)

    walk(case["prog"])
    out = set()
    for t, i in spec_rows:
        pi = case["cs"][i][1]
        out.add({0: (t, i, -1), 1: (t, -1, pi), 2: (t, i, pi)}[sel[t]])
    return sorted(list(x) for x in out)


def spec2_matches(impl, want) -> bool:
    if impl[0] != 0 or impl[2]:
        return False
    return sorted(list(x) for x in {tuple(r) for r in impl[1]}) == want


def gen_case2(rng, allow_next=False):
    vals = list(range(0, 4))
    # skeleton without next_rule, at least one refinement; prefer refinement-in-refinement
    for _ in range(50):
        forest = random_forest(rng, rng.randint(1, 5), 3)
        prog = fill(rng, forest, [0], vals, notag=0.0)
        if "N" in sig_of(prog) and not allow_next:
            continue
        # candidates for J: refinement branches whose own block has no alternative
        cands = []

        def walk(r):
            for k, s in r["body"]:
                if k == "R" and all(k2 == "R" for k2, _ in s["body"]):
                    cands.append(s)
                walk(s)

        walk(prog)
        if cands:
            break
    else:
        prog = fill(rng, [("R", [("R", [])])], [0], vals, notag=0.0)
        cands = [prog["body"][0][1]]
    J = rng.choice(cands)

    def set_c_only(r):
        r["sel"] = 0
        r["conds"] = [[0, op, 0, rv if rk == 0 else rng.choice(vals)] for _, op, rk, rv in r["conds"]]
        for _, s in r["body"]:
            if s is not J:
                set_c_only(s)

    def set_below(r):
        r["sel"] = rng.choice([0, 1, 1, 2, 2])
        r["conds"] = [[rng.choice([0, 1, 1]), op, rk, (rv if rk == 0 else rng.randint(0, 1))] for _, op, rk, rv in r["conds"]]
        for _, s in r["body"]:
            set_below(s)

    set_c_only(prog)
    set_below(J)
    J["join"] = True
    nb = rng.randint(1, 4)
    bs = [rng.choice(vals) for _ in range(nb)]
    cs = [[rng.choice(vals), rng.randint(0, nb - 1)] for _ in range(rng.randint(1, 7))]
    return {"two": True, "prog": prog, "bs": bs, "cs": cs}


def snippet2(case) -> str:
    lines = [
        "from dataclasses import dataclass",
        "from krrood.entity_query_language.entity import let, entity, inference",
        "from krrood.entity_query_language.quantify_entity import an",
        "from krrood.entity_query_language.conclusion import Add",
        "from krrood.entity_query_language.rule import refinement, alternative, next_rule",
        "@dataclass(eq=False)\nclass B2:\n    a: int",
        "@dataclass(eq=False)\nclass C2:\n    k: int\n    parent: B2 = None",
        "@dataclass(eq=False)\nclass View2:\n    p: C2 = None\n    q: B2 = None",
    ]
    tags = []

    def collect(r):
        if r["tag"] is not None:
            tags.append(r["tag"])
        for _, s in r["body"]:
            collect(s)

    collect(case["prog"])
    for t in sorted(set(tags)):
        lines.append(f"@dataclass(eq=False)\nclass W{t}(View2): ...")
    lines.append("bs = [" + ", ".join(f"B2({a})" for a in case["bs"]) + "]")
    lines.append("cs = [" + ", ".join(f"C2({k}, bs[{pi}])" for k, pi in case["cs"]) + "]")
    lines.append("c = let(C2, cs, name='c'); b = let(B2, bs, name='b'); views = inference(View2)()")
    name = {0: "c.k", 1: "b.a"}

    def conds(r):
        out = ["b == c.parent"] if r.get("join") else []
        out += [f"{name[a]} {OPNAMES[o]} " + (str(rv) if rk == 0 else name[rv]) for a, o, rk, rv in r["conds"]]
        return ", ".join(out)

    lines.append(f"q = an(entity(views, {conds(case['prog'])}))")
    lines.append("with q:")

    def body(r, ind):
        pad = "    " * ind
        kw = {0: "p=c", 1: "q=b", 2: "p=c, q=b"}[r.get("sel", 0)]
        lines.append(f"{pad}Add(views, inference(W{r['tag']})({kw}))")
        for k, s in r["body"]:
            lines.append(f"{pad}with {KINDS[k]}({conds(s)}):")
            body(s, ind + 1)

    body(case["prog"], 1)
    lines.append("print(sorted((type(v).__name__, cs.index(v.p) if v.p else -1, bs.index(v.q) if v.q else -1) for v in q.evaluate()))")
    return "\n".join(lines)


# ------------------------------------------------------------------ the check
PROP = "C08"
HEADER = """From Coq Require Import List ZArith.
From Krrood Require Import Base.Sx Eql.RuleSpec Eql.RuleEval Eql.RuleBuild Eql.RuleSx.
Import ListNotations. Open Scope nat_scope."""
HEADER_SPEC = """From Coq Require Import List ZArith.
From Krrood Require Import Base.Sx Eql.RuleSpec.
Import ListNotations. Open Scope nat_scope.
Definition spec_sx (prog : rule) (W : list elem) : sx :=
  SL (map (fun ti => SL [SN (fst ti); SN (snd ti)]) (rdr prog W))."""


def parse_sig(sig: str):
    """'R{AA}A' -> [("R", [("A", []), ("A", [])]), ("A", [])]"""
    pos = 0

    def forest():
        nonlocal pos
        out = []
        while pos < len(sig) and sig[pos] in "RAN":
            k = sig[pos]
            pos += 1
            sub = []
            if pos < len(sig) and sig[pos] == "{":
                pos += 1
                sub = forest()
                assert sig[pos] == "}"
                pos += 1
            out.append((k, sub))
        return out

    return forest()


def sig_of(rule) -> str:
    return "".join(k + ("{" + sig_of(s) + "}" if s["body"] else "") for k, s in rule["body"])


def n_branches(rule) -> int:
    return sum(1 + n_branches(s) for _, s in rule["body"])


def nesting(rule) -> int:
    return 0 if not rule["body"] else 1 + max(nesting(s) for _, s in rule["body"])


def random_forest(rng, n, depth):
    """ordered forest with n nodes, nesting <= depth, kinds uniform"""
    if n == 0 or depth == 0:
        return []
    out = []
    left = n
    while left > 0:
        k = rng.randint(0, left - 1) if depth > 1 else 0      # nodes below this one
        out.append((rng.choice("RRAAN"), random_forest(rng, k, depth - 1)))
        left -= 1 + len_forest(out[-1][1])
    return out


def len_forest(f) -> int:
    return sum(1 + len_forest(s) for _, s in f)


def gen_atoms(rng, vals):
    n = 1 if rng.chance(0.7) else 2
    out = []
    for _ in range(n):
        if rng.chance(0.12):
            out.append([rng.randint(0, 1), rng.randint(0, 5), 1, rng.randint(0, 1)])
        else:
            out.append([rng.randint(0, 1), rng.randint(0, 5), 0, rng.choice(vals)])
    return out


def fill(rng, forest, ctr, vals, notag=0.08):
    tag = ctr[0] % NTAGS
    ctr[0] += 1
    return {"conds": gen_atoms(rng, vals), "tag": None if rng.chance(notag) else tag,
            "body": [[k, fill(rng, sub, ctr, vals, notag)] for k, sub in forest]}


def gen_case(rng, good, max_branches):
    vals = list(range(-1, 4))
    r = rng.random()
    good_nonext = [g for g in good if "N" not in g]
    if r < 0.45 and good_nonext:
        forest = parse_sig(rng.choice(good_nonext))
    elif r < 0.58 and good:
        forest = parse_sig(rng.choice(good))
    else:
        forest = random_forest(rng, rng.randint(1, max_branches), 3)
    prog = fill(rng, forest, [0], vals)
    nw = rng.choice([0, 1, 2, 3, 4, 4, 5, 6, 8])
    world = [[rng.choice(vals), rng.choice(vals)] for _ in range(nw)]
    case = {"world": world, "prog": prog}
    if prog["body"] and rng.chance(0.25):
        # written in two `with query:` blocks (the cached conditions root makes this the same program)
        case["stages"] = [rng.randint(0, len(prog["body"])), rng.randint(0, 1)]
    return case


def add_forms(rng, case):
    """write some single-atom conditions in another form: HasType(x, Q) for `x.b == 1`, not_(x.a == v) for `x.a != v`"""
    rules = []

    def walk(r):
        rules.append(r)
        for _, sub in r["body"]:
            walk(sub)

    walk(case["prog"])
    case["forms"] = True
    case["world"] = [[a, b % 2] for a, b in case["world"]]
    for r in rng.sample(rules, min(len(rules), rng.randint(1, 3))):
        if rng.chance(0.6):
            r["conds"], r["form"] = [[1, 0, 0, 1]], 1
        else:
            r["conds"], r["form"] = [[rng.choice([0, 1]), 1, 0, rng.randint(0, 1)]], 2
    return case


def strip_forms(case):
    """the same program with every condition written as a comparator"""
    d = json.loads(json.dumps(case))
    d.pop("forms", None)

    def walk(r):
        r.pop("form", None)
        for _, sub in r["body"]:
            walk(sub)

    walk(d["prog"])
    return d


def has_form(case, form) -> bool:
    found = []

    def walk(r):
        if r.get("form") == form:
            found.append(1)
        for _, sub in r["body"]:
            walk(sub)

    walk(case["prog"])
    return bool(found)


def gen_case_empty_join(rng, good):
    """a program whose base rule yields NO rows (it joins over a variable with an empty domain, or starts with an exists(...)
    that holds nowhere) and whose top-level chain continues with next_rules only: every next_rule must still fire.
    (alternatives of the top-level chain are turned into next_rules: whether an else-if branch fires when there is no
    binding of the base rule at all is not settled by the property text)"""
    while True:
        c = gen_case(rng, good, 5)
        if c["prog"]["body"] and len(c["world"]) >= 1:
            break
    c.pop("stages", None)
    c.pop("mid_evals", None)
    c.pop("evals", None)
    if rng.chance(0.3):
        c["empty_join"] = 3      # non-empty domain that matches nothing: the program is kept as written (alternatives fire)
        return c

    def chain(r):
        r["body"] = [["N" if k == "A" else k, sub] for k, sub in r["body"]]
        for k, sub in r["body"]:
            if k == "N":
                chain(sub)

    chain(c["prog"])
    if not any(k == "N" for k, _ in c["prog"]["body"]):
        k0, sub0 = c["prog"]["body"][-1]
        c["prog"]["body"][-1] = ["N", sub0]
        chain(sub0)
    c["empty_join"] = rng.choice([1, 1, 2])
    return c


def gen_case_quant(rng, good):
    """a base rule with a quantified conjunct that is false for some elements, and a top-level chain with an alternative"""
    while True:
        c = gen_case(rng, good, 5)
        c.pop("stages", None)
        c.pop("mid_evals", None)
        c.pop("evals", None)
        if c.get("forms") or not c["prog"]["body"] or len(c["world"]) < 2:
            continue
        kinds = [k for k, _ in c["prog"]["body"]]
        if "A" not in kinds:
            i = rng.randint(0, len(kinds) - 1)
            c["prog"]["body"][i][0] = "A"
        c["quant"] = rng.randint(0, 3)
        return c


def gen_case_round7(rng, good):
    """one of: a constant conclusion (mentions no variable of the binding); the rule variable is the element of a flattened
    collection; the selected variable is declared with let(<Symbol type>, domain=None)"""
    while True:
        c = gen_case(rng, good, 5)
        if c.get("forms") or len(c["world"]) < 2:
            continue
        for k0 in ("stages", "mid_evals", "evals"):
            c.pop(k0, None)
        break
    tags = []

    def walk(r):
        if r["tag"] is not None:
            tags.append(r["tag"])
        for _, sub in r["body"]:
            walk(sub)

    walk(c["prog"])
    kind = rng.choice(["const", "boxes", "boxes", "selected_let", "falsy"])
    if kind == "const" and tags:
        c["const_tags"] = sorted(set(rng.sample(tags, min(len(tags), rng.randint(1, 2)))))
    elif kind == "boxes":
        n, sizes = len(c["world"]), []
        while n > 0:
            k0 = rng.randint(1, min(3, n))
            sizes.append(k0)
            n -= k0
        c["boxes"] = sizes
        if rng.chance(0.5):
            c["concl_attr"] = True      # ... and the conclusions are built from an attribute of the flattened element
    elif kind == "falsy":
        c["falsy_views"] = True
    else:
        c["selected_let"] = True
        if rng.chance(0.25):
            c["prog"]["body"] = []      # a PLAIN rule (no branch: the root is not a selector) with a let-declared target
            if c["prog"]["tag"] is None:
                c["prog"]["tag"] = 0
    return c


def project_const(case, rows):
    """instances of constant conclusions carry no element: compare them by tag only"""
    ct = set(case.get("const_tags") or [])
    return [[t, -1 if t in ct else i] for t, i in rows]


def round7_defect_behaviour(case, impl, spec) -> bool:
    """narrow recorded behaviour of the open findings C08-m (constant conclusion), C08-n (flattened element), C08-o
    (let-declared selected variable); each applies only when the tree has a root selector (the program has a branch)"""
    if impl[0] != 0 or not case["prog"]["body"]:
        return False
    got = sorted(impl[1])
    if case.get("const_tags"):
        ct = set(case["const_tags"])
        want = sorted(project_const(case, spec))
        if impl[2] or [r for r in got if r[0] not in ct] != [r for r in want if r[0] not in ct]:
            return False
        # a constant conclusion is inferred once per (selector, truth, conclusion set): at least once, never more often than the Spec
        return all(1 <= sum(1 for r in got if r[0] == t) <= sum(1 for r in want if r[0] == t)
                   for t in ct if any(r[0] == t for r in want)) and not any(r[0] in ct and r not in want for r in got)
    if case.get("boxes"):
        want = sorted(list(r) for r in spec)
        if impl[2] or any(r not in want for r in got) or len(set(map(tuple, got))) != len(got):
            return False
        box_of, k0 = {}, 0
        for bi, nparts in enumerate(case["boxes"]):
            for i in range(k0, k0 + nparts):
                box_of[i] = bi
            k0 += nparts
        # per (conclusion, box) at least one element keeps the conclusion; elements are only LOST, nothing is added
        keys = lambda rows: {(t, box_of[i]) for t, i in rows}
        return keys(got) == keys(want)
    if case.get("selected_let"):
        # every result beyond the Spec's is an instance OBJECT that was already handed out
        return sorted(impl[1]) == sorted(list(r) for r in spec) and bool(impl[2])
    return False


def all_forests(n):
    if n == 0:
        yield []
        return
    for k in range(0, n):
        for sub in all_forests(k):
            for rest in all_forests(n - 1 - k):
                for kind in "RAN":
                    yield [(kind, sub)] + rest


def depth_forest(f) -> int:
    return 0 if not f else 1 + max(depth_forest(s) for _, s in f)


def run_impl_bulk(cases, chunk=250, workers=8):
    """run cases in worker subprocesses (krrood keeps per-query state process-wide)"""
    import subprocess
    from concurrent.futures import ThreadPoolExecutor
    from . import core
    parts = [cases[k:k + chunk] for k in range(0, len(cases), chunk)]

    def one(part):
        r = subprocess.run([core.PY, "-m", "harness.c08"], input=json.dumps(part), stdout=subprocess.PIPE,
                           stderr=subprocess.PIPE, text=True, env=core.IMPL_ENV, cwd=str(core.VERIF), timeout=1800)
        if r.returncode != 0:
            raise RuntimeError("implementation worker failed: " + r.stderr[-1500:])
        return json.loads(r.stdout)

    with ThreadPoolExecutor(max_workers=workers) as ex:
        res = list(ex.map(one, parts))
    return [o for part in res for o in part]


def model_matches(impl, m, shared=False) -> bool:
    """impl outcome vs model outcome; a model row carries the SET of conclusions selected at once (set-iteration
    order decides which one the descriptor keeps), the implementation's tag must be one of them."""
    if m[0] != 0:
        return impl[0] == 1
    if impl[0] != 0:
        return False
    if impl[2] and not shared:
        return False       # the same instance object twice is only predicted where the surgery shares a node (C08-f, inexact class)
    pool = [[list(r[0]), r[1]] for r in m[1]]
    if len(pool) != len(impl[1]):
        return False
    for t, i in impl[1]:
        hit = next((r for r in pool if r[1] == i and t in r[0]), None)
        if hit is None:
            return False
        pool.remove(hit)
    return True


def spec_matches(impl, s) -> bool:
    return impl[0] == 0 and sorted(impl[1] + impl[2]) == sorted(s)


def py_simple_fragment(prog) -> bool:
    """used only when the Coq model cannot be built: programs without next_rule (since /repo 4511011 the construction is
    right for every skeleton the check enumerates)"""
    return "N" not in sig_of(prog)


def evaluate(cases, model_ok):
    """returns per case: impl, model (or None), spec, frag (or None)"""
    from . import core
    impl = run_impl_bulk(cases)
    exprs = []
    for c in cases:
        pt, wt = rule_term(coq_prog(c)), world_term(c["world"])
        if model_ok:
            exprs += [f"model_sx {pt} {wt}", f"spec_sx {pt} {wt}", f"fragW_sx {pt} {wt}"]
        else:
            exprs += [f"spec_sx {pt} {wt}"]
    vals = core.coq_values(PROP, HEADER if model_ok else HEADER_SPEC, exprs, chunk=240, tag=f"vals{os.getpid()}")
    out = []
    for j, c in enumerate(cases):
        if model_ok:
            m, s, fr = vals[3 * j:3 * j + 3]
        else:
            m, s, fr = None, vals[j], None
        out.append((impl[j], m, s, fr))
    return out


CLASS_TEXT = {
    "K_surgery": "the tree built by refinement()/alternative()/next_rule() is not the written one (C08-a/b/c/f, repaired by /repo 4511011: no open finding)",
    "K_next": "programs with next_rule outside the ordered fragments Fx: inside C08_rules_next_all (set of instances, next_rule anywhere); C08-d/e/g repaired by /repo 35fa150, 6dfdafd: no open finding; compared with model and Spec (as multisets)",
    "K_leafflag": "a branch whose whole condition is a single predicate (HasType) never sets `_is_false_`; an Alternative chained to it reads the stale flag (C08-k); narrow match: the same program with that condition written as a comparator agrees with the Spec",
    "K_quant_base_alt": "the base rule has a quantified conjunct (exists) that is false for some elements: it yields no row for them, so no alternative of the top-level chain is tried (C08-l, cause C01-j); python-level class rule: case carries `quant`; tolerated only when the output equals the Spec where the conjunct holds and the Spec of [quant_defect_prog] where it does not",
    "K_const_concl": "a conclusion that mentions no variable of the binding is inferred once per root selector instead of once per binding (C08-m); python-level class rule: case carries `const_tags` and the program has a branch; tolerated only when every other instance agrees with the Spec and each constant conclusion occurs at least once and at most as often as in the Spec",
    "K_flatten_key": "the rule variable is the element of a flattened collection: the coverage key of the root selector ignores the element, so per collection only one element keeps a conclusion (C08-n); class rule: case carries `boxes` and the program has a branch; tolerated only when the output is a sub-multiset of the Spec with the same (conclusion, collection) pairs",
    "K_selected_let": "the selected variable is declared with let(<Symbol type>, domain=None): a true row without a new conclusion hands out already inferred instances again (C08-o); class rule: case carries `selected_let`; tolerated only when the first-time instances are exactly the Spec's and every extra result is an instance object already handed out",
    "U_unsettled": "next_rule written in the level of a later sibling refinement: reading not settled by the property text; compared with the model only",
}


def case_class(fr) -> str:
    """fr = [Gb, has_next, shared, later_ref_next, in_F]"""
    if fr[4] == 1:
        return "F"
    if fr[0] == 0:
        return "K_surgery"
    if fr[3] == 1:
        return "U_unsettled"     # next_rule in the level of a later sibling refinement: the property text does not settle it
    return "K_next"



HEADER2 = """From Coq Require Import List ZArith.
From Krrood Require Import Base.Sx Eql.RuleSpec Eql.RuleSpec2 Eql.RuleEval Eql.RuleBuild Eql.RuleEval2 Eql.RuleSx2.
Import ListNotations. Open Scope nat_scope."""
HEADER2_SPEC = """From Coq Require Import List ZArith.
From Krrood Require Import Base.Sx Eql.RuleSpec Eql.RuleSpec2.
Import ListNotations. Open Scope nat_scope.
Definition selfun (l : list nat) (t : nat) : nat := nth t l 0.
Definition opt_sx (o : option nat) : sx := match o with Some n => SN n | None => SZ (-1)%Z end.
Definition spec2_sx (prog : rule) (sels : list nat) (Cs : list (Z * nat)) (Bs : list Z) : sx :=
  SL (map (fun x => SL [SN (fst (fst x)); opt_sx (snd (fst x)); opt_sx (snd x)]) (rdr2 (selfun sels) prog Cs Bs))."""


def rule_term2(r) -> str:
    """two-variable program: the join is the marker atom (attr 2) at the head of the joining refinement's conditions"""
    atoms = (["(Atom 2 CEq (RConst 0%Z))"] if r.get("join") else []) + [atom_term(a) for a in r["conds"]]
    tag = "None" if r["tag"] is None else f"(Some {r['tag']})"
    body = "[" + "; ".join(f"({KCOQ[k]}, {rule_term2(s)})" for k, s in r["body"]) + "]"
    return f"(Rule [{'; '.join(atoms)}] {tag} {body})"


def sels_term(case) -> str:
    sel = {}

    def walk(r):
        if r["tag"] is not None:
            sel[r["tag"]] = r.get("sel", 0)
        for _, s in r["body"]:
            walk(s)

    walk(case["prog"])
    n = max(sel) + 1 if sel else 0
    return "[" + "; ".join(str(sel.get(t, 0)) for t in range(n)) + "]"


def world2_terms(case):
    cs = "[" + "; ".join(f"({z(k)}, {pi})" for k, pi in case["cs"]) + "]"
    bs = "[" + "; ".join(z(a) for a in case["bs"]) + "]"
    return cs, bs


def model2_matches(case, impl, m) -> bool:
    """implementation rows vs the two-variable model's rows (exact multiset; the model row carries the selected set)"""
    if m[0] != 0:
        return impl[0] == 1
    if impl[0] != 0 or impl[2]:
        return False
    sel = {}

    def walk(r):
        if r["tag"] is not None:
            sel[r["tag"]] = r.get("sel", 0)
        for _, s in r["body"]:
            walk(s)

    walk(case["prog"])
    pool = [[list(r[0]), r[1], r[2]] for r in m[1]]
    if len(pool) != len(impl[1]):
        return False
    for t, ci, bi in impl[1]:
        hit = None
        for r in pool:
            if t in r[0]:
                want = {0: (r[1], -1), 1: (-1, r[2]), 2: (r[1], r[2])}[sel.get(t, 0)]
                if want == (ci, bi):
                    hit = r
                    break
        if hit is None:
            return False
        pool.remove(hit)
    return True


def evaluate2_old(cases):
    """two-variable cases: implementation and Spec (no model); returns [(impl, spec instances)]"""
    from . import core
    if not cases:
        return []
    impl = run_impl_bulk(cases)
    enc = [encode2(c) for c in cases]
    vals = core.coq_values(PROP, HEADER_SPEC, [f"spec_sx {rule_term(e['prog'])} {world_term(e['world'])}" for e in enc],
                           chunk=240, tag=f"valstwo{os.getpid()}")
    return [(i, project2(c, s)) for c, i, s in zip(cases, impl, vals)]


LAST_FRAG2 = []
LAST_UNSETTLED2 = []


def evaluate2(cases, model_ok=True):
    """two-variable cases: implementation, two-variable model (RuleEval2.v) and Spec (RuleSpec2.v); returns [(impl, model or None, spec instances)]"""
    from . import core
    if not cases:
        return []
    impl = run_impl_bulk(cases)
    del LAST_FRAG2[:]
    del LAST_UNSETTLED2[:]
    exprs = []
    for c in cases:
        pt, st = rule_term2(c["prog"]), sels_term(c)
        ct, bt = world2_terms(c)
        if model_ok:
            exprs += [f"model2_sx {pt} {st} {ct} {bt}", f"spec2_sx {pt} {st} {ct} {bt}", f"frag2_sx {pt} {st} {ct} {bt}"]
        else:
            exprs += [f"spec2_sx {pt} {st} {ct} {bt}"]
    vals = core.coq_values(PROP, HEADER2 if model_ok else HEADER2_SPEC, exprs, chunk=240, tag=f"valstwo{os.getpid()}")
    out = []
    for j, c in enumerate(cases):
        if model_ok:
            m, sp, fr = vals[3 * j], vals[3 * j + 1], vals[3 * j + 2]
        else:
            m, sp, fr = None, vals[j], None
        want = sorted(list(x) for x in {tuple(r) for r in sp})
        LAST_FRAG2.append(bool(fr and fr[0] == 1 and fr[1] == 1))       # inside the fragment of C08_rules2
        LAST_UNSETTLED2.append(bool(fr and fr[2] == 1))                 # next_rule in the level of a later sibling refinement
        out.append((impl[j], m, want))
    return out


def dedup2_signature(case, impl, want) -> bool:
    """narrow signature of the open findings C08-h / C08-i (class K_dedup2), used because the model is one-variable:
    nothing extra and nothing twice; only instances are MISSING, each of them built from b, with that b shared by at least
    two connections, in a program that also concludes from b alone."""
    if impl[0] != 0 or impl[2]:
        return False
    got = {tuple(r) for r in impl[1]}
    wanted = {tuple(r) for r in want}
    if not got < wanted:
        return False
    sels = []

    def walk(r):
        sels.append(r.get("sel", 0))
        for _, s in r["body"]:
            walk(s)

    walk(case["prog"])
    if 1 not in sels:
        return False
    for (_t, _ci, bi) in wanted - got:
        if bi < 0 or sum(1 for _k, pi in case["cs"] if pi == bi) < 2:
            return False
    return True


def run(tier: str, seed: int, replay=None) -> int:
    from . import core
    import pathlib
    rep = core.Report(PROP, tier, seed, "proof")
    rep.trusted = core.COQ_TRUSTED + [
        "hand-written models Eql/RuleBuild.v (heap surgery of rule.py, Conclusion.__post_init__, _parent_ setter, __enter__) and "
        "Eql/RuleEval.v (ExceptIf/Alternative/Next, update_conclusion, descriptor), tied by differential execution through the public API",
        "harness/c08.py: case builder (real with-blocks), outcome canonicaliser, Gallina printers",
        "source pins pins/rules.json (set pins/sets/rules.json, 42 methods of rule.py, conclusion_selector.py, conclusion.py, symbolic.py, "
        "cache_data.py, entity.py, rxnode.py that the hand models mirror): an edit of a pinned method reopens the correspondence obligation; "
        "property setters (SymbolicExpression._parent_, RWXNode.parent) cannot be addressed by the pin tool, only their getters are pinned",
    ]
    rep.assume = [
        "proved fragment Fx (computed in Coq per case): no next_rule (C08_rules; the construction itself is proved for every program, C08_build_all), "
        "or exactly one next_rule, written last at the top level, possibly with refinements of its own (no alternative/next_rule in its block) and with conclusions of its own (C08_rules_next, C08_rules_next2, up to permutation); "
        "other next_rule programs are compared with the faithful model and the Spec, the class later_ref_next with the model only",
        "two-variable programs (connection c, body b joined by `b == c.parent` in one refinement) are run through the two-variable model Eql/RuleEval2.v "
        "(join leaf enumerating the bodies, coverage keyed by the bindings of the conclusion's own variables) and the Spec Eql/RuleSpec2.v "
        "(rdr over the elements (c.k, c.parent.a), instances projected to the conclusion's variables, compared as a set); three-way like the one-variable stream",
        "one variable over a domain of distinct objects with two int attributes; conditions are and_-chains of comparisons of an "
        "attribute with a constant or another attribute; every conclusion is Add(views, inference(V_tag)(p=x))",
        "an and_-chain of comparators is one leaf of the model: a comparator found bound re-yields the flag it computed for the same element",
        "a program written in two `with query:` blocks (25% of the one-variable cases) is the same program for Spec and model: "
        "`_conditions_root_` is cached, RuleBuild.enter returns the cached node on re-entry",
        "Spec reading: branches written at one level are tried in written order; a next_rule written earlier counts as an earlier branch for a later alternative; "
        "several refinements of one rule are tried in written order",
    ]
    rep.rule = ("corpus first; then seeded random rule programs: 45% a next_rule-free skeleton and 13% any skeleton sampled from the list of skeletons with <= 4 branches, "
                "42% a random forest of 1..6 branches, nesting <= 3, kinds R:A:N = 2:2:1; 1-2 atoms per branch over attributes a,b, "
                "constants -1..3, 8% branches without conclusion; worlds of 0..8 objects with attribute values -1..3 (value-equal twins frequent); "
                "a second stream of two-variable programs (connection-like c and body b joined by `b == c.parent` in one refinement, conclusions built from c, b or both, "
                "1..7 connections over 1..4 bodies so that bodies are shared, next_rule-free forests of 1..5 branches, 1200 quick / 10000 thorough) is compared implementation vs Spec only, instances as a set; "
                "thorough adds every skeleton with <= 4 branches; distinct = distinct (program, world); non-trivial = at least one branch, "
                "non-empty world and a non-empty Spec answer")
    ok_spec, log = core.coq_make(["Base/Sx.vo", "Eql/RuleSpec.vo"])
    rep.oblige("build:spec", ok_spec, "" if ok_spec else core.first_error(log))
    model_ok = core.standard_proof_steps(rep, PROP, ["Props/C08.vo", "Eql/RuleSx.vo", "Eql/RuleSx2.vo"])
    from translator import pins
    pins.oblige(rep, str(core.REPO), "rules", "the rule construction / evaluation models (Eql/RuleBuild.v, Eql/RuleEval.v)")
    if not ok_spec:
        rep.note("the Spec itself does not build; nothing can be compared")
        return rep.finish()

    corpus_dir = core.VERIF / "corpus" / PROP
    good = []
    gs = corpus_dir / "_good_shapes.json"
    if gs.exists():
        good = json.loads(gs.read_text())["good"]
    findings = core.load_findings(PROP)
    open_classes = {f.cls for f in findings if f.kind == "open"}

    cases, origin = [], []
    cases2, origin2 = [], []
    if replay is not None:
        if replay["case"].get("two"):
            cases2.append(replay["case"])
            origin2.append("replay")
        else:
            cases.append(replay["case"])
            origin.append("replay")
    else:
        stale_open = {f.witness for f in findings if f.kind == "open" and f.cls in ("K_stale_parent", "K_leafflag", "K_quant_base_alt", "K_const_concl", "K_flatten_key", "K_selected_let")}
        for p in sorted(corpus_dir.glob("*.json")):
            if p.name.startswith("_") or f"corpus/{PROP}/{p.name}" in stale_open:
                continue          # (the witness of the open finding C08-j is replayed with its own narrow match below)
            d = json.loads(p.read_text())
            if d["case"].get("two"):
                cases2.append(d["case"])
                origin2.append(f"corpus/{PROP}/{p.name}")
                continue
            cases.append(d["case"])
            origin.append(f"corpus/{PROP}/{p.name}")
        rng3 = core.Rng(seed).fork(28)
        for _ in range(1200 if tier == "quick" else 10000):
            cases2.append(gen_case2(rng3))
            origin2.append("random-two-variable")
        rng4 = core.Rng(seed).fork(29)
        n_next2 = 0
        while n_next2 < (200 if tier == "quick" else 2500):      # with next_rule: outside C08_rules2, model + Spec
            c2 = gen_case2(rng4, allow_next=True)
            if "N" in sig_of(c2["prog"]):
                cases2.append(c2)
                origin2.append("random-two-variable-next")
                n_next2 += 1
        rng = core.Rng(seed).fork(8)
        n_random = 1500 if tier == "quick" else 24000
        rng5 = core.Rng(seed).fork(30)
        for _ in range(n_random):
            c1 = gen_case(rng, good, 6)
            if c1.get("stages") and "K_stale_parent" not in open_classes and rng5.chance(0.5):
                c1["mid_evals"] = 1      # the query is evaluated between the two with-blocks (C08-j, once repaired)
                if rng5.chance(0.6):
                    c1["evals"] = 2      # ... and twice after the second block (a root selector added by the extension
                                         # must be forgotten per evaluation like the others: seeded C08-L)
            if rng5.chance(0.2):
                add_forms(rng5, c1)      # predicates / not_ as whole branch conditions (C08-k)
            cases.append(c1)
            origin.append("random")
        rng6 = core.Rng(seed).fork(32)
        for _ in range(150 if tier == "quick" else 2000):
            cases.append(gen_case_empty_join(rng6, good))
            origin.append("random")
        rng8 = core.Rng(seed).fork(34)
        for _ in range(150 if tier == "quick" else 1800):
            cases.append(gen_case_round7(rng8, good))
            origin.append("random")
        rng7 = core.Rng(seed).fork(33)
        for _ in range(120 if tier == "quick" else 1500):
            cases.append(gen_case_quant(rng7, good))
            origin.append("random")
        if tier == "thorough":
            rng2 = core.Rng(seed).fork(88)
            for n in range(0, 5):
                for f in all_forests(n):
                    if depth_forest(f) <= 3:
                        vals = list(range(-1, 4))
                        for _ in range(2):
                            cases.append({"world": [[rng2.choice(vals), rng2.choice(vals)] for _ in range(6)],
                                          "prog": fill(rng2, f, [0], vals, notag=0.0)})
                            origin.append("exhaustive-skeletons")

    try:
        results = evaluate(cases, model_ok)
    except Exception as e:  # noqa
        rep.oblige("correspondence:evaluate", False, str(e)[:600])
        return rep.finish()

    dist = {"branches": {}, "nesting": {}, "world_size": {}, "class": {}, "kinds": {"R": 0, "A": 0, "N": 0}, "trivial": 0,
            "spec_rows": 0}
    inst = {"K_surgery": 0, "K_next": 0}
    agree_outside = {"K_surgery": 0, "K_next": 0, "U_unsettled": 0}
    unsettled = {"cases": 0, "impl_equals_model": 0, "impl_equals_spec": 0}
    by_origin = {}
    stale_notes = 0
    bad = []
    model_bad = []
    pending_forms = []
    pending_quant = []
    for c, org, (impl, m, s, fr) in zip(cases, origin, results):
        key = json.dumps(c, sort_keys=True)
        nb = n_branches(c["prog"])
        nontrivial = nb >= 1 and len(c["world"]) > 0 and len(s) > 0
        rep.count(key, nontrivial)
        by_origin[org if org in ("random", "exhaustive-skeletons", "replay") else "corpus"] = by_origin.get(
            org if org in ("random", "exhaustive-skeletons", "replay") else "corpus", 0) + 1
        dist["branches"][nb] = dist["branches"].get(nb, 0) + 1
        dist["nesting"][nesting(c["prog"])] = dist["nesting"].get(nesting(c["prog"]), 0) + 1
        dist["world_size"][len(c["world"])] = dist["world_size"].get(len(c["world"]), 0) + 1
        dist["trivial"] += 0 if nontrivial else 1
        dist["two_blocks"] = dist.get("two_blocks", 0) + (1 if c.get("stages") else 0)
        dist["evaluated_between_the_blocks"] = dist.get("evaluated_between_the_blocks", 0) + (1 if c.get("mid_evals") else 0)
        dist["spec_rows"] += len(s)

        def count_kinds(r):
            for k, sub in r["body"]:
                dist["kinds"][k] += 1
                count_kinds(sub)

        count_kinds(c["prog"])
        r7 = "const_tags" if c.get("const_tags") else "boxes" if c.get("boxes") else "selected_let" if c.get("selected_let") else None
        if c.get("concl_attr") or c.get("falsy_views"):
            k8 = "round8:" + ("concl_attr" if c.get("concl_attr") else "falsy_views")
            dist[k8] = dist.get(k8, 0) + 1
        if r7:
            dist["round7:" + r7] = dist.get("round7:" + r7, 0) + 1
            s_raw = s
            s = project_const(c, s)
            if m is not None and m[0] == 0 and c.get("const_tags"):
                ct7 = set(c["const_tags"])
                m = [0, [[r[0], -1 if set(r[0]) <= ct7 else r[1]] for r in m[1]]] + list(m[2:])
        s_ok = spec_matches(impl, s)
        if r7 and model_ok and case_class(fr) == "U_unsettled":
            unsettled["cases"] += 1          # (reading not settled, and an open finding of round 7 may apply: not compared)
            continue
        if r7 and model_ok and not s_ok and case_class(fr) != "U_unsettled":
            cls7 = {"const_tags": "K_const_concl", "boxes": "K_flatten_key", "selected_let": "K_selected_let"}[r7]
            if cls7 in open_classes and round7_defect_behaviour(c, impl, s_raw):
                inst[cls7] = inst.get(cls7, 0) + 1
            else:
                bad.append((c, org, impl, m, s, fr, f"{r7}: neither the Spec nor the recorded behaviour of the open finding of class {cls7}"))
            continue
        dist["other_condition_forms"] = dist.get("other_condition_forms", 0) + (1 if c.get("forms") else 0)
        dist["base_rule_without_rows"] = dist.get("base_rule_without_rows", 0) + (1 if c.get("empty_join") else 0)
        dist["quantified_conjunct_in_base_rule"] = dist.get("quantified_conjunct_in_base_rule", 0) + (1 if c.get("quant") is not None else 0)
        if model_ok and not s_ok and c.get("quant") is not None and case_class(fr) != "U_unsettled":
            pending_quant.append((c, org, impl, m, s, fr))
            continue
        if model_ok and not s_ok and c.get("forms") and "K_leafflag" in open_classes and has_form(c, 1) \
                and case_class(fr) != "U_unsettled":
            pending_forms.append((c, org, impl, m, s, fr))
            continue
        if model_ok:
            cls = case_class(fr)
            dist["class"][cls] = dist["class"].get(cls, 0) + 1
            m_ok = model_matches(impl, m)      # an instance object returned twice (C08-f, fixed) never matches
            if impl[0] == 0 and impl[2]:
                stale_notes += 1
            if cls == "F":
                if not s_ok:
                    bad.append((c, org, impl, m, s, fr, "inside the proved fragment"))
                elif not m_ok:
                    model_bad.append((c, org, impl, m, s, fr))
            elif cls == "U_unsettled":
                # compared with the model only; never a VIOLATION, never a finding
                unsettled["cases"] += 1
                unsettled["impl_equals_model"] += 1 if m_ok else 0
                unsettled["impl_equals_spec"] += 1 if s_ok else 0
                if not m_ok and c.get("quant") is None and not c.get("empty_join"):
                    rep.note(f"unsettled-reading class: implementation differs from the model on {sig_of(c['prog'])!r} (not an alarm)")
            else:
                if s_ok:
                    agree_outside[cls] += 1
                    if not m_ok:
                        rep.note(f"model differs from impl=spec outside F ({cls}): finding may be repaired; case {sig_of(c['prog'])!r}")
                elif m_ok and cls in open_classes:
                    inst[cls] += 1
                elif m_ok:
                    bad.append((c, org, impl, m, s, fr, f"outside the fragment ({cls}); no open finding is listed for this class"))
                else:
                    bad.append((c, org, impl, m, s, fr, f"outside the fragment ({cls}) and not what the faithful model predicts"))
        else:
            if not s_ok and py_simple_fragment(c["prog"]):
                bad.append((c, org, impl, m, s, fr, "model unavailable; shape of the documented tests"))

    # ---- open finding C08-k: the disagreement must disappear when the predicate is written as a comparator
    if pending_forms:
        plain_impl = run_impl_bulk([strip_forms(c) for c, *_ in pending_forms])
        for (c, org, impl, m, s, fr), pi in zip(pending_forms, plain_impl):
            if spec_matches(pi, s):
                inst["K_leafflag"] = inst.get("K_leafflag", 0) + 1
            else:
                bad.append((c, org, impl, m, s, fr, "a condition written as a predicate: differs from the Spec also when written as a comparator"))

    # ---- open finding C08-l: tolerated only when the output is exactly the recorded defect behaviour
    if pending_quant:
        sdef = core.coq_values(PROP, HEADER_SPEC, [f"spec_sx {rule_term(quant_defect_prog(c))} {world_term(c['world'])}"
                                                   for c, *_ in pending_quant], chunk=240, tag=f"valsq{os.getpid()}")
        for (c, org, impl, m, s, fr), sd in zip(pending_quant, sdef):
            if "K_quant_base_alt" in open_classes and impl[0] == 0 and not impl[2] \
                    and sorted(impl[1]) == quant_predicted(c, s, sd):
                inst["K_quant_base_alt"] = inst.get("K_quant_base_alt", 0) + 1
            else:
                bad.append((c, org, impl, m, s, fr, "quantified conjunct in the base rule: neither the Spec nor the recorded behaviour of the open finding C08-l"))

    # ---- two-variable programs: implementation vs Spec only
    try:
        results2 = evaluate2(cases2, model_ok)
    except Exception as e:  # noqa
        rep.oblige("correspondence:evaluate-two-variable", False, str(e)[:600])
        results2 = []
    dist2 = {"cases": len(results2), "refinement_in_refinement": 0, "shared_body": 0, "concl_b_only": 0, "concl_c_and_b": 0,
             "nonempty_spec": 0, "agree": 0, "in_fragment_of_C08_rules2": 0, "with_next_rule": 0,
             "unsettled_reading": 0, "unsettled_impl_equals_model": 0, "unsettled_impl_equals_spec": 0}
    inst2 = 0
    model2_bad = []
    dist2["in_fragment_of_C08_rules2"] = sum(1 for x in LAST_FRAG2 if x)
    uns2 = list(LAST_UNSETTLED2) + [False] * len(results2)
    for j2, (c, org, (impl, m2, want)) in enumerate(zip(cases2, origin2, results2)):
        rep.count("two:" + json.dumps(c, sort_keys=True), bool(want))
        sg = sig_of(c["prog"])
        dist2["refinement_in_refinement"] += 1 if "R{R" in sg or "{R{" in sg else 0
        pis = [pi for _k, pi in c["cs"]]
        dist2["shared_body"] += 1 if len(set(pis)) < len(pis) else 0
        txt = json.dumps(c["prog"])
        dist2["concl_b_only"] += 1 if '"sel": 1' in txt else 0
        dist2["concl_c_and_b"] += 1 if '"sel": 2' in txt else 0
        dist2["nonempty_spec"] += 1 if want else 0
        dist2["with_next_rule"] += 1 if "N" in sg else 0
        if uns2[j2]:
            # reading not settled by the property text (as in the one-variable stream): model only, never an alarm
            dist2["unsettled_reading"] += 1
            m_ok2 = m2 is not None and model2_matches(c, impl, m2)
            dist2["unsettled_impl_equals_model"] += 1 if m_ok2 else 0
            dist2["unsettled_impl_equals_spec"] += 1 if spec2_matches(impl, want) else 0
            if m2 is not None and not m_ok2:
                rep.note(f"unsettled-reading class (two variables): implementation differs from the model on {sg!r} (not an alarm)")
            continue
        if spec2_matches(impl, want):
            dist2["agree"] += 1
            if m2 is not None and not model2_matches(c, impl, m2):
                model2_bad.append((c, impl, m2))
        elif "K_dedup2" in open_classes and dedup2_signature(c, impl, want) and (m2 is None or model2_matches(c, impl, m2)):
            inst2 += 1
        else:
            bad.append((c, org, impl, m2, want, None,
                        "two-variable program: the instances (as a set) differ from the Spec"))
    if model_ok:
        rep.oblige("correspondence:model-two-variable", not model2_bad,
                   "" if not model2_bad else f"{len(model2_bad)} two-variable cases where impl=spec but the model differs, e.g. {json.dumps(model2_bad[0][0])}")
        if replay is None:
            rep.oblige("coverage:two-variable-fragment", dist2["in_fragment_of_C08_rules2"] * 2 >= len(results2) - dist2["with_next_rule"],
                       f"{dist2['in_fragment_of_C08_rules2']} of {len(results2)} two-variable cases are inside the fragment of C08_rules2")
    rep.extra["two_variable_stream"] = dist2
    inst["K_dedup2"] = inst2

    rep.extra["distribution"] = dist
    rep.extra["cases_by_origin"] = by_origin
    rep.extra["same_instance_object_twice"] = stale_notes        # C08-f (fixed): must stay 0
    rep.extra["known_finding_instances"] = inst
    rep.extra["unsettled_reading_class"] = unsettled
    rep.extra["outside_F_agreeing_with_spec"] = agree_outside
    rep.samples = [{"case": c, "impl": r[0], "spec": sorted(r[2])} for c, r in list(zip(cases, results))[:: max(1, len(cases) // 6)]][:6]
    if model_ok:
        rep.oblige("correspondence:model", not model_bad,
                   "" if not model_bad else f"{len(model_bad)} cases inside F where impl=spec but the model differs, e.g. {json.dumps(model_bad[0][0])}")

    for (c, org, impl, m, s, fr, why) in bad[:5]:
        rep.violation({"kind": "counterexample", "case": c, "origin": org, "impl": impl, "model": m, "spec": sorted(s), "frag": fr,
                       "why": why, "python": snippet2(c) if c.get("two") else snippet(c),
                       "explanation": "rows are [tag, index of the element in the world]; spec = ripple-down-rules reading of the written program"})

    # known findings: replay the witnesses
    for f in findings:
        wp = core.VERIF / f.witness
        try:
            d = json.loads(wp.read_text())
            if d["case"].get("two"):
                (impl, _m2, want), = evaluate2([d["case"]], model_ok)
                fails = not spec2_matches(impl, want)
                if f.kind == "open":
                    if fails and dedup2_signature(d["case"], impl, want) and impl == d.get("impl", impl):
                        rep.known(f)
                    elif fails:
                        rep.violation({"kind": "counterexample", "case": d["case"], "impl": impl, "spec": want,
                                       "why": f"witness of {f.fid} fails differently from what was recorded", "python": snippet2(d["case"])})
                    else:
                        rep.note(f"known finding {f.fid} no longer reproduces on its witness")
                elif fails:
                    rep.violation({"kind": "counterexample", "case": d["case"], "impl": impl, "spec": want,
                                   "why": f"regression of fixed finding {f.fid}", "python": snippet2(d["case"])})
                continue
            (impl, m, s, fr), = evaluate([d["case"]], model_ok)
        except Exception as e:  # noqa
            rep.oblige(f"finding:{f.fid}", False, f"cannot replay {f.witness}: {e}")
            continue
        fails = not spec_matches(impl, project_const(d["case"], s))
        if f.kind == "open" and f.cls in ("K_const_concl", "K_flatten_key", "K_selected_let"):
            fails7 = not spec_matches(impl, project_const(d["case"], s))
            if fails7 and impl == d.get("impl", impl) and round7_defect_behaviour(d["case"], impl, s):
                rep.known(f)
            elif fails7:
                rep.violation({"kind": "counterexample", "case": d["case"], "impl": impl, "spec": sorted(s),
                               "why": f"witness of {f.fid} fails differently from what was recorded", "python": snippet(d["case"])})
            else:
                rep.note(f"known finding {f.fid} no longer reproduces on its witness")
            continue
        if f.kind == "open" and f.cls == "K_quant_base_alt":
            (sd,) = core.coq_values(PROP, HEADER_SPEC, [f"spec_sx {rule_term(quant_defect_prog(d['case']))} {world_term(d['case']['world'])}"],
                                    chunk=240, tag=f"valsq{os.getpid()}")
            if fails and impl == d.get("impl", impl) and impl[0] == 0 and sorted(impl[1]) == quant_predicted(d["case"], s, sd):
                rep.known(f)
            elif fails:
                rep.violation({"kind": "counterexample", "case": d["case"], "impl": impl, "spec": sorted(s),
                               "why": f"witness of {f.fid} fails differently from what was recorded", "python": snippet(d["case"])})
            else:
                rep.note(f"known finding {f.fid} no longer reproduces on its witness")
            continue
        if f.kind == "open" and f.cls == "K_leafflag":
            (impl0,) = run_impl_bulk([strip_forms(d["case"])])
            if fails and spec_matches(impl0, s) and impl == d.get("impl", impl):
                rep.known(f)
            elif fails:
                rep.violation({"kind": "counterexample", "case": d["case"], "impl": impl, "spec": sorted(s),
                               "why": f"witness of {f.fid} fails differently from what was recorded", "python": snippet(d["case"])})
            else:
                rep.note(f"known finding {f.fid} no longer reproduces on its witness")
            continue
        if f.kind == "open" and f.cls == "K_stale_parent":
            # the construction model has no evaluation history: the narrow match is differential -- the same program
            # without the evaluation between the two with-blocks agrees with the Spec, and the output is the recorded one
            plain = {k0: v0 for k0, v0 in d["case"].items() if k0 != "mid_evals"}
            (impl0, _m0, s0, _fr0), = evaluate([plain], model_ok)
            if fails and spec_matches(impl0, s0) and impl == d.get("impl", impl):
                rep.known(f)
            elif fails:
                rep.violation({"kind": "counterexample", "case": d["case"], "impl": impl, "spec": sorted(s),
                               "why": f"witness of {f.fid} fails differently from what was recorded", "python": snippet(d["case"])})
            else:
                rep.note(f"known finding {f.fid} no longer reproduces on its witness")
            continue
        if f.kind == "open":
            if fails and (not model_ok or model_matches(impl, m)) and impl == d.get("impl", impl):
                rep.known(f)
            elif fails:
                rep.violation({"kind": "counterexample", "case": d["case"], "impl": impl, "model": m, "spec": sorted(s),
                               "why": f"witness of {f.fid} fails differently from what was recorded", "python": snippet(d["case"])})
            else:
                rep.note(f"known finding {f.fid} no longer reproduces on its witness")
        else:
            if fails:
                rep.violation({"kind": "counterexample", "case": d["case"], "impl": impl, "spec": sorted(s),
                               "why": f"regression of fixed finding {f.fid}", "python": snippet(d["case"])})
    return rep.finish()


def main():
    cases = json.load(sys.stdin)
    json.dump([run_case2(c) if c.get("two") else run_case(c) for c in cases], sys.stdout)


if __name__ == "__main__":
    main()
