"""C19 -- unresolvable JSON type tags fail with the documented serialisation errors only.

Tie: translator (Gen/JsonResolve.v: the guard chain of SubclassJSONSerializer.from_json, regenerated every run; the
proofs in Json/ResolveProofs.v are re-checked against it) + correspondence: for every tag of an exhaustive table the
real `from_json(json.loads(json.dumps(document)))` is compared with the model and with the Spec's decision table,
both evaluated in Coq on the oracle answers the harness observed by asking the real importlib / getattr / isinstance /
issubclass / registry the same questions.
"""
from __future__ import annotations

import importlib
import json
import math
import struct
import sys
import types
import uuid
from typing import Any, Dict, List, Optional, Tuple, TypeVar

from . import core
from .core import Report

PROP = "C19"
HEADER = """From Coq Require Import List ZArith Bool.
From Krrood Require Import Base.Sx Json.JsonVal Json.ResolveSpec Gen.JsonResolve Json.Resolve.
Import ListNotations. Open Scope Z_scope."""
HEADER_SPEC = """From Coq Require Import List ZArith Bool.
From Krrood Require Import Base.Sx Json.JsonVal Json.ResolveSpec.
Import ListNotations. Open Scope Z_scope."""

JERR = {"MissingTypeError": 1, "InvalidTypeFormatError": 2, "UnknownModuleError": 3, "ClassNotFoundError": 4,
        "ClassNotSerializableError": 5, "ClassNotDeserializableError": 6}
PYEXN = {"AttributeError": 101, "ValueError": 102, "TypeError": 103, "KeyError": 104, "ImportError": 105,
         "ModuleNotFoundError": 106, "NotImplementedError": 107}
PYEXN_COQ = {"AttributeError": "AttributeError", "ValueError": "ValueError", "TypeError": "TypeError", "KeyError": "KeyError",
             "ImportError": "ImportError", "ModuleNotFoundError": "ModuleNotFoundError",
             "NotImplementedError": "NotImplementedError"}
EXPLAIN = ("outcome encoding: [10,c] built by class c._from_json | [11,d] built by registered deserialiser d | "
           "[20,k] JSONSerializationError subclass k (1 Missing 2 InvalidFormat 3 UnknownModule 4 ClassNotFound 6 NotDeserializable) | "
           "[52,a,b] a plain call gave a but the same call inside a @contextmanager `with` block gave b | [30,k] foreign exception escaped (101 Attribute 102 Value 103 Type 104 Key 105 Import 106 ModuleNotFound 107 NotImplemented 199 other) | [99,..] unexpected object")
UUID0 = "00000000-0000-0000-0000-000000000005"


# ------------------------------------------------------------------ Gallina printers
def strlit(s: str) -> str:
    return "[" + "; ".join(str(ord(c)) for c in s) + "]"


def float_bits(x: float) -> int:
    return struct.unpack(">Q", struct.pack(">d", x))[0]


def jv_term(v) -> str:
    if v is None:
        return "JNull"
    if isinstance(v, bool):
        return f"(JBool {'true' if v else 'false'})"
    if isinstance(v, int):
        return f"(JInt {core.zlit(v)})"
    if isinstance(v, float):
        return f"(JFloat {float_bits(v)})"
    if isinstance(v, str):
        return f"(JStr {strlit(v)})"
    if isinstance(v, (list, tuple)):
        return "(JArr [" + "; ".join(jv_term(x) for x in v) + "])"
    if isinstance(v, dict):
        return "(JObj [" + "; ".join(f"({strlit(k)}, {jv_term(x)})" for k, x in v.items()) + "])"
    raise TypeError(v)


# ------------------------------------------------------------------ the harness world (synthetic modules)
class Marker:
    def __init__(self, deser, data):
        self.deser, self.data = deser, data


_WORLD = None


def world():
    """Create (once per process) the synthetic modules c19w and c19w.sub with one object of every kind."""
    global _WORLD
    if _WORLD is not None:
        return _WORLD
    from krrood.adapters.json_serializer import SubclassJSONSerializer, JSONSerializableTypeRegistry
    # registry history: the singleton is cleared once and krrood's own uuid.UUID registration is repeated on the new instance;
    # everything the harness registers below goes to (and must be read from) the new instance
    from krrood.adapters.json_serializer import serialize_uuid, deserialize_uuid
    JSONSerializableTypeRegistry.clear_instance()
    JSONSerializableTypeRegistry().register(uuid.UUID, serialize_uuid, deserialize_uuid)
    pk = types.ModuleType("c19w")
    pk.__path__ = []  # a package, so that c19w.sub / c19w.nosuch are looked up (and not found) below it
    sub = types.ModuleType("c19w.sub")
    sys.modules["c19w"] = pk
    sys.modules["c19w.sub"] = sub
    pk.sub = sub

    def mkser(name, bases, mod, impl=True):
        ns: Dict[str, Any] = {"__module__": mod, "__qualname__": name}
        if impl:
            ns["_from_json"] = classmethod(lambda cls, data, **kw: cls())
        return type(name, bases, ns)

    SerA = mkser("SerA", (SubclassJSONSerializer,), "c19w.sub")
    SerB = mkser("SerB", (SerA,), "c19w.sub", impl=False)           # inherits SerA's _from_json
    SerC = mkser("SerC", (SerB,), "c19w")
    NoImpl = mkser("NoImpl", (SubclassJSONSerializer,), "c19w.sub", impl=False)   # K_abstract (former C19-b)
    NoImpl2 = mkser("NoImpl2", (NoImpl,), "c19w.sub", impl=False)                 # K_abstract, depth 2
    Plain = type("Plain", (), {"__module__": "c19w.sub"})
    Reg = type("Reg", (), {"__module__": "c19w.sub"})
    RegSub = type("RegSub", (Reg,), {"__module__": "c19w.sub"})
    Meta = type("Meta", (type,), {"__module__": "c19w.sub"})
    WithMeta = Meta("WithMeta", (), {"__module__": "c19w.sub"})

    def reg_ser(o):
        return {"__json_type__": "c19w.sub.Reg"}

    def reg_deser(data, **kw):
        return Marker(reg_deser, data)

    JSONSerializableTypeRegistry().register(Reg, reg_ser, reg_deser)
    registered = {id(Reg): reg_deser}
    # unregistered subclasses of registered types: the tag names a class that is NOT deserialisable
    TaggedUUID = type("TaggedUUID", (uuid.UUID,), {"__module__": "c19w.sub"})
    RegSubSub = type("RegSubSub", (RegSub,), {"__module__": "c19w.sub"})
    setattr(sub, "TaggedUUID", TaggedUUID)
    setattr(sub, "RegSubSub", RegSubSub)
    # a class that is BOTH a SubclassJSONSerializer and registered: the Spec gives precedence to the class's own _from_json
    SerReg = mkser("SerReg", (SubclassJSONSerializer,), "c19w.sub")
    JSONSerializableTypeRegistry().register(SerReg, reg_ser, reg_deser)
    registered[id(SerReg)] = reg_deser
    setattr(sub, "SerReg", SerReg)
    # abstract (no _from_json) AND registered: K_abstract_registered
    NoImplReg = mkser("NoImplReg", (SubclassJSONSerializer,), "c19w.sub", impl=False)
    JSONSerializableTypeRegistry().register(NoImplReg, reg_ser, reg_deser)
    registered[id(NoImplReg)] = reg_deser
    setattr(sub, "NoImplReg", NoImplReg)
    for k, v in dict(SerA=SerA, SerB=SerB, NoImpl=NoImpl, NoImpl2=NoImpl2, Plain=Plain, Reg=Reg, RegSub=RegSub, Meta=Meta,
                     WithMeta=WithMeta, Alias=SerA, func=lambda: None, T=TypeVar("T"), const=5, none=None,
                     instance=SerA(), text="c19w.sub.SerA", lst=[SerA], UUID=uuid.UUID).items():
        setattr(sub, k, v)
    # classes nested in classes (tag = module + "." + qualified name since 70c605d)
    Inner = mkser("Inner", (SubclassJSONSerializer,), "c19w.sub")
    Inner.__qualname__ = "Outer.Inner"
    Deep = mkser("Deep", (Inner,), "c19w.sub")
    Deep.__qualname__ = "Outer.Mid.Deep"
    Mid = type("Mid", (), {"__module__": "c19w.sub", "__qualname__": "Outer.Mid", "Deep": Deep, "value": 3})
    Outer = type("Outer", (), {"__module__": "c19w.sub", "Inner": Inner, "Mid": Mid, "attr": 7, "method": lambda self: None})
    setattr(sub, "Outer", Outer)
    # a class that is not hashable (metaclass defines __eq__ without __hash__): finding C19-f
    ComparableMeta = type("ComparableMeta", (type,), {"__module__": "c19w.sub", "__eq__": lambda a, b: a is b, "__hash__": None})
    Unhashable = ComparableMeta("Unhashable", (), {"__module__": "c19w.sub"})
    setattr(sub, "Unhashable", Unhashable)
    setattr(sub, "é", SerA)
    setattr(sub, "a b", SerA)
    setattr(sub, "", SerA)          # attribute with the empty name: tag "c19w.sub."
    # modules that EXIST but fail while importing a missing dependency of their own (ModuleNotFoundError whose .name is not the
    # requested module): served by a meta-path finder, so that every import attempt executes them again and fails again
    import importlib.abc
    import importlib.util
    sources = {"c19w.broken": "import c19_missing_dependency_a\nclass X: pass\n",
               "c19broken": "import c19_missing_dependency_b\n",
               "c19w.sub.brokensub": "from c19_missing_pkg.inner import thing\n",
               # modules that exist but raise ImportError (not ModuleNotFoundError) while being imported (former finding C19-c)
               "c19w.importerr": "raise ImportError('this module cannot be imported here')\n",
               "c19w.fromerr": "from uuid import NoSuchNameInUuid\n"}

    class BrokenFinder(importlib.abc.MetaPathFinder, importlib.abc.Loader):
        def find_spec(self, name, path=None, target=None):
            if name in sources:
                return importlib.util.spec_from_loader(name, self)
            return None

        def create_module(self, spec):
            return None

        def exec_module(self, module):
            exec(sources[module.__name__], module.__dict__)

    sub.__path__ = []
    sys.meta_path.append(BrokenFinder())
    # a module with a PEP 562 module-level __getattr__ that lazily imports a missing optional dependency: finding C19-g
    lazy = types.ModuleType("c19w.lazy")

    def _lazy_getattr(name):
        if name == "Present":
            return SerA
        importlib.import_module("c19_optional_dependency_not_installed")
    lazy.__getattr__ = _lazy_getattr
    sys.modules["c19w.lazy"] = lazy
    pk.lazy = lazy
    # registration history for the deserialiser side: a first from_json of the tag is refused, then the type is registered
    LateReg = type("LateReg", (), {"__module__": "c19w.sub"})
    setattr(sub, "LateReg", LateReg)
    try:
        from krrood.adapters.json_serializer import from_json as _fj
        _fj({"__json_type__": "c19w.sub.LateReg"})
        late_first = "returned"
    except Exception as e:  # noqa
        late_first = type(e).__name__
    JSONSerializableTypeRegistry().register(LateReg, reg_ser, reg_deser)
    registered[id(LateReg)] = reg_deser
    pk.SerC = SerC
    pk.Plain = Plain
    _WORLD = {"reg_deser": reg_deser, "registered": registered, "keep": [TaggedUUID, RegSubSub], "late_first": late_first}
    return _WORLD


class Interner:
    def __init__(self):
        self.ids: Dict[int, int] = {}
        self.keep: List[Any] = []

    def __call__(self, o) -> int:
        k = id(o)
        if k not in self.ids:
            self.ids[k] = len(self.ids) + 1
            self.keep.append(o)
        return self.ids[k]


INTERN = Interner()


def exn_code(e: BaseException) -> List[int]:
    from krrood.adapters.json_serializer import JSONSerializationError
    name = type(e).__name__
    if isinstance(e, JSONSerializationError):
        return [20, JERR.get(name, 7)]
    return [30, PYEXN.get(name, 108)]      # any other exception: the model's Exception_


def m_term(res) -> str:
    """('ok', id) | ('exn', name) -> Gallina M term"""
    if res[0] == "ok":
        v = res[1]
        return f"(Ok {'true' if v is True else 'false' if v is False else v})"
    return f"(Exn {PYEXN_COQ.get(res[1], 'Exception_')})"


def probe(descr) -> Dict[str, Any]:
    """Ask the real import machinery what the resolver will ask, independently of krrood's code."""
    from krrood.adapters.json_serializer import SubclassJSONSerializer, JSONSerializableTypeRegistry
    world()
    o: Dict[str, Any] = {"imports": [], "attrs": [], "types": [], "subs": [], "regs": [], "impl": [], "undocumented": [],
                         "abstract": False, "stage": "tag"}
    tag = descr.get("tag")
    if descr.get("absent") or not isinstance(tag, str) or "." not in tag:
        return o
    m, n = tag.rsplit(".", 1)
    if m == "" or m.startswith("."):
        return o                                  # malformed owner part: the resolver must not ask anything
    o["stage"] = "import"

    def imp(name):
        """ask the importer once; record the answer"""
        try:
            mod_ = importlib.import_module(name)
            o["imports"].append((name, ("ok", INTERN(mod_))))
            return mod_
        except BaseException as e:  # noqa
            en = type(e).__name__
            o["imports"].append((name, ("exn", en)))
            if en not in ("ModuleNotFoundError", "ImportError"):
                o["undocumented"].append(f"import_module({name!r}) raised {en}")
            return None

    def attr(owner_, name):
        """ask getattr once; record the answer; returns (found, object)"""
        oid = INTERN(owner_)
        try:
            x = getattr(owner_, name)
            xid = INTERN(x)
            o["attrs"].append((oid, name, ("ok", xid)))
            if isinstance(x, type) and xid not in o["types"]:
                o["types"].append(xid)
            return True, x
        except BaseException as e:  # noqa
            en = type(e).__name__
            o["attrs"].append((oid, name, ("exn", en)))
            if en != "AttributeError":
                o["undocumented"].append(f"getattr(<{type(owner_).__name__}>, {name!r}) raised {en}")
            return False, None

    # the owner of the last name: the module `m`, or -- when `m` is not importable -- the longest importable dotted prefix of
    # `m` followed through classes (the tag format is "<module>.<qualified class name>")
    owner_ = imp(m)
    if owner_ is None:
        if o["imports"][-1][1] not in (("exn", "ModuleNotFoundError"), ("exn", "ImportError")):
            return o
        names = m.split(".")
        for k in range(len(names) - 1, 0, -1):
            mod_ = imp(".".join(names[:k]))
            if mod_ is None:
                if o["imports"][-1][1] not in (("exn", "ModuleNotFoundError"), ("exn", "ImportError")):
                    return o
                continue
            cur = mod_
            for name in names[k:]:
                found, x = attr(cur, name)
                if not found or not isinstance(x, type):
                    cur = None
                    break
                cur = x
            owner_ = cur
            break
    if owner_ is None:
        o["stage"] = "owner"
        return o
    o["stage"] = "getattr"
    found, target = attr(owner_, n)
    if not found:
        return o
    tid = INTERN(target)
    o["stage"] = "class"
    try:
        hash(target)
    except TypeError:
        o["unhashable"] = True
    try:
        b = issubclass(target, SubclassJSONSerializer)
        o["subs"].append((tid, ("ok", bool(b))))
    except BaseException as e:  # noqa
        name = type(e).__name__
        o["subs"].append((tid, ("exn", name)))
        if name != "TypeError" or isinstance(target, type):
            o["undocumented"].append(f"issubclass({tag!r}) raised {name}")
        b = False
    # which deserialiser is registered for EXACTLY this class: observed independently of the registry's lookup code
    # (the harness's own register() calls, then an identity scan of the registry's table; never get_deserializer itself)
    d = None
    try:
        d = world()["registered"].get(id(target))
        if d is None:
            table = getattr(JSONSerializableTypeRegistry(), "_deserializers", None)
            if isinstance(table, dict):
                for k, f in list(table.items()):
                    if k is target:
                        d = f
                        break
    except BaseException as e:  # noqa
        o["undocumented"].append(f"registry inspection raised {type(e).__name__}")
    if d is not None:
        o["regs"].append((tid, INTERN(d)))
    if b:
        try:
            impl = getattr(target._from_json, "__func__", None) is not SubclassJSONSerializer._from_json.__func__
        except BaseException as e:  # noqa
            o["undocumented"].append(f"inspection of _from_json raised {type(e).__name__}")
            impl = True
        if impl:
            o["impl"].append(tid)
        else:
            o["abstract"] = True
    return o


def safe_probe(descr) -> Dict[str, Any]:
    """a probe that fails is an observation ('the harness could not ask'), not a crash of the check"""
    try:
        return probe(descr)
    except BaseException as e:  # noqa
        return {"imports": [], "attrs": [], "types": [], "subs": [], "regs": [], "impl": [], "abstract": False, "stage": "probe-error",
                "undocumented": [f"probe raised {type(e).__name__}: {e}"]}


def known_finding_of(d, pr, im):
    """narrow class rules of the open findings: decidable class of the case AND the defect outcome the faithful model predicts
    (C19-f: the recorded defect outcome; the oracle model takes the registry lookup as total)"""
    imports = [r for _, r in pr.get("imports", [])]
    if ("exn", "RecursionError") in imports and im == [30, 108]:
        return "C19-d"          # hundreds of dotted names: RecursionError from importlib escapes
    attrs = [r for _, _, r in pr.get("attrs", [])]
    if ("exn", "ModuleNotFoundError") in attrs and im == [30, PYEXN["ModuleNotFoundError"]]:
        return "C19-g"          # module-level __getattr__ raising ModuleNotFoundError: escapes from getattr
    if pr.get("unhashable") and im == [30, PYEXN["TypeError"]]:
        return "C19-f"          # unhashable class: TypeError from the registry's dict lookup
    return None


def document(descr) -> dict:
    doc = {"value": UUID0, "own": 0, "kids": []}
    if not descr.get("absent"):
        doc = {"__json_type__": descr["tag"], **doc}
    return doc


def run_impl(descr) -> Any:
    """Deserialise the document (through real JSON text) with the implementation; canonical outcome."""
    from krrood.adapters.json_serializer import SubclassJSONSerializer, from_json, deserialize_uuid
    world()
    import contextlib

    @contextlib.contextmanager
    def scope():
        # a generator-based context manager: contextlib re-throws the exception into the generator and afterwards assigns
        # exc.__traceback__ -- ordinary library handling of a propagating exception, which the error classes must survive
        yield

    text = json.dumps(document(descr))

    def call(inside: bool):
        try:
            if inside:
                with scope():
                    return ("ok", from_json(json.loads(text)))
            return ("ok", from_json(json.loads(text)))
        except BaseException as e:  # noqa
            return ("exn", exn_code(e))

    direct, scoped = call(False), call(True)
    if direct[0] == "exn" or scoped[0] == "exn":
        if direct[0] != scoped[0] or (direct[0] == "exn" and direct[1] != scoped[1]):
            # what the caller receives differs between a plain call and a call inside a `with` block
            return [52, direct[1] if direct[0] == "exn" else [0], scoped[1] if scoped[0] == "exn" else [0]]
        return direct[1]
    r = direct[1]
    if isinstance(r, SubclassJSONSerializer):
        return [10, INTERN(type(r))]
    if isinstance(r, Marker):
        return [11, INTERN(r.deser)]
    if isinstance(r, uuid.UUID):
        return [11, INTERN(deserialize_uuid)]
    return [99, sum(ord(c) for c in type(r).__name__)]


def case_term(descr, pr) -> str:
    extra = {k: v for k, v in document(descr).items() if k != "__json_type__"}
    extra_t = "[" + "; ".join(f"({strlit(k)}, {jv_term(v)})" for k, v in extra.items()) + "]"
    imports = "[" + "; ".join(f"({strlit(m)}, {m_term(r)})" for m, r in pr["imports"]) + "]"
    attrs = "[" + "; ".join(f"({mid}, {strlit(n)}, {m_term(r)})" for mid, n, r in pr["attrs"]) + "]"
    subs = "[" + "; ".join(f"({t}, {m_term(r)})" for t, r in pr["subs"]) + "]"
    regs = "[" + "; ".join(f"({t}, {d})" for t, d in pr["regs"]) + "]"
    tag = "JNull" if descr.get("absent") else jv_term(descr["tag"])
    return ("{| rc_has_tag := %s; rc_tag := %s; rc_extra := %s; rc_imports := %s; rc_attrs := %s; rc_types := %s; "
            "rc_subs := %s; rc_regs := %s; rc_impl := %s |}") % (
        "false" if descr.get("absent") else "true", tag, extra_t, imports, attrs, core.zlist(pr["types"]), subs, regs,
        core.zlist(pr["impl"]))


def snippet(descr) -> str:
    return ("import json; from krrood.adapters.json_serializer import from_json; from harness import c19; c19.world(); "
            f"from_json(json.loads(json.dumps(c19.document({descr!r}))))")


# ------------------------------------------------------------------ the tag table
SAFE_MODULES = ["os", "os.path", "sys", "json", "json.decoder", "typing", "uuid", "collections", "collections.abc", "abc", "enum",
                "dataclasses", "functools", "itertools", "re", "math", "datetime", "decimal", "fractions", "pathlib", "types",
                "importlib", "inspect", "string", "copy", "io", "operator", "numbers", "heapq", "bisect", "textwrap", "struct",
                "time", "builtins", "krrood.adapters.json_serializer", "krrood.utils", "c19w", "c19w.sub"]


def dot_variants(name: str) -> List[str]:
    out = set()
    for i in range(len(name) + 1):
        out.add(name[:i] + "." + name[i:])          # an extra dot at every position
    for i, c in enumerate(name):
        if c == ".":
            out.add(name[:i] + name[i + 1:])         # every dot removed
            out.add(name[:i] + ".." + name[i + 1:])
    return sorted(out)


def tag_table(tier: str, seed: int) -> List[dict]:
    world()
    tags: List[Any] = []
    # every JSON type
    tags += [None, False, True, 0, 1, 5, -1, 2 ** 70, 0.0, -0.0, 1.5, 1e308, float("inf"), float("-inf"), float("nan"),
             "", [], {}, [1], [[]], [""], ["c19w.sub.SerA"], {"a": 1}, {"": ""}, {"__json_type__": "c19w.sub.SerA"}, [None], [0]]
    # strings without a usable module part
    tags += ["x", ".", "..", "...", ".x", "x.", "..x", "x..", "a..b", ".a.b", "a.b.", " ", " . ", "\x00", "\x00.\x00", "é", "é.é",
             "\ud800.x", "0", "1.2", "1e5.x", "-1.5", "None", "None.x", "../x.y", "/etc.passwd", "a/b.c", "a b.c", "a.b c",
             "__main__.x", "__main__.__name__", "CON.x", "nul.x", "x" * 3000 + ".y", "os." + "y" * 3000]
    # objects of every kind in the harness world and in the standard library
    names = ["c19w.sub.SerA", "c19w.sub.SerB", "c19w.SerC", "c19w.sub.NoImpl", "c19w.sub.NoImpl2", "c19w.sub.Plain", "c19w.Plain",
             "c19w.sub.Reg", "c19w.sub.RegSub", "c19w.sub.RegSubSub", "c19w.sub.TaggedUUID", "c19w.sub.SerReg", "c19w.sub.NoImplReg", "c19w.sub.Meta", "c19w.sub.WithMeta", "c19w.sub.Alias", "c19w.sub.func",
             "c19w.sub.T", "c19w.sub.const", "c19w.sub.none", "c19w.sub.instance", "c19w.sub.text", "c19w.sub.lst", "c19w.sub.UUID",
             "c19w.sub.é", "c19w.sub.a b", "c19w.sub.", "c19w.sub", "c19w.nosuch.SerA", "c19w.sub.nosuch", "c19w.sub.SerA.x",
             "c19w.sub.SerA._from_json", "c19w.sub.sera", "C19W.sub.SerA", "c19w.sub.__name__", "c19w.sub.__dict__", "c19w.sub.__class__",
             "uuid.UUID", "uuid.uuid4", "uuid.SafeUUID", "os.path", "os.path.join", "os.sep", "os.environ", "json.dumps", "json.JSONDecoder",
             "json.decoder.JSONDecodeError", "json.dumps.x", "typing.T", "typing.List", "typing.Any", "typing.Generic", "typing.TypeVar",
             "typing.Optional", "typing.NamedTuple", "typing.TYPE_CHECKING", "builtins.int", "builtins.type", "builtins.object",
             "builtins.None", "builtins.True", "builtins.Exception", "builtins.__build_class__", "builtins.print", "builtins.NotImplemented",
             "collections.abc.Mapping", "collections.OrderedDict", "abc.ABC", "abc.ABCMeta", "enum.Enum", "enum.auto", "sys.modules",
             "sys.path", "sys.maxsize", "math.pi", "math.inf", "types.ModuleType", "types.NoneType", "dataclasses.dataclass",
             "dataclasses.MISSING", "functools.partial", "datetime.datetime", "decimal.Decimal", "fractions.Fraction", "pathlib.Path",
             "krrood.adapters.json_serializer.SubclassJSONSerializer", "krrood.adapters.json_serializer.JSONSerializationError",
             "krrood.adapters.json_serializer.MissingTypeError", "krrood.adapters.json_serializer.JSONSerializableTypeRegistry",
             "krrood.adapters.json_serializer.JSON_TYPE_NAME", "krrood.adapters.json_serializer.to_json",
             "krrood.adapters.json_serializer.uuid", "krrood.adapters.json_serializer.leaf_types", "krrood.adapters.json_serializer.Dict",
             "krrood.adapters.json_serializer.Self", "krrood.adapters.nosuch.X", "krrood.nosuch", "krrood.utils.get_full_class_name",
             "krrood.singleton.SingletonMeta", "nosuchmodule_c19.X", "nosuchmodule_c19.sub.X", "os\x00.path", "os.\x00", "OS.path", "Json.dumps",
             " os.path", "os .path", "os.path ", "os.path\n", "\tos.path",
             # modules that exist but whose own import fails on a missing dependency; a type registered after a refused attempt
             "c19w.broken.X", "c19w.broken", "c19w.broken.sub.X", "c19broken.X", "c19broken.a.B", "c19w.sub.brokensub.X", "c19w.sub.brokensub",
             "multiprocessing.popen_spawn_win32.Popen", "multiprocessing.popen_spawn_win32", "c19w.sub.LateReg",
             # modules whose import raises ImportError (former C19-c), findings C19-d (hundreds of dotted names), C19-f (unhashable class)
             "c19w.importerr.X", "c19w.importerr", "c19w.importerr.a.B", "c19w.fromerr.X", "encodings.mbcs.X", "asyncio.windows_events.X",
             "c19w.lazy.Missing", "c19w.lazy.Present", "c19w.lazy.Missing.Inner",
             "a." * 600 + "B", "uuid." + "UUID." * 600 + "B", "c19w.sub.Unhashable",
             # nested classes, and attribute paths through classes / non-classes
             "c19w.sub.Outer.Inner", "c19w.sub.Outer.Mid.Deep", "c19w.sub.Outer.Mid", "c19w.sub.Outer", "c19w.sub.Outer.nosuch",
             "c19w.sub.Outer.nosuch.Inner", "c19w.sub.Outer.Inner.x", "c19w.sub.Outer.attr", "c19w.sub.Outer.attr.x", "c19w.sub.Outer.method",
             "c19w.sub.Outer.method.x", "c19w.sub.Outer.Mid.value", "c19w.sub.Outer.Mid.nosuch.Deep", "c19w.Outer.Inner", "c19w.sub.Inner",
             "c19w.sub.Outer..Inner", "c19w.sub.Outer.Inner.", "c19w.sub.outer.Inner", "c19w.sub.func.Inner", "c19w.sub.instance.Inner",
             "c19w.sub.const.Inner", "c19w.sub.none.Inner", "c19w.sub.factory.<locals>.Local", "c19w.sub.<locals>.Local",
             "c19w.sub.SerB.__base__", "c19w.sub.SerA.__base__", "c19w.sub.SerA.__class__", "c19w.sub.Outer.Inner.__base__", "c19w.sub.SerB.__mro__",
             "c19w.sub.Outer.__dict__", "c19w.sub.Outer.__name__", "c19w.sub.Outer.__class__.__base__", "c19w.sub.Reg.__base__",
             "c19w.sub.RegSub.__base__", "c19w.sub.TaggedUUID.__base__", "c19w.sub.SerReg.__base__", "uuid.UUID.__base__",
             "uuid.UUID.__class__", "uuid.UUID.int", "os.path.join.__class__", "json.JSONDecoder.decode", "collections.abc.Mapping.get"]
    tags += names
    # dots in every position of a resolvable, a module-valued and a function-valued name
    for base in ("c19w.sub.SerA", "os.path", "json.dumps", "uuid.UUID", "c19w.sub.Outer.Inner"):
        tags += dot_variants(base)
    out = [{"absent": True}] + [{"tag": t} for t in tags]
    if tier == "thorough":
        for m in SAFE_MODULES:
            mod = importlib.import_module(m)
            for n in sorted(dir(mod)):
                out.append({"tag": f"{m}.{n}"})
    # seeded extras: random splices of the alphabet {., a, letters of real names} (different every seed)
    rng = core.Rng(seed).fork(19)
    pieces = ["", ".", "..", "c19w", "sub", "SerA", "os", "path", "json", "dumps", "uuid", "UUID", "x", " ", "é", "builtins", "int",
              "NoImpl", "Reg", "typing", "T", "krrood", "adapters", "json_serializer", "SubclassJSONSerializer"]
    for _ in range(150 if tier == "quick" else 3000):
        if rng.chance(0.5):
            k = rng.randint(1, 5)
            parts = [rng.choice(pieces) for _ in range(k)]
            sep = rng.choice([".", ".", ".", ""])
            out.append({"tag": sep.join(parts)})
        else:                                   # one or two edits of a name that resolves somewhere
            t = rng.choice(names)
            for _e in range(rng.randint(1, 2)):
                i = rng.randint(0, len(t))
                op = rng.randint(0, 3)
                if op == 0 and t:
                    t = t[:i] + t[i + 1:]
                elif op == 1:
                    t = t[:i] + rng.choice([".", ".", "_", "x", " "]) + t[i:]
                elif op == 2 and i < len(t):
                    t = t[:i] + t[i].swapcase() + t[i + 1:]
                else:
                    t = t + rng.choice([".", ".x", ".__class__", ".__name__", "s"])
            out.append({"tag": t})
    # distinct
    seen, uniq = set(), []
    for d in out:
        k = repr(d)
        if k not in seen:
            seen.add(k)
            uniq.append(d)
    return uniq


def regen_entry():
    """regeneration step shared by C18 and C19; a refused translation also removes the compiled file of the previous
    translation, so that nothing can be built against a stale Gen/JsonResolve.vo"""
    from translator import t_json
    path = core.COQ / "Gen" / "JsonResolve.v"

    def fn():
        try:
            return t_json.translate(str(core.REPO))
        except Exception:
            for ext in (".vo", ".vok", ".vos", ".glob"):
                q = path.with_suffix(ext)
                if q.exists():
                    q.unlink()
            raise
    return ("Gen/JsonResolve.v", fn, path)


def coqchk(rep: Report, prop: str) -> None:
    """thorough tier: re-check the compiled theorems with the independent checker"""
    rc, out = core.sh(["timeout", "900", "coqchk", "-o", "-silent", "-Q", ".", "Krrood", f"Krrood.Props.{prop}"], cwd=core.COQ, timeout=930)
    ok = rc == 0 and "Axioms: <none>" in out and "type-in-type: <none>" in out and "unsafe (co)fixpoints: <none>" in out
    rep.oblige(f"coqchk:Props/{prop}.vo", ok, "axioms <none>, no type-in-type, no unsafe fixpoints" if ok else out[-400:])


def load_corpus() -> List[Tuple[str, dict]]:
    out = []
    d = core.VERIF / "corpus" / PROP
    if d.is_dir():
        for f in sorted(d.glob("*.json")):
            blob = json.loads(f.read_text())
            for c in blob.get("cases", []):
                out.append((f"corpus/{PROP}/{f.name}", c))
    return out


def run(tier: str, seed: int, replay=None) -> int:
    from translator import t_json
    rep = Report(PROP, tier, seed, "proof")
    rep.trusted = core.COQ_TRUSTED + [
        "source pins, set `json` (pins/json.json): SubclassJSONSerializer._resolve_enclosing_class (hand model [enclosing] in Json/Resolve.v, proved equal to the Spec's owner resolution: C19_enclosing_is_spec), registry register/get_serializer/get_deserializer, module-level from_json, the six error constructors, SingletonMeta.__call__, ormatic.utils.create_engine -- hand-modelled, not regenerated; a change reopens the correspondence obligation",
        "translator/t_json.py (fail-closed ast translator; idiom table: rsplit/startswith/dict.get/isinstance/truthiness as defined in Json/JsonVal.v)",
        "oracle model: importlib.import_module / getattr / isinstance(type) / issubclass / registry as Section variables over their documented behaviours",
        "harness/c19.py: probes of the real import machinery, outcome canonicaliser, synthetic modules c19w / c19w.sub",
        "json.dumps / json.loads carry the document unchanged (compared per case in C18)",
    ]
    rep.assume = ["the Spec follows the qualified-name tag format (70c605d): owner part = longest importable dotted prefix, then attributes through classes only",
                  "importing a module named by a tag raises only ModuleNotFoundError (ValueError for '', TypeError for relative names): "
                  "exceptions raised by executing a broken third-party module are outside the model",
                  "module-level __getattr__ hooks and metaclass __subclasscheck__ overrides that raise are outside the model",
                  "what target_cls._from_json / a registered deserialiser does with a resolvable tag is user code (C18)"]
    rep.rule = ("exhaustive tag table: every JSON type incl. falsy values of each, '', dots at every position of 5 names (one of a nested class), modules that exist but fail on a missing dependency of their own, a type registered after a first refused from_json, all registrations made after JSONSerializableTypeRegistry.clear_instance(), nested-class tags and attribute paths through classes / non-classes (X.__base__, X.method.y, f.<locals>.L), names of modules / "
                "functions / TypeVars / constants / instances / plain, registered, metaclass and abstract classes in the standard library, krrood and "
                "two synthetic modules; plus seeded random splices (150 quick / 3000 thorough); thorough adds every attribute name of "
                f"{len(SAFE_MODULES)} modules; distinct = distinct tag; every case is non-trivial (has its own expected outcome)")
    ok_spec, log = core.coq_make(["Base/Sx.vo", "Json/JsonVal.vo", "Json/ResolveSpec.vo"])
    rep.oblige("build:spec", ok_spec, "" if ok_spec else core.first_error(log))
    model_ok = core.standard_proof_steps(
        rep, PROP, ["Props/C19.vo"],
        regen=[regen_entry()])

    import warnings
    from translator import pins
    with warnings.catch_warnings():          # ast.parse of ormatic/utils.py warns about an escape in one of its docstrings
        warnings.simplefilter("ignore", SyntaxWarning)
        pins.oblige(rep, str(core.REPO), "json", "Json/Resolve.v + oracle model (registry = exact-class lookup on one singleton; module-level from_json delegates; error constructors never fail)")
    if model_ok and tier == "thorough" and not replay:
        coqchk(rep, PROP)
    findings = core.load_findings(PROP)
    corpus = load_corpus()
    if replay:
        items = [("replay", replay["case"])]
    else:
        items = corpus + [("gen", d) for d in tag_table(tier, seed)]
    probes = [safe_probe(d) for _, d in items]
    impls = [run_impl(d) for _, d in items]
    pairs = [(case_term(d, pr), core.sx(im)) for (_, d), pr, im in zip(items, probes, impls)]
    if model_ok:
        codes = core.coq_codes(PROP, HEADER, "rcase", "rcase_code", pairs, chunk=400)
    elif ok_spec:
        rep.note("model not available; comparing the implementation with the Spec only (search for a failing input)")
        codes = core.coq_codes(PROP, HEADER_SPEC, "rcase", "rcase_code_spec", pairs, chunk=400)
    else:
        codes = [0] * len(pairs)
        rep.note("neither model nor Spec could be built; no comparison possible")

    dist: Dict[str, int] = {}
    kf_instances: Dict[str, int] = {}
    failing_by_src: Dict[str, List[Any]] = {}
    bad = []
    for (src, d), pr, im, code in zip(items, probes, impls, codes):
        rep.count(repr(d), True)
        kind = "absent" if d.get("absent") else type(d["tag"]).__name__
        key = f"{kind}/{pr['stage']}/{im[0]}:{im[1] if im[0] in (20, 30) else ''}"
        dist[key] = dist.get(key, 0) + 1
        if pr["undocumented"] and not known_finding_of(d, pr, im):
            rep.note(f"oracle outside the documented behaviours on {d}: {pr['undocumented']}")
        if code == 0:
            continue
        failing_by_src.setdefault(src, []).append(d)
        if code == 1:
            rep.oblige("correspondence:model", False, f"model differs from impl=spec on {d}")
            continue
        # impl != spec
        # K_abstract_registered (excluded from C19_identifies_problem, see Example C19_abstract_registered_divergence): an abstract
        # serialiser class that is also registered gets the documented ClassNotDeserializableError where the Spec's table would
        # use the registry.  Not a violation of the statement (a documented error is raised); counted, narrow match:
        # the class predicate AND impl = model = [20,6].
        kf = known_finding_of(d, pr, im)
        if kf and (code == 2 or not model_ok or kf == "C19-f"):
            kf_instances[kf] = kf_instances.get(kf, 0) + 1
            continue
        if (code == 2 or not model_ok) and pr["abstract"] and pr["regs"] and im == [20, JERR["ClassNotDeserializableError"]]:
            kf_instances["table-divergence:abstract+registered"] = kf_instances.get("table-divergence:abstract+registered", 0) + 1
            continue
        bad.append((d, pr, im, code))
    rep.extra["distribution"] = dist
    rep.extra["known_finding_instances"] = kf_instances
    rep.extra["exhaustive"] = True
    rep.samples = [{"case": d, "impl": im} for (_, d), im in list(zip(items, impls))[:: max(1, len(items) // 8)]][:8]

    # known findings / fixed entries: replay their witnesses
    for f in findings:
        wcases = [d for s, d in corpus if s == f.witness]
        if not wcases and not replay:
            rep.oblige(f"witness:{f.fid}", False, f"{f.witness} missing or empty")
            continue
        failing = failing_by_src.get(f.witness, [])
        if f.kind == "open":
            if failing:
                rep.known(f)
            elif not replay:
                rep.note(f"known finding {f.fid}: witness no longer fails (appears repaired)")
        else:
            for d in failing:
                if not any(d is b[0] for b in bad):
                    bad.append((d, safe_probe(d), run_impl(d), 3))
                rep.note(f"regression of fixed finding {f.fid} on {d}")

    for d, pr, im, code in bad[:5]:
        term = case_term(d, pr)
        try:
            hdr = HEADER if model_ok else HEADER_SPEC
            exprs = [f"spec_rcase {term}"] + ([f"model_rcase {term}"] if model_ok else [])
            vals = core.coq_eval_sx(PROP, hdr, exprs)
        except Exception as e:  # noqa
            vals = [f"<{e}>", None]
        rep.violation({"kind": "counterexample", "case": d, "impl": im, "spec": vals[0], "model": vals[1] if len(vals) > 1 else None,
                       "oracles_observed": {k: pr[k] for k in ("imports", "attrs", "types", "subs", "regs", "impl")},
                       "python": snippet(d), "explanation": EXPLAIN})
    return rep.finish()
