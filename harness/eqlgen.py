"""Shared EQL case library for C01 / C02 / C10: worlds, query ASTs, generator, Gallina emission,
execution against the real engine through the public API, static classification into fragment / finding classes.

A case is a JSON-able dict:
  objs : [{"id": int, "cls": "P"|"T", "key": int, "a": int, "b": int, "items": [int], "kids": [id], "child": id}]
  vars : {"x": "P"|"T"|"int", ...}         doms : {"x": [id or int, ...], ...}
  sels : [operand, ...]                     cond : condition | None
operand  : ["lit", int | [int]] | ["var", name] | ["attr", operand, attr]
condition: ["cmp", op, l, r] | ["contains", container, item] | ["and", l, r] | ["or", l, r] | ["not", c]
           | ["exists", var, c] | ["forall", var, c]
"""
from __future__ import annotations

import operator
from typing import Any, Dict, List, Optional, Tuple

from .core import Rng, zlit

VARS = ["x", "y", "z"]
ATTR_ID = {"a": 0, "b": 1, "items": 2, "kids": 3, "child": 4, "k": 5, "pair[0]": 6, "pair[1]": 7, "geta()": 8, "rows[0]": 9, "rows[1]": 10}
OPS = {"==": "OpEq", "!=": "OpNe", "<": "OpLt", "<=": "OpLe", ">": "OpGt", ">=": "OpGe"}
PYOPS = {"==": operator.eq, "!=": operator.ne, "<": operator.lt, "<=": operator.le, ">": operator.gt, ">=": operator.ge}


# ------------------------------------------------------------------ harness classes (user data)
class P:
    """identity-compared entity"""
    def __init__(self, oid, a, b, items):
        self.oid, self.a, self.b, self.items = oid, a, b, list(items)
        self.kids, self.child = [], self
        self.pair = (a, b)
        self.rows = (list(items), [a, b])      # collection-valued elements of ONE container: x.rows[0] == x.rows[1] compares as sets

    def geta(self):
        return self.a

    # entities are INCOMPARABLE under the order operators (as NaN is, or sets that do not include one another): every
    # order comparison between two of them is False -- which is what apply_op in Eql/Syntax.v says for non-integers.  So
    # not_(x < y) holds for every pair while x >= y holds for none: a rewriting of negated comparisons into the opposite
    # operator (seeded C01-H) is not an equivalence here.
    def __lt__(self, other):
        return False

    __le__ = __gt__ = __ge__ = __lt__

    def __repr__(self):
        return f"P{self.oid}"


class T:
    """value-equal twins: == by key"""
    # user objects may happen to have an attribute of this name; only symbolic expressions are identified by it (before
    # krrood ebb82dc all instances of such a class collapsed into ONE domain element)
    _id_ = 7

    def __init__(self, oid, k, a):
        self.oid, self.k, self.a = oid, k, a

    def __eq__(self, other):
        return isinstance(other, T) and other.k == self.k

    def __hash__(self):
        return hash(("T", self.k))

    def __repr__(self):
        return f"T{self.oid}k{self.k}"


# ------------------------------------------------------------------ typing of operands
def otype(case, e) -> str:
    """'int' | 'P' | 'T' | 'ints' | 'objs'"""
    k = e[0]
    if k == "lit":
        return "ints" if isinstance(e[1], list) else "int"
    if k == "var":
        return case["vars"][e[1]]
    if k in ("idx", "call", "ridx"):
        if otype(case, e[1]) == "P":
            return "ints" if k == "ridx" else "int"
        raise ValueError(f"ill-typed operand {e}")
    if k == "attr":
        t = otype(case, e[1])
        a = e[2]
        if t == "P":
            return {"a": "int", "b": "int", "items": "ints", "kids": "objs", "child": "P"}[a]
        if t == "T":
            return {"a": "int", "k": "int"}[a]
    raise ValueError(f"ill-typed operand {e}")


def opnd_var(e) -> Optional[str]:
    if e[0] == "var":
        return e[1]
    if e[0] in ("attr", "idx", "call", "ridx"):
        return opnd_var(e[1])
    return None


def cond_vars(c) -> List[str]:
    k = c[0]
    if k == "cmp":
        return [v for v in (opnd_var(c[2]), opnd_var(c[3])) if v]
    if k == "contains":
        return [v for v in (opnd_var(c[1]), opnd_var(c[2])) if v]
    if k in ("and", "or"):
        return cond_vars(c[1]) + cond_vars(c[2])
    if k == "not":
        return cond_vars(c[1])
    if k in ("exists", "forall"):
        return [c[1]] + cond_vars(c[2])
    raise ValueError(k)


def cond_fv(c) -> List[str]:
    k = c[0]
    if k in ("cmp", "contains"):
        return cond_vars(c)
    if k in ("and", "or"):
        return cond_fv(c[1]) + cond_fv(c[2])
    if k == "not":
        return cond_fv(c[1])
    return [v for v in cond_fv(c[2]) if v != c[1]]


def has_quant(c) -> bool:
    if c is None:
        return False
    k = c[0]
    if k in ("exists", "forall"):
        return True
    if k in ("and", "or"):
        return has_quant(c[1]) or has_quant(c[2])
    if k == "not":
        return has_quant(c[1])
    return False


def or_is_union(c) -> bool:
    return set(cond_vars(c[1])) != set(cond_vars(c[2]))


# ------------------------------------------------------------------ static classes
def classes(case) -> List[str]:
    """finding / exclusion classes a case falls in (empty list = inside the proved fragment F01)"""
    out = []
    c = case["cond"]

    # (K_notunion -- Union under a negation -- was repaired in 6dfdafd and K_selprod -- a variable selected twice -- in
    # 32abf51: both shapes are ordinary cases of the proved fragment now)
    if c is not None:
        if has_quant(c):
            out.append("K_quant")
            out.extend(quant_classes(case))
    roots = [opnd_var(s) for s in case["sels"]]
    qv = set(r for r in roots if r) | set(cond_vars(c) if c is not None else [])
    if any(len(case["doms"][v]) == 0 for v in qv):
        out.append("K_emptydom")
    return sorted(set(out))


def must_bind(c, truth: bool) -> set:
    """variables certainly bound in every result of the given truth (conservative)"""
    k = c[0]
    if k in ("cmp", "contains"):
        return set(cond_vars(c))
    if k == "and":
        if truth:
            return must_bind(c[1], True) | must_bind(c[2], True)
        return must_bind(c[1], False) & (must_bind(c[1], True) | must_bind(c[2], False))
    if k == "or":
        if truth:
            return must_bind(c[1], True) & must_bind(c[2], True) if or_is_union(c) else \
                must_bind(c[1], True) & (must_bind(c[1], False) | must_bind(c[2], True))
        # since 6dfdafd a Union yields false results from its first (else-if) pass only
        return must_bind(c[1], False) | must_bind(c[2], False)
    if k == "not":
        if c[1][0] in ("exists", "forall"):
            return set()
        return must_bind(c[1], not truth)
    if k == "exists":
        return must_bind(c[2], True) if truth else set()
    return set()


def quant_classes(case) -> List[str]:
    """K_quant_shadow: a quantified variable also occurs outside its quantifier (or is quantified again inside it);
    K_quant_nofalse: a quantifier sits where its FALSE outcome is needed (left of an else-if or_, below a not_ that is not
    directly inverted) -- quantifiers never yield false results;
    K_forall_open: a for_all (written, or built by not_(exists ...)) evaluated while another variable of its condition is
    still unbound -- its candidate solutions are then partial and are narrowed by the first result only"""
    out = set()
    c = case["cond"]
    quantified: List[str] = []
    free: List[str] = [v for v in (opnd_var(s) for s in case["sels"]) if v]

    def forall(y, body, scope, bound):
        if not (set(cond_fv(body)) - {y}) <= bound:
            out.add("K_forall_open")
        if y in scope:
            out.add("K_quant_shadow")
        quantified.append(y)
        walk(body, False, scope | {y}, bound | {y})

    def walk(n, need_false, scope, bound):
        k = n[0]
        if k in ("cmp", "contains"):
            for v in cond_vars(n):
                if v not in scope:
                    free.append(v)
        elif k == "and":
            walk(n[1], need_false, scope, bound)
            walk(n[2], need_false, scope, bound | must_bind(n[1], True))
        elif k == "or":
            union = or_is_union(n)
            walk(n[1], need_false or not union, scope, bound)
            walk(n[2], need_false, scope, bound if union else bound | must_bind(n[1], False))
        elif k == "not":
            q = n[1]
            if q[0] == "exists":
                forall(q[1], ["not", q[2]], scope, bound)
            elif q[0] == "forall":
                if q[1] in scope:
                    out.add("K_quant_shadow")
                quantified.append(q[1])
                walk(["not", q[2]], False, scope | {q[1]}, bound)
            else:
                walk(q, True, scope, bound)
        elif k == "exists":
            if need_false:
                out.add("K_quant_nofalse")
            if n[1] in scope:
                out.add("K_quant_shadow")
            quantified.append(n[1])
            walk(n[2], False, scope | {n[1]}, bound)
        else:
            if need_false:
                out.add("K_quant_nofalse")
            forall(n[1], n[2], scope, bound)

    walk(c, False, frozenset(), frozenset())
    if set(quantified) & set(free) or len(set(quantified)) != len(quantified):
        out.add("K_quant_shadow")
    return sorted(out)


def in_f02(case) -> bool:
    """negation-normal conjunctive / else-if fragment of C02 (plus duplicate-free domains, distinct selected roots)"""
    c = case["cond"]

    def ok(n):
        k = n[0]
        if k in ("cmp", "contains"):
            return True
        if k == "not":
            return n[1][0] in ("cmp", "contains")
        if k == "and":
            return ok(n[1]) and ok(n[2])
        if k == "or":
            return (not or_is_union(n)) and ok(n[1]) and ok(n[2])
        return False

    if c is None or not ok(c):
        return False
    for v, d in case["doms"].items():
        if len(d) != len(set(d)):
            return False
    roots = [opnd_var(s) for s in case["sels"]]
    return len(set(roots)) == len(roots) and set(roots) <= set(cond_vars(c))


# ------------------------------------------------------------------ Gallina emission
def g_val(case, v, t) -> str:
    if t == "int":
        return f"VI {zlit(v)}"
    if t in ("P", "T"):
        return f"VO {v}"
    if t == "ints":
        return "VLI [" + "; ".join(zlit(z) for z in v) + "]"
    if t == "objs":
        return "VLO [" + "; ".join(str(z) for z in v) + "]"
    raise ValueError(t)


def g_opnd(case, e, ix=None) -> str:
    """[ix]: variable name -> number (default: position in VARS); cases with generated variables number them apart"""
    k = e[0]
    if k == "lit":
        return f"(OLit ({g_val(case, e[1], otype(case, e))}))"
    if k == "var":
        return f"(OVar {VARS.index(e[1]) if ix is None else ix[e[1]]}%nat)"
    if k == "idx":       # e.pair[i]: Index(Attribute) -- a function of the value, modelled as one attribute step
        return f"(OAttr {g_opnd(case, e[1], ix)} {ATTR_ID['pair[%d]' % e[2]]}%nat)"
    if k == "call":      # e.geta(): Call(Attribute)
        return f"(OAttr {g_opnd(case, e[1], ix)} {ATTR_ID['geta()']}%nat)"
    if k == "ridx":      # e.rows[i]: Index(Attribute) whose value is itself a collection (of ints)
        return f"(OAttr {g_opnd(case, e[1], ix)} {ATTR_ID['rows[%d]' % e[2]]}%nat)"
    return f"(OAttr {g_opnd(case, e[1], ix)} {ATTR_ID[e[2]]}%nat)"


def g_cond(case, c, ix=None) -> str:
    k = c[0]
    vi = (lambda n: VARS.index(n)) if ix is None else (lambda n: ix[n])
    if k == "cmp":
        return f"(CCmp {OPS[c[1]]} {g_opnd(case, c[2], ix)} {g_opnd(case, c[3], ix)})"
    if k == "contains":
        return f"(CCmp OpContains {g_opnd(case, c[1], ix)} {g_opnd(case, c[2], ix)})"
    if k == "and":
        return f"(mk_and {g_cond(case, c[1], ix)} {g_cond(case, c[2], ix)})"
    if k == "or":
        # with generated variables or_ decides by the Variable instances below them (Eql/EvalDep.v: mk_orD over [dsv])
        return f"({'mk_or' if ix is None or ix.get('#plain') else 'mk_orD dsv'} {g_cond(case, c[1], ix)} {g_cond(case, c[2], ix)})"
    if k == "not":
        return f"(mk_not {g_cond(case, c[1], ix)})"
    if k == "exists":
        return f"(CExists (OVar {vi(c[1])}%nat) {g_cond(case, c[2], ix)})"
    if k == "forall":
        return f"(CForAll {vi(c[1])}%nat {g_cond(case, c[2], ix)})"
    raise ValueError(k)


def g_world(case) -> str:
    objs = []
    for o in case["objs"]:
        if o["cls"] == "P":
            attrs = [(0, f"VI {zlit(o['a'])}"), (1, f"VI {zlit(o['b'])}"),
                     (2, "VLI [" + "; ".join(zlit(z) for z in o["items"]) + "]"),
                     (3, "VLO [" + "; ".join(str(z) for z in o["kids"]) + "]"), (4, f"VO {o['child']}"),
                     (6, f"VI {zlit(o['a'])}"), (7, f"VI {zlit(o['b'])}"), (8, f"VI {zlit(o['a'])}"),
                     (9, "VLI [" + "; ".join(zlit(z) for z in o["items"]) + "]"), (10, f"VLI [{zlit(o['a'])}; {zlit(o['b'])}]")]
        else:
            attrs = [(0, f"VI {zlit(o['a'])}"), (5, f"VI {zlit(o['k'])}")]
        objs.append(f"({o['id']}, {zlit(o['key'])}, [" + "; ".join(f"({a}%nat, {v})" for a, v in attrs) + "])")
    return "[" + "; ".join(objs) + "]"


def g_dom(case, number: int, t: str, dom) -> str:
    # the domain cache presents every element once (HashedIterable keys by identity; since /repo 1997e3c also on
    # the evaluation that fills the cache): the model is given the domain as the cache presents it
    dom = list(dict.fromkeys(dom))
    return f"({number}%nat, [" + "; ".join(g_val(case, v, t) for v in dom) + "])"


def g_case(case) -> str:
    doms = [g_dom(case, VARS.index(name), case["vars"][name], case["doms"][name]) for name in VARS if name in case["vars"]]
    sels = "[" + "; ".join(g_opnd(case, s) for s in case["sels"]) + "]"
    cond = f"(Some {g_cond(case, case['cond'])})" if case["cond"] is not None else "None"
    return ("{| e_world := " + g_world(case) + "; e_doms := [" + "; ".join(doms) + "]; "
            f"e_query := {{| q_sels := {sels}; q_cond := {cond} |}} |}}")


# ---- cases with generated variables (flatten / nested sub-queries): Eql/EvalDepSpec.v, Eql/EvalDep.v
FLAT_BASE, SUBVAR_BASE, SUB_BASE = 10, 30, 50


def dep_names(case) -> List[str]:
    """the generated variables the query needs (used in the query, or in the source of a needed one), in dependency order"""
    flat = case.get("flat") or {}
    sub = case.get("sub") or {}
    c = case["cond"]
    need = set(cond_vars(c) if c is not None else []) | set(v for v in (opnd_var(s) for s in case["sels"]) if v)
    for name in reversed(list(flat)):
        if name in need and opnd_var(flat[name]):
            need.add(opnd_var(flat[name]))
    return [n for n in list(flat) + list(sub) if n in need]


def g_case_dep(case) -> str:
    """a [dcase]: plain variables keep their numbers (position in VARS); z = flatten(e) is number FLAT_BASE + k in
    dependency order; z = an(entity(z0, c)) is number SUB_BASE + k, its own variable z0 number SUBVAR_BASE + k with the
    sub-query's domain.  Declarations are listed most-dependent first."""
    flat = case.get("flat") or {}
    sub = case.get("sub") or {}
    names = dep_names(case)
    ix = {n: VARS.index(n) for n in case["vars"]}
    k = 0
    for n in names:
        if n in flat:
            ix[n] = FLAT_BASE + k
            k += 1
    for j, n in enumerate(m for m in names if m in sub):
        ix[n] = SUB_BASE + j
    doms = [g_dom(case, VARS.index(name), case["vars"][name], case["doms"][name]) for name in VARS if name in case["vars"]]
    decls = []
    for n in names:
        if n in flat:
            decls.append(f"({ix[n]}%nat, FlatOf {g_opnd(case, flat[n], ix)})")
        else:
            z0 = SUBVAR_BASE + (ix[n] - SUB_BASE)
            sc = sub[n]["cond"]
            # inside the sub-query its name stands for the sub-query's own variable
            gc = f"(Some {g_cond(case, sc, dict(ix, **{n: z0, '#plain': True}))})" if sc is not None else "None"
            decls.append(f"({ix[n]}%nat, SubOf {z0}%nat {gc})")
            doms.append(g_dom(case, z0, sub[n]["type"], sub[n]["dom"]))
    sels = "[" + "; ".join(g_opnd(case, s, ix) for s in case["sels"]) + "]"
    cond = f"(Some {g_cond(case, case['cond'], ix)})" if case["cond"] is not None else "None"
    ecase = ("{| e_world := " + g_world(case) + "; e_doms := [" + "; ".join(doms) + "]; "
             f"e_query := {{| q_sels := {sels}; q_cond := {cond} |}} |}}")
    return "(let dsv : decls := [" + "; ".join(reversed(decls)) + "] in {| dc_case := " + ecase + "; dc_decls := dsv |})"


HEADER = """From Coq Require Import List ZArith.
From Krrood Require Import Base.Sx Eql.Syntax Eql.Sat Eql.Eval Eql.Show Eql.ShowFrag.
Import ListNotations. Open Scope Z_scope."""
HEADER_SPEC = HEADER  # Show.v depends on the model; when the model is broken the harness falls back to SPEC_ONLY below
SPEC_ONLY_HEADER = """From Coq Require Import List ZArith.
From Krrood Require Import Base.Sx Eql.Syntax Eql.Sat Eql.ShowSpec.
Import ListNotations. Open Scope Z_scope."""
DEP_HEADER = """From Coq Require Import List ZArith.
From Krrood Require Import Base.Sx Eql.Syntax Eql.Sat Eql.Eval Eql.Show Eql.EvalDepSpec Eql.EvalDep Eql.ShowDep.
Import ListNotations. Open Scope Z_scope."""
DEP_FRAG_HEADER = """From Coq Require Import List ZArith.
From Krrood Require Import Base.Sx Eql.Syntax Eql.Sat Eql.Eval Eql.Show Eql.EvalDepSpec Eql.EvalDep Eql.ShowDep Eql.ShowDepFrag.
Import ListNotations. Open Scope Z_scope."""
DEP_SPEC_ONLY_HEADER = """From Coq Require Import List ZArith.
From Krrood Require Import Base.Sx Eql.Syntax Eql.Sat Eql.ShowSpec Eql.EvalDepSpec Eql.ShowDepSpec.
Import ListNotations. Open Scope Z_scope."""


# ------------------------------------------------------------------ running the implementation
def build_world(case):
    objs: Dict[int, Any] = {}
    for o in case["objs"]:
        if o["cls"] == "P":
            objs[o["id"]] = P(o["id"], o["a"], o["b"], o["items"])
        else:
            objs[o["id"]] = T(o["id"], o["k"], o["a"])
    for o in case["objs"]:
        if o["cls"] == "P":
            objs[o["id"]].kids = [objs[i] for i in o["kids"]]
            objs[o["id"]].child = objs[o["child"]]
    return objs


def canon_val(v) -> Any:
    if isinstance(v, bool):
        return [0, int(v)]
    if isinstance(v, int):
        return [0, v]
    if isinstance(v, (P, T)):
        return [1, v.oid]
    if isinstance(v, list):
        if all(isinstance(z, int) for z in v):
            return [2, list(v)] if v or True else None
        return [3, [z.oid for z in v]]
    raise TypeError(f"cannot canonicalise {v!r}")


def flat_over_twins(case) -> bool:
    """a flattened collection holds value-equal twins (class T): its elements are not characterised by contains(e, z),
    which compares with ==, so the first-order reading of [spec_case] is not the Spec there"""
    tids = set(o["id"] for o in case["objs"] if o["cls"] == "T")
    return bool(case.get("flat")) and any(i in tids for o in case["objs"] if o["cls"] == "P" for i in o["kids"])


def spec_case(case) -> dict:
    """the first-order reading of a case with flattened collections: w = flatten(e) is a variable over all objects with
    the extra conjunct contains(e, w).  Cases without "flat" are returned unchanged."""
    if not case.get("flat") and not case.get("sub"):
        return case
    sc = {k: v for k, v in case.items() if k not in ("flat", "sub")}
    sc["vars"] = dict(case["vars"])
    sc["doms"] = dict(case["doms"])
    pids = [o["id"] for o in case["objs"] if o["cls"] == "P"]
    tids = [o["id"] for o in case["objs"] if o["cls"] == "T"]
    kid_ids = set(i for o in case["objs"] if o["cls"] == "P" for i in o["kids"])
    kids_are_twins = bool(kid_ids) and kid_ids <= set(tids)     # collections of value-equal twins (gen_flat_twin_case)
    c = case["cond"]
    used = set(cond_vars(c) if c is not None else []) | set(v for v in (opnd_var(s) for s in case["sels"]) if v)
    def under_exists(n, name, member):
        """put the membership conjunct inside the exists that quantifies the flattened collection [name]"""
        k = n[0]
        if k == "exists" and n[1] == name:
            return ["exists", name, ["and", member, n[2]]], True
        if k in ("and", "or"):
            l, fl = under_exists(n[1], name, member)
            if fl:
                return [k, l, n[2]], True
            r, fr = under_exists(n[2], name, member)
            return [k, n[1], r], fr
        if k == "not":
            m, f = under_exists(n[1], name, member)
            return ["not", m], f
        if k in ("exists", "forall"):
            m, f = under_exists(n[2], name, member)
            return [k, n[1], m], f
        return n, False

    for name, e in reversed(list((case.get("flat") or {}).items())):
        if name not in used:
            continue        # (a shrunk case) the flattened collection no longer occurs in the query
        ints = e[0] == "attr" and e[2] == "items"
        sc["vars"][name] = "int" if ints else ("T" if kids_are_twins else "P")
        sc["doms"][name] = [0, 1, 2] if ints else (list(tids) if kids_are_twins else list(pids))
        member = ["contains", e, ["var", name]]
        done = False
        if c is not None:
            c2, done = under_exists(c, name, member)
            if done:
                c = c2
        if not done:
            c = member if c is None else ["and", member, c]
    # z = an(entity(z0, c_z)): a variable over z0's domain with the extra conjunct c_z
    for name, sub in (case.get("sub") or {}).items():
        if name not in used:
            continue
        sc["vars"][name] = sub["type"]
        sc["doms"][name] = list(sub["dom"])
        if sub["cond"] is not None:
            c = sub["cond"] if c is None else ["and", sub["cond"], c]
    sc["cond"] = c
    return sc


def build_query(case, objs, quantifier="an", **qkw):
    from krrood.entity_query_language.entity import let, entity, set_of, and_, or_, not_, contains, exists, for_all, flatten
    from krrood.entity_query_language.quantify_entity import an, the

    # case["abc"]: int variables are declared with an abstract base class of which int is a VIRTUAL subclass
    # (numbers.Integral): let() must filter the domain with isinstance, not by the type's real subclasses (seeded C01-N)
    types = {"P": P, "T": T, "int": __import__("numbers").Integral if case.get("abc") else int}
    vs = {}
    for name in VARS:
        if name in case["vars"]:
            t = case["vars"][name]
            dom = [objs[i] if t != "int" else i for i in case["doms"][name]]
            vs[name] = let(types[t], dom, name=name)

    shared = {}     # case["share"]: ONE node object per attribute / index / call expression, used wherever it is written

    def opnd(e):
        k = e[0]
        if k == "lit":
            return list(e[1]) if isinstance(e[1], list) else e[1]
        if k == "var":
            return vs[e[1]]
        key = __import__("json").dumps(e)
        if case.get("share") and key in shared:
            return shared[key]
        if k == "idx":
            node = getattr(opnd(e[1]), "pair")[e[2]]
        elif k == "ridx":
            node = getattr(opnd(e[1]), "rows")[e[2]]
        elif k == "call":
            node = opnd(e[1]).geta()
        else:
            node = getattr(opnd(e[1]), e[2])
        shared[key] = node
        return node

    # flattened collections: w = flatten(x.kids) is used like a variable that ranges over the elements of x.kids
    for name, e in (case.get("flat") or {}).items():
        vs[name] = flatten(opnd(e))

    def cond(c):
        k = c[0]
        if case.get("share") == 2 and k in ("cmp", "contains") and not (len(c) == 5 and c[4] == "bare"):
            # share == 2: also ONE Comparator object per written comparison
            key = "c:" + __import__("json").dumps(c)
            if key not in shared:
                shared[key] = cond0(c)
            return shared[key]
        return cond0(c)

    def cond0(c):
        k = c[0]
        if k == "cmp":
            if len(c) == 5 and c[4] == "bare":
                # a BARE attribute or int variable used as a condition (its truthiness); for the analysis, the model and the
                # Spec it is the comparison `operand != 0` (the operands used are int-valued)
                return opnd(c[2])
            if len(c) == 5 and c[4] == "const":
                # a Python bool CONSTANT given as a condition (ConditionType documents bool; read by its truth value since
                # krrood 482b540); for the analysis, the model and the Spec it is the comparison of two int literals
                return bool(PYOPS[c[1]](c[2][1], c[3][1]))
            l, r = opnd(c[2]), opnd(c[3])
            return {"==": l.__eq__, "!=": l.__ne__, "<": l.__lt__, "<=": l.__le__, ">": l.__gt__, ">=": l.__ge__}[c[1]](r)
        if k == "contains":
            return contains(opnd(c[1]), opnd(c[2]))
        if k == "and":
            return and_(cond(c[1]), cond(c[2]))
        if k == "or":
            return or_(cond(c[1]), cond(c[2]))
        if k == "not":
            return not_(cond(c[1]))
        if k == "exists":
            return exists(vs[c[1]], cond(c[2]))
        if k == "forall":
            return for_all(vs[c[1]], cond(c[2]))
        raise ValueError(k)

    # nested sub-queries: z = an(entity(let(P, dom), c_z)) is used like a variable that ranges over the sub-query's answers
    for name, sub in (case.get("sub") or {}).items():
        vs[name] = let(types[sub["type"]], [objs[i] if sub["type"] != "int" else i for i in sub["dom"]], name=name)
    for name, sub in (case.get("sub") or {}).items():
        inner = vs[name]
        vs[name] = an(entity(inner, cond(sub["cond"])) if sub["cond"] is not None else entity(inner))

    sels = [opnd(s) for s in case["sels"]]
    c = cond(case["cond"]) if case["cond"] is not None else None
    quant = an if quantifier == "an" else the
    if len(sels) == 1 and not case.get("force_setof"):
        d = entity(sels[0], c) if c is not None else entity(sels[0])
        return quant(d, **qkw), sels, True
    d = set_of(sels, c) if c is not None else set_of(sels)
    return quant(d, **qkw), sels, False


def run_impl(case) -> Any:
    """rows in yield order, canonical; or ["exc", name]"""
    try:
        objs = build_world(case)
        q, sels, single = build_query(case, objs)
        rows = []
        for r in q.evaluate():
            rows.append([canon_val(r)] if single else [canon_val(r[s]) for s in sels])
        return rows
    except Exception as e:  # noqa
        return ["exc", type(e).__name__]


def snippet(case) -> str:
    return ("import json; from harness import eqlgen\n"
            f"case = json.loads({__import__('json').dumps(__import__('json').dumps(case))})\n"
            "print(eqlgen.run_impl(case))")


# ------------------------------------------------------------------ generator
def gen_world(rng: Rng, twins: bool = False) -> List[dict]:
    n = rng.choice([0, 1, 2, 2, 3, 3, 3, 4, 4, 5])
    objs = []
    for i in range(1, n + 1):
        objs.append({"id": i, "cls": "P", "key": i, "a": rng.randint(0, 2), "b": rng.randint(0, 2),
                     "items": [rng.randint(0, 2) for _ in range(rng.randint(0, 2))], "kids": [], "child": i})
    for o in objs:
        o["kids"] = [rng.randint(1, n) for _ in range(rng.randint(0, 2))]
        o["child"] = rng.randint(1, n)
    m = rng.randint(0, 3) if rng.chance(0.5) else 0
    if twins:
        m = rng.randint(2, 4)
    for j in range(1, m + 1):
        k = rng.randint(0, 1) if not twins or j > 2 else 0     # with twins: at least two distinct objects that compare equal
        objs.append({"id": 100 + j, "cls": "T", "key": 1000 + k, "k": k, "a": rng.randint(0, 2)})
    return objs


def gen_sym_exists(rng: Rng) -> dict:
    """exists over z with TWO other variables x, y that range over the same objects: the assignments (x=a, y=b) and
    (x=b, y=a) use the same values in swapped roles, so a de-duplication that forgets which variable holds which value
    loses rows (seeded change C01-C)"""
    n = rng.randint(2, 4)
    objs = [{"id": i, "cls": "P", "key": i, "a": rng.randint(0, 2), "b": rng.randint(0, 2), "items": [], "kids": [],
             "child": rng.randint(1, n)} for i in range(1, n + 1)]
    ids = [o["id"] for o in objs]
    dom = rng.sample(ids, rng.randint(2, n))
    case: Dict[str, Any] = {"objs": objs, "vars": {"x": "P", "y": "P", "z": "P"},
                            "doms": {"x": dom, "y": rng.sample(dom, len(dom)), "z": rng.sample(ids, rng.randint(1, n))}}

    def link(v):
        za = ["attr", ["var", "z"], rng.choice(["a", "b"])]
        va = ["attr", ["var", v], rng.choice(["a", "b"])]
        return ["cmp", rng.choice(["<=", ">=", "!=", "==", "<"]), va, za] if rng.chance(0.7) else \
               ["cmp", rng.choice(["==", "!="]), ["attr", ["var", v], "child"], ["var", "z"]]

    body = ["and", link("x"), link("y")] if rng.chance(0.8) else ["or", link("x"), link("y")]
    q = ["exists", "z", body]
    case["cond"] = q if rng.chance(0.6) else ["and", ["cmp", rng.choice(["!=", "<=", ">="]), ["attr", ["var", "x"], "a"],
                                                       ["attr", ["var", "y"], rng.choice(["a", "b"])]], q]
    case["sels"] = [["var", "x"], ["var", "y"]] if rng.chance(0.8) else [["var", rng.choice(["x", "y"])]]
    return case


def gen_twin_exists(rng: Rng) -> dict:
    """exists over y with a free variable x that ranges over value-equal but DISTINCT objects (class T compares by key):
    a de-duplication of the other variables' bindings by VALUE instead of identity loses the twin's row (seeded C01-A)"""
    n = rng.randint(1, 3)
    objs = [{"id": i, "cls": "P", "key": i, "a": rng.randint(0, 2), "b": rng.randint(0, 2), "items": [], "kids": [],
             "child": rng.randint(1, n)} for i in range(1, n + 1)]
    m = rng.randint(2, 4)
    for j in range(1, m + 1):
        k = 0 if j <= 2 else rng.randint(0, 1)
        objs.append({"id": 100 + j, "cls": "T", "key": 1000 + k, "k": k, "a": rng.randint(0, 2)})
    tids = [o["id"] for o in objs if o["cls"] == "T"]
    pids = [o["id"] for o in objs if o["cls"] == "P"]
    case: Dict[str, Any] = {"objs": objs, "vars": {"x": "T", "y": "P"},
                            "doms": {"x": rng.sample(tids, len(tids)), "y": rng.sample(pids, rng.randint(1, n))}}
    xa = ["attr", ["var", "x"], rng.choice(["a", "k"])]
    body = ["cmp", rng.choice(["<=", ">=", "!=", "=="]), ["attr", ["var", "y"], rng.choice(["a", "b"])], xa]
    if rng.chance(0.3):
        body = ["and", body, ["cmp", rng.choice([">=", "<="]), ["attr", ["var", "y"], "a"], ["lit", rng.randint(0, 2)]]]
    q = ["exists", "y", body]
    case["cond"] = q if rng.chance(0.7) else ["and", ["cmp", rng.choice([">=", "<=", "!="]), xa, ["lit", rng.randint(0, 2)]], q]
    case["sels"] = [["var", "x"]]
    return case


def gen_flat_case(rng: Rng, allow_empty: bool = False) -> dict:
    """a query over a flattened collection attribute: z = flatten(x.kids) (or flatten(x.child.kids)) used in conditions and
    selections next to x (and possibly a second variable).  Model: Eql/EvalDep.v (generated variables), Spec
    Eql/EvalDepSpec.v, cross-checked against the first-order reading of [spec_case].  Every flattened collection is
    non-empty unless [allow_empty] (profile flat0): an empty one makes the flatten variable range over nothing, which is
    the empty-domain class (finding C01-h2, witness corpus/C01/kf_emptyflat.json)."""
    n = rng.randint(1, 4)
    objs = [{"id": i, "cls": "P", "key": i, "a": rng.randint(0, 2), "b": rng.randint(0, 2),
             "items": [rng.randint(0, 2) for _ in range(rng.randint(0, 2))],
             "kids": [rng.randint(1, n) for _ in range(rng.choice([1, 1, 2, 2, 3]))], "child": rng.randint(1, n)}
            for i in range(1, n + 1)]
    ids = [o["id"] for o in objs]
    case: Dict[str, Any] = {"objs": objs, "vars": {"x": "P"}, "doms": {"x": rng.sample(ids, rng.randint(1, n))}}
    if allow_empty:
        # profile flat0: some collections are empty, so that the flatten variable may range over nothing (the
        # empty-domain finding class with flatten, C01-h2): compared three-way, tolerated only with impl = model
        ra = rng.fork(977)
        for o in objs:
            if ra.chance(0.4):
                o["kids"] = []
    if rng.chance(0.4):
        if rng.chance(0.5):
            case["vars"]["y"], case["doms"]["y"] = "P", rng.sample(ids, rng.randint(1, n))
        else:
            case["vars"]["y"], case["doms"]["y"] = "int", list(dict.fromkeys(rng.randint(0, 2) for _ in range(rng.randint(1, 3))))
    src = ["attr", ["var", "x"], "kids"] if rng.chance(0.8) else ["attr", ["attr", ["var", "x"], "child"], "kids"]
    names = list(case["vars"]) + ["z"]
    typ = dict(case["vars"], z="P")

    def iop(allow_lit=True):
        if allow_lit and rng.chance(0.3):
            return ["lit", rng.randint(0, 2)]
        nm = rng.choice(names)
        if typ[nm] == "int":
            return ["var", nm]
        return ["attr", ["var", nm], rng.choice(["a", "b"])] if rng.chance(0.85) else ["attr", ["attr", ["var", nm], "child"], "a"]

    def atom():
        r = rng.random()
        pv = [nm for nm in names if typ[nm] == "P"]
        if r < 0.15:
            return ["cmp", rng.choice(["==", "!="]), ["var", rng.choice(pv)], ["var", rng.choice(pv)] if rng.chance(0.6) else ["attr", ["var", rng.choice(pv)], "child"]]
        if r < 0.25:
            return ["contains", ["attr", ["var", rng.choice(pv)], "kids"], ["var", rng.choice(pv)]]
        if r < 0.33:
            return ["contains", ["attr", ["var", rng.choice(pv)], "items"], iop()]
        a = ["cmp", rng.choice(list(OPS)), iop(False), iop()]
        return a

    def cond(d):
        r = rng.random()
        if d <= 0 or r < 0.35:
            a = atom()
            return ["not", a] if rng.chance(0.2) else a
        if r < 0.65:
            return ["and", cond(d - 1), cond(d - 1)]
        if r < 0.9:
            return ["or", cond(d - 1), cond(d - 1)]
        return ["not", cond(d - 1)]

    c = cond(rng.randint(0, 2)) if rng.chance(0.9) else None
    if c is not None and "z" not in cond_vars(c) and rng.chance(0.7):
        c = ["and", c, ["cmp", rng.choice(list(OPS)), ["attr", ["var", "z"], rng.choice(["a", "b"])], iop()]]
    case["cond"] = c
    case["flat"] = {"z": src}
    if "y" not in case["vars"] and rng.chance(0.45):
        # a flatten reached through a flatten, quantified: exists(y, ...) with y = flatten(z.items), z = flatten(x.kids);
        # several elements of ONE collection have a witness (seeded C01-F: the elements of a collection share one id)
        case["flat"]["y"] = ["attr", ["var", "z"], "items"]
        for o in objs:
            if not o["items"] or rng.chance(0.5):
                o["items"] = [rng.randint(0, 2) for _ in range(rng.randint(1, 3))]
        body = ["cmp", rng.choice(list(OPS)), ["var", "y"], ["lit", rng.randint(0, 2)] if rng.chance(0.6) else ["attr", ["var", rng.choice(["x", "z"])], "a"]]
        q = ["exists", "y", body]
        case["cond"] = q if (c is None or rng.chance(0.5)) else ["and", c, q]
        case["sels"] = [["var", "z"]] if rng.chance(0.6) else [["var", "x"], ["var", "z"]]
        return case
    sel_names = rng.sample(names, rng.randint(1, min(2, len(names))))
    if "z" not in sel_names and (c is None or "z" not in cond_vars(c)):
        sel_names.append("z")          # the flattened collection must occur in the query
    case["sels"] = [["var", nm] if typ[nm] != "P" or rng.chance(0.8) else ["attr", ["var", nm], "a"] for nm in sel_names]
    return case


def gen_flat_twin_case(rng: Rng) -> dict:
    """z = flatten(x.kids) where the collections hold value-equal but DISTINCT objects (class T compares by key): an
    unnesting that drops an element because an EQUAL one was seen loses the twin's rows (seeded C11-D)"""
    n = rng.randint(1, 3)
    m = rng.randint(2, 4)
    tw = [{"id": 100 + j, "cls": "T", "key": 1000 + (0 if j <= 2 else rng.randint(0, 1)), "k": 0, "a": rng.randint(0, 2)} for j in range(1, m + 1)]
    for t in tw:
        t["k"] = t["key"] - 1000
    tids = [t["id"] for t in tw]
    objs = [{"id": i, "cls": "P", "key": i, "a": rng.randint(0, 2), "b": rng.randint(0, 2),
             "items": [rng.randint(0, 2) for _ in range(rng.randint(0, 2))],
             "kids": (rng.sample(tids, rng.randint(2, m)) if rng.chance(0.8) else [rng.choice(tids)]), "child": rng.randint(1, n)}
            for i in range(1, n + 1)] + tw
    ids = list(range(1, n + 1))
    case: Dict[str, Any] = {"objs": objs, "vars": {"x": "P"}, "doms": {"x": rng.sample(ids, rng.randint(1, n))}}
    if rng.chance(0.3):
        case["vars"]["y"], case["doms"]["y"] = "int", list(dict.fromkeys(rng.randint(0, 2) for _ in range(rng.randint(1, 3))))
    names = list(case["vars"]) + ["z"]
    typ = dict(case["vars"], z="T")

    def iop(allow_lit=True):
        if allow_lit and rng.chance(0.3):
            return ["lit", rng.randint(0, 2)]
        nm = rng.choice(names)
        if typ[nm] == "int":
            return ["var", nm]
        return ["attr", ["var", nm], rng.choice(["a", "k"] if typ[nm] == "T" else ["a", "b"])]

    def atom():
        r = rng.random()
        if r < 0.2:
            return ["contains", ["attr", ["var", "x"], "kids"], ["var", "z"]]
        if r < 0.3:
            return ["contains", ["attr", ["var", "x"], "items"], iop()]
        return ["cmp", rng.choice(list(OPS)), iop(False), iop()]

    def cond(d):
        r = rng.random()
        if d <= 0 or r < 0.4:
            a = atom()
            return ["not", a] if rng.chance(0.2) else a
        if r < 0.7:
            return ["and", cond(d - 1), cond(d - 1)]
        if r < 0.92:
            return ["or", cond(d - 1), cond(d - 1)]
        return ["not", cond(d - 1)]

    c = cond(rng.randint(0, 2)) if rng.chance(0.85) else None
    if c is not None and "z" not in cond_vars(c) and rng.chance(0.7):
        c = ["and", c, ["cmp", rng.choice(list(OPS)), ["attr", ["var", "z"], rng.choice(["a", "k"])], iop()]]
    case["cond"] = c
    case["flat"] = {"z": ["attr", ["var", "x"], "kids"]}
    sel_names = rng.sample(names, rng.randint(1, min(2, len(names))))
    if "z" not in sel_names:
        sel_names.append("z")          # the distinct twins show in the rows
    case["sels"] = [["var", nm] for nm in sel_names]
    return case


def _py_val(objs_by_id, e, env):
    k = e[0]
    if k == "lit":
        return e[1]
    if k == "var":
        return env[e[1]]
    v = _py_val(objs_by_id, e[1], env)
    o = objs_by_id[v] if isinstance(v, int) and v in objs_by_id and e[2] in ("a", "b", "child", "kids", "items") else v
    return o[e[2]]


def _py_holds(objs_by_id, c, env) -> bool:
    """truth of a condition whose variables all range over P objects (ids) -- used by the GENERATOR only, to keep
    sub-queries non-empty; never as an oracle"""
    k = c[0]
    if k == "cmp":
        l, r = _py_val(objs_by_id, c[2], env), _py_val(objs_by_id, c[3], env)
        return {"==": l == r, "!=": l != r, "<": l < r, "<=": l <= r, ">": l > r, ">=": l >= r}[c[1]]
    if k == "contains":
        return _py_val(objs_by_id, c[2], env) in _py_val(objs_by_id, c[1], env)
    if k == "and":
        return _py_holds(objs_by_id, c[1], env) and _py_holds(objs_by_id, c[2], env)
    if k == "or":
        return _py_holds(objs_by_id, c[1], env) or _py_holds(objs_by_id, c[2], env)
    if k == "not":
        return not _py_holds(objs_by_id, c[1], env)
    raise ValueError(k)


def gen_subq_case(rng: Rng, allow_empty: bool = False) -> dict:
    """a query that uses a nested sub-query z = an(entity(z0, c_z)) like a variable (operand of comparisons, selected).
    Model: Eql/EvalDep.v (z := SubOf z0 c_z), Spec Eql/EvalDepSpec.v, cross-checked against [spec_case]."""
    n = rng.randint(1, 4)
    objs = [{"id": i, "cls": "P", "key": i, "a": rng.randint(0, 2), "b": rng.randint(0, 2),
             "items": [rng.randint(0, 2) for _ in range(rng.randint(0, 2))],
             "kids": [rng.randint(1, n) for _ in range(rng.randint(0, 2))], "child": rng.randint(1, n)}
            for i in range(1, n + 1)]
    ids = [o["id"] for o in objs]
    case: Dict[str, Any] = {"objs": objs, "vars": {"x": "P"}, "doms": {"x": rng.sample(ids, rng.randint(1, n))}}
    if rng.chance(0.3):
        case["vars"]["y"], case["doms"]["y"] = "int", list(dict.fromkeys(rng.randint(0, 2) for _ in range(rng.randint(1, 3))))
    typ = dict(case["vars"], z="P")

    def iop(names, allow_lit=True):
        if allow_lit and rng.chance(0.3):
            return ["lit", rng.randint(0, 2)]
        nm = rng.choice(names)
        if typ[nm] == "int":
            return ["var", nm]
        return ["attr", ["var", nm], rng.choice(["a", "b"])]

    def atom(names):
        pv = [nm for nm in names if typ[nm] == "P"]
        r = rng.random()
        if r < 0.12 and pv:
            # a bare attribute as a condition (its truthiness), also as the ONLY condition of the sub-query
            return ["cmp", "!=", ["attr", ["var", rng.choice(pv)], rng.choice(["a", "b"])], ["lit", 0], "bare"]
        r = rng.random()
        if r < 0.2 and pv:
            return ["cmp", rng.choice(["==", "!="]), ["var", rng.choice(pv)], ["var", rng.choice(pv)] if rng.chance(0.6) else ["attr", ["var", rng.choice(pv)], "child"]]
        if r < 0.3 and pv:
            return ["contains", ["attr", ["var", rng.choice(pv)], "kids"], ["var", rng.choice(pv)]]
        return ["cmp", rng.choice(list(OPS)), iop(names, False), iop(names)]

    def cond(names, d):
        r = rng.random()
        if d <= 0 or r < 0.4:
            a = atom(names)
            return ["not", a] if rng.chance(0.2) else a
        if r < 0.7:
            return ["and", cond(names, d - 1), cond(names, d - 1)]
        if r < 0.92:
            return ["or", cond(names, d - 1), cond(names, d - 1)]
        return ["not", cond(names, d - 1)]

    zc = cond(["z"], rng.randint(0, 1)) if rng.chance(0.85) else None
    zdom = rng.sample(ids, rng.randint(1, n))
    by_id = {o["id"]: o for o in objs}
    if zc is not None and not allow_empty and not any(_py_holds(by_id, zc, {"z": i}) for i in zdom):
        # a sub-query without answers is a variable over an empty domain: that is finding class K_emptydom (C01-h),
        # covered by the main stream; here the sub-query always has an answer
        zc = None
    case["sub"] = {"z": {"type": "P", "dom": zdom, "cond": zc}}
    names = list(case["vars"]) + ["z"]
    c = cond(names, rng.randint(0, 2)) if rng.chance(0.9) else None
    if c is not None and "z" not in cond_vars(c) and rng.chance(0.8):
        c = ["and", c, ["cmp", rng.choice(list(OPS)), ["attr", ["var", "z"], rng.choice(["a", "b"])], iop(names)]]
    case["cond"] = c
    sel_names = rng.sample(names, rng.randint(1, min(2, len(names))))
    if "z" not in sel_names and (c is None or "z" not in cond_vars(c)):
        sel_names.append("z")
    case["sels"] = [["var", nm] if typ[nm] != "P" or rng.chance(0.8) else ["attr", ["var", nm], "a"] for nm in sel_names]
    return case


def gen_case(rng: Rng, profile: str = "c01", extras: bool = False) -> dict:
    """profile c01: everything; share: the same with more bare attributes and shared node objects; c02: biased to the conjunctive / else-if fragment with duplicate-free domains"""
    if profile == "flatT":
        return gen_flat_twin_case(rng)
    if profile in ("flat", "flat0"):
        return gen_flat_case(rng, profile == "flat0")
    if profile in ("subq", "subq0"):
        return gen_subq_case(rng, profile == "subq0")
    if profile == "quant":
        r0 = rng.random()
        if r0 < 0.12:
            return gen_sym_exists(rng)
        if r0 < 0.22:
            return gen_twin_exists(rng)
    twins = profile == "quant" and rng.chance(0.35)
    objs = gen_world(rng, twins)
    pids = [o["id"] for o in objs if o["cls"] == "P"]
    tids = [o["id"] for o in objs if o["cls"] == "T"]
    nvars = rng.choice([1, 1, 2, 2, 2, 3])
    case: Dict[str, Any] = {"objs": objs, "vars": {}, "doms": {}}
    for vi, name in enumerate(VARS[:nvars]):
        r = rng.random()
        if twins and vi == 0:
            r = 0.2     # the first (free) variable ranges over the value-equal twins
        if r < 0.15:
            lo = -2 if rng.chance(0.25) else 0      # -1 and -2 have the same hash() in CPython (seeded C01-J: ids by hash)
            dom = [rng.randint(lo, 2) for _ in range(rng.randint(0 if rng.chance(0.1) else 1, 3 if lo == 0 else 4))]
            if profile == "c02" or rng.chance(0.8):
                dom = list(dict.fromkeys(dom))
            case["vars"][name], case["doms"][name] = "int", dom
        elif r < 0.3 and tids:
            case["vars"][name], case["doms"][name] = "T", (rng.sample(tids, len(tids)) if twins and vi == 0 else
                                                           rng.sample(tids, rng.randint(0 if rng.chance(0.1) else 1, len(tids))))
        else:
            dom = rng.sample(pids, rng.randint(0 if rng.chance(0.1) else min(1, len(pids)), len(pids)))
            if profile != "c02" and dom and rng.chance(0.05):
                dom.append(dom[0])
            case["vars"][name], case["doms"][name] = "P", dom
    names = list(case["vars"])
    # profile quant: the last variable is reserved for quantification (scoped: never selected)
    qvars = [names[-1]] if profile == "quant" and len(names) >= 2 else []

    def int_operand(allow_lit=True):
        r = rng.random()
        if allow_lit and r < 0.3:
            return ["lit", rng.randint(0, 2)]
        nm = rng.choice(names)
        t = case["vars"][nm]
        if t == "int":
            return ["var", nm]
        if t == "T":
            return ["attr", ["var", nm], rng.choice(["a", "k"])]
        if rng.chance(0.2):
            return ["attr", ["attr", ["var", nm], "child"], rng.choice(["a", "b"])]
        if extras and rng.chance(0.12):      # indexing and method calls on attribute values
            base = ["var", nm] if rng.chance(0.7) else ["attr", ["var", nm], "child"]
            return ["idx", base, rng.randint(0, 1)] if rng.chance(0.5) else ["call", base]
        return ["attr", ["var", nm], rng.choice(["a", "b"])]

    def atom():
        r = rng.random()
        pvars = [n for n in names if case["vars"][n] == "P"]
        tvars = [n for n in names if case["vars"][n] == "T"]
        if profile in ("c01", "share") and rng.chance(0.03):     # a bool constant as a condition
            return ["cmp", rng.choice(["==", "!="]), ["lit", 0], ["lit", rng.randint(0, 1)], "const"]
        ivars = [n for n in names if case["vars"][n] == "int" and n not in qvars]
        if profile in ("c01", "share") and ivars and rng.chance(0.03):     # a bare int variable as a condition
            return ["cmp", "!=", ["var", rng.choice(ivars)], ["lit", 0], "bare"]
        if profile != "c02" and pvars and rng.chance(0.3 if profile == "share" else 0.04):   # a bare attribute as a condition (its truthiness)
            return ["cmp", "!=", ["attr", ["var", rng.choice(pvars)], rng.choice(["a", "b"])], ["lit", 0], "bare"]
        if r < 0.10 and pvars:   # contains(items, int)
            return ["contains", ["attr", ["var", rng.choice(pvars)], "items"], int_operand()]
        if r < 0.16 and pvars:   # contains(kids, P-valued)
            o = ["var", rng.choice(pvars)] if rng.chance(0.6) else ["attr", ["var", rng.choice(pvars)], "child"]
            return ["contains", ["attr", ["var", rng.choice(pvars)], "kids"], o]
        if r < 0.21:             # in_(int, literal list)
            return ["contains", ["lit", [rng.randint(0, 2) for _ in range(rng.randint(0, 3))]], int_operand(False)]
        if r < 0.27 and pvars:   # object identity / equality; sometimes an ORDER comparison of two (incomparable) entities
            l = ["var", rng.choice(pvars)] if rng.chance(0.5) else ["attr", ["var", rng.choice(pvars)], "child"]
            rr = ["var", rng.choice(pvars)] if rng.chance(0.5) else ["attr", ["var", rng.choice(pvars)], "child"]
            return ["cmp", rng.choice(["==", "!=", "==", "!=", "<", "<=", ">", ">="]), l, rr]
        if r < 0.31 and tvars:
            return ["cmp", rng.choice(["==", "!="]), ["var", rng.choice(tvars)], ["var", rng.choice(tvars)]]
        if r < 0.36 and pvars:   # collections compared as sets
            l = ["attr", ["var", rng.choice(pvars)], "items"]
            rr = ["attr", ["var", rng.choice(pvars)], "items"] if rng.chance(0.5) else ["lit", [rng.randint(0, 2) for _ in range(rng.randint(0, 2))]]
            if extras and rng.chance(0.4):
                # collection-valued elements indexed out of a container, often out of the SAME container object
                # (seeded C01-I: an identity shortcut for "a collection equals itself" keyed by the container's id)
                v1 = rng.choice(pvars)
                l = ["ridx", ["var", v1], rng.randint(0, 1)]
                if rng.chance(0.7):
                    rr = ["ridx", ["var", v1 if rng.chance(0.7) else rng.choice(pvars)], rng.randint(0, 1)]
            return ["cmp", rng.choice(["==", "!="]), l, rr]
        l = int_operand(False)
        return ["cmp", rng.choice(list(OPS)), l, int_operand()]

    def cond(d):
        r = rng.random()
        if d <= 0 or r < 0.3:
            a = atom()
            if rng.chance(0.2):
                return ["not", a]
            return a
        if r < 0.62:
            return ["and", cond(d - 1), cond(d - 1)]
        if r < 0.88:
            l = cond(d - 1)
            rr = cond(d - 1)
            if profile == "c02" and set(cond_vars(l)) != set(cond_vars(rr)):
                return ["and", l, rr]
            return ["or", l, rr]
        if profile == "c02":
            return ["and", cond(d - 1), cond(d - 1)]
        if profile == "quant" and qvars and rng.chance(0.7):
            y = rng.choice(qvars)
            inner = cond(d - 1)
            if y not in cond_vars(inner):     # make the quantified variable occur
                t = case["vars"][y]
                lhs = ["var", y] if t == "int" else ["attr", ["var", y], "a"]
                inner = ["and", inner, ["cmp", rng.choice(list(OPS)), lhs, int_operand()]] if rng.chance(0.5) else \
                        ["and", ["cmp", rng.choice(list(OPS)), lhs, int_operand()], inner]
            return [rng.choice(["exists", "forall"]), y, inner]
        return ["not", cond(d - 1)]

    case["cond"] = cond(rng.randint(0, 3)) if rng.chance(0.96) else None
    selectable = [n for n in names if n not in qvars] or names
    nsel = rng.randint(1, min(2, len(selectable)))
    sel_names = rng.sample(selectable, nsel)
    if profile == "c02" and case["cond"] is not None:
        cv = list(dict.fromkeys(cond_vars(case["cond"])))
        sel_names = rng.sample(cv, min(len(cv), nsel)) if cv else sel_names
    sels = []
    for nm in sel_names:
        t = case["vars"][nm]
        if t == "P" and rng.chance(0.15):
            sels.append(["attr", ["var", nm], rng.choice(["a", "child"])])
        else:
            sels.append(["var", nm])
    if profile != "c02" and rng.chance(0.04) and case["vars"][sel_names[0]] == "P":
        sels.append(["attr", ["var", sel_names[0]], "a"])
    case["sels"] = sels
    if len(sels) == 1 and rng.chance(0.15):
        case["force_setof"] = True
    if profile in ("c01", "share") and "int" in case["vars"].values() and rng.chance(0.3):
        case["abc"] = 1
    if profile == "share" and case["cond"] is not None:
        # make sub-conditions occur twice (the copy sometimes negated), so that sharing node objects matters:
        # c = x.a > 1; or_(and_(c, ...), and_(not_(c), ...))
        import copy as _copy

        def paths(n, here=()):
            out = [here]
            if n[0] in ("and", "or"):
                out += paths(n[1], here + (1,)) + paths(n[2], here + (2,))
            elif n[0] == "not":
                out += paths(n[1], here + (1,))
            return out

        def get(n, pth):
            for i in pth:
                n = n[i]
            return n

        for _ in range(rng.choice([0, 1, 1, 2])):
            ps = [q for q in paths(case["cond"]) if q]
            if len(ps) < 2:
                break
            src, dst = rng.choice(ps), rng.choice(ps)
            if src == dst or src[:len(dst)] == dst or dst[:len(src)] == src:
                continue
            sub = _copy.deepcopy(get(case["cond"], src))
            get(case["cond"], dst[:-1])[dst[-1]] = ["not", sub] if rng.chance(0.4) else sub
        case["sels"] = [sel for sel in case["sels"] if opnd_var(sel) in cond_vars(case["cond"])] or case["sels"]
    if profile == "share":
        # ONE node object per written attribute / index / call expression (xa = x.a; and_(xa <= 1, not_(xa))): the model, the
        # Spec and the fragment flags do not see object identity; repaired in da356f6 (C01-e)
        case["share"] = rng.choice([1, 2])       # 2: also one Comparator object per written comparison
    return case


def stats(case) -> Dict[str, int]:
    out: Dict[str, int] = {}

    def walk(n):
        out[n[0]] = out.get(n[0], 0) + 1
        if n[0] in ("and", "or"):
            if n[0] == "or":
                key = "union" if or_is_union(n) else "elseif"
                out[key] = out.get(key, 0) + 1
            walk(n[1])
            walk(n[2])
        elif n[0] == "not":
            walk(n[1])
        elif n[0] in ("exists", "forall"):
            walk(n[2])

    if case["cond"] is not None:
        walk(case["cond"])
    return out
