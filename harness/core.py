"""Shared machinery of every check: regenerate translated models, build the Coq development,
collect Print Assumptions, evaluate correspondence cases inside Coq (vm_compute), decide,
write replays and evidence.  See DESIGN.md sections 2, 4 and 5."""
from __future__ import annotations

import fcntl
import hashlib
import json
import os
import re
import subprocess
import sys
import time
from concurrent.futures import ThreadPoolExecutor
from dataclasses import dataclass, field
from pathlib import Path
from typing import Any, Callable, Dict, Iterable, List, Optional, Sequence, Tuple

VERIF = Path(__file__).resolve().parent.parent
COQ = VERIF / "coq"
REPO = Path(os.environ.get("KRROOD_REPO", "/repo"))
WORK = VERIF / "work"
REPLAYS = VERIF / "replays"
# a run against another checkout (KRROOD_REPO: seeded changes, repair candidates) must not overwrite the evidence of /repo
EVIDENCE = VERIF / "evidence" if REPO.resolve() == Path("/repo") else WORK / "evidence_other"
KNOWN = VERIF / "KNOWN_FINDINGS.txt"
PY = "/venv/bin/python"
IMPL_ENV = dict(os.environ, PYTHONPATH=f"{REPO}/src:{REPO}:{VERIF}", PYTHONHASHSEED="0", KRROOD_VERIF="1")
ALLOWED_AXIOMS: Tuple[str, ...] = ()  # std-lib axioms a property may rely on are listed per property

# ------------------------------------------------------------------ PRNG (splitmix64)
MASK = (1 << 64) - 1


class Rng:
    """One deterministic stream; every random choice of a check derives from VERIF_SEED."""

    def __init__(self, seed: int):
        self.s = seed & MASK

    def next(self) -> int:
        self.s = (self.s + 0x9E3779B97F4A7C15) & MASK
        z = self.s
        z = ((z ^ (z >> 30)) * 0xBF58476D1CE4E5B9) & MASK
        z = ((z ^ (z >> 27)) * 0x94D049BB133111EB) & MASK
        return z ^ (z >> 31)

    def randint(self, a: int, b: int) -> int:
        return a + self.next() % (b - a + 1)

    def random(self) -> float:
        return (self.next() >> 11) / float(1 << 53)

    def choice(self, xs: Sequence):
        return xs[self.next() % len(xs)]

    def chance(self, p: float) -> bool:
        return self.random() < p

    def shuffle(self, xs: list) -> None:
        for i in range(len(xs) - 1, 0, -1):
            j = self.next() % (i + 1)
            xs[i], xs[j] = xs[j], xs[i]

    def sample(self, xs: Sequence, k: int) -> list:
        ys = list(xs)
        self.shuffle(ys)
        return ys[:k]

    def fork(self, tag: int) -> "Rng":
        return Rng(self.next() ^ (tag * 0x9E3779B97F4A7C15))


# ------------------------------------------------------------------ sx: canonical outcomes
def sx(v) -> str:
    """Python canonical value (int / bool / nested list or tuple) -> Gallina literal of type sx."""
    if isinstance(v, bool):
        return f"SZ {int(v)}"
    if isinstance(v, int):
        return f"SZ ({v})" if v < 0 else f"SZ {v}"
    if isinstance(v, (list, tuple)):
        return "SL [" + "; ".join(sx(x) for x in v) + "]"
    raise TypeError(f"not canonical: {v!r}")


def zlit(v: int) -> str:
    return f"({v})" if v < 0 else str(v)


def zlist(vs: Iterable[int]) -> str:
    return "[" + "; ".join(zlit(v) for v in vs) + "]"


_TOK = re.compile(r"SZ|SL|\[|\]|;|\(|\)|-?\d+")


def parse_sx(text: str):
    """Parse Coq's printing of an sx value back into nested Python lists / ints."""
    toks = _TOK.findall(text)
    pos = 0

    def p():
        nonlocal pos
        t = toks[pos]
        if t == "(":
            pos += 1
            v = p()
            assert toks[pos] == ")", toks[pos]
            pos += 1
            return v
        if t == "SZ":
            pos += 1
            t2 = toks[pos]
            if t2 == "(":
                pos += 1
                v = int(toks[pos])
                pos += 1
                assert toks[pos] == ")"
                pos += 1
                return v
            pos += 1
            return int(t2)
        if t == "SL":
            pos += 1
            assert toks[pos] == "[", toks[pos]
            pos += 1
            out = []
            while toks[pos] != "]":
                out.append(p())
                if toks[pos] == ";":
                    pos += 1
            pos += 1
            return out
        raise ValueError(f"unexpected token {t}")

    v = p()
    return v


# ------------------------------------------------------------------ building
def sh(cmd: Sequence[str], cwd=None, timeout=900, env=None) -> Tuple[int, str]:
    try:
        r = subprocess.run(list(cmd), cwd=cwd, stdout=subprocess.PIPE, stderr=subprocess.STDOUT,
                           timeout=timeout, env=env, text=True, errors="replace")
        return r.returncode, r.stdout
    except subprocess.TimeoutExpired as e:
        return 124, (e.stdout or "") + f"\nTIMEOUT after {timeout}s"


class BuildLock:
    def __enter__(self):
        WORK.mkdir(exist_ok=True)
        self.f = open(WORK / ".build.lock", "w")
        fcntl.flock(self.f, fcntl.LOCK_EX)
        return self

    def __exit__(self, *a):
        fcntl.flock(self.f, fcntl.LOCK_UN)
        self.f.close()


def write_if_changed(path: Path, text: str) -> bool:
    path.parent.mkdir(parents=True, exist_ok=True)
    if path.exists() and path.read_text() == text:
        return False
    path.write_text(text)
    return True


def ensure_makefile():
    mf = COQ / "Makefile.coq"
    proj = COQ / "_CoqProject"
    # _CoqProject lists every committed .v plus the generated ones; regenerate the list each time
    files = sorted(str(p.relative_to(COQ)) for p in COQ.rglob("*.v") if "work" not in p.parts)
    text = "-Q . Krrood\n" + "\n".join(files) + "\n"
    changed = write_if_changed(proj, text)
    if changed or not mf.exists():
        # the cached dependency file names every .v that existed before: a file that disappeared since
        # (a refused translation removes its Gen/X.v) would otherwise break make for EVERY target
        dep = COQ / ".Makefile.coq.d"
        if dep.exists():
            dep.unlink()
        rc, out = sh(["coq_makefile", "-f", "_CoqProject", "-o", "Makefile.coq"], cwd=COQ)
        if rc != 0:
            raise RuntimeError("coq_makefile failed:\n" + out)


def coq_make(targets: Sequence[str], jobs: int = 16, timeout: int = 1500) -> Tuple[bool, str]:
    """Full (.vo) build of the given targets and their dependencies."""
    with BuildLock():
        ensure_makefile()
        rc, out = sh(["timeout", str(timeout), "make", "-f", "Makefile.coq", f"-j{jobs}", "-k", *targets], cwd=COQ,
                     timeout=timeout + 30)
        if rc != 0 and "No rule to make target" in out:
            # a .v file listed in the cached dependency file vanished meanwhile (a refused translation of ANOTHER
            # property removes its Gen/X.v): rebuild the file list and the dependencies, then retry once
            for stale in (COQ / ".Makefile.coq.d", COQ / "_CoqProject"):
                if stale.exists():
                    stale.unlink()
            ensure_makefile()
            rc, out = sh(["timeout", str(timeout), "make", "-f", "Makefile.coq", f"-j{jobs}", "-k", *targets], cwd=COQ,
                         timeout=timeout + 30)
    return rc == 0, out


def first_error(log: str) -> str:
    m = re.search(r'File "([^"]+)", line (\d+), characters [^\n]*\n(Error:[^\n]*(?:\n[^\n]*){0,6})', log)
    if m:
        return f"{m.group(1)}:{m.group(2)}: {m.group(3).strip()[:600]}"
    return log.strip()[-600:]


def print_assumptions(prop: str) -> Tuple[bool, Dict[str, str], str]:
    """Re-check Props/<prop>.v with coqc (cheap: only `exact`s) and collect Print Assumptions output."""
    rc, out = sh(["timeout", "600", "coqc", "-Q", ".", "Krrood", f"Props/{prop}.v"], cwd=COQ, timeout=630)
    if rc != 0:
        return False, {}, out
    src = (COQ / "Props" / f"{prop}.v").read_text()
    names = re.findall(r"^Print Assumptions (\S+)\.", src, re.M)
    # output blocks: either "Closed under the global context" or "Axioms:\n ..." per Print Assumptions
    blocks = re.split(r"(?=Closed under the global context|Axioms:)", out)
    blocks = [b.strip() for b in blocks if b.strip()]
    res = {}
    for i, n in enumerate(names):
        res[n] = blocks[i] if i < len(blocks) else "?"
    return True, res, out


def theorem_names(prop: str) -> List[str]:
    src = (COQ / "Props" / f"{prop}.v").read_text()
    return re.findall(r"^(?:Theorem|Corollary|Lemma)\s+(\S+)", src, re.M)


# ------------------------------------------------------------------ evaluating cases inside Coq
def scratch_dir(prop: str) -> Path:
    """scratch directory for generated case files: one per process, so that concurrent runs of the same property
    (seeded runs against another checkout, several seeds at once) do not overwrite each other's files"""
    d = WORK / prop / f"p{os.getpid()}"
    if not d.exists():
        d.mkdir(parents=True, exist_ok=True)
        import atexit
        import shutil
        atexit.register(shutil.rmtree, str(d), ignore_errors=True)
    return d


def _run_case_file(args) -> Tuple[int, str]:
    path, timeout = args
    rc, out = sh(["timeout", str(timeout), "coqc", "-Q", str(COQ), "Krrood", path.name], cwd=path.parent,
                 timeout=timeout + 30)
    return rc, out


def coq_codes(prop: str, header: str, case_type: str, code_fn: str, cases: Sequence[Tuple[str, str]],
              chunk: int = 300, timeout: int = 900, tag: str = "cases") -> List[int]:
    """cases: (gallina term of the case, gallina sx literal of the implementation's outcome).
    Returns one integer per case: what `code_fn case impl` evaluates to (see Base/Sx.v classify)."""
    d = scratch_dir(prop)
    d.mkdir(parents=True, exist_ok=True)
    for old in d.glob(f"{tag}_*"):
        old.unlink()
    files = []
    for k in range(0, len(cases), chunk):
        part = cases[k:k + chunk]
        body = [header, f"Definition cases : list ({case_type} * sx) := ["]
        body.append(";\n".join(f"  ({c}, {o})" for c, o in part))
        body.append("].")
        body.append(f"Eval vm_compute in (map (fun p => {code_fn} (fst p) (snd p)) cases).")
        p = d / f"{tag}_{k // chunk:04d}.v"
        p.write_text("\n".join(body) + "\n")
        files.append(p)
    codes: List[int] = []
    with ThreadPoolExecutor(max_workers=min(16, max(1, len(files)))) as ex:
        results = list(ex.map(_run_case_file, [(f, timeout) for f in files]))
    for f, (rc, out) in zip(files, results):
        if rc != 0:
            raise CoqEvalError(f"{f}: coqc failed\n{out[-2000:]}")
        m = re.search(r"=\s*(\[.*?\])\s*:\s*list Z", out, re.S)
        if not m:
            raise CoqEvalError(f"{f}: cannot parse output\n{out[-1000:]}")
        codes += [int(x) for x in re.findall(r"-?\d+", m.group(1))]
    if len(codes) != len(cases):
        raise CoqEvalError(f"{prop}: {len(codes)} codes for {len(cases)} cases")
    for f in files:
        for ext in (".vo", ".glob", ".vok", ".vos"):
            q = f.with_suffix(ext)
            if q.exists():
                q.unlink()
        aux = f.parent / ("." + f.stem + ".aux")
        if aux.exists():
            aux.unlink()
    return codes


def coq_eval_sx(prop: str, header: str, exprs: Sequence[str], timeout: int = 600, tag: str = "detail") -> List[Any]:
    """Evaluate sx-valued Gallina expressions; used to show model / spec outcomes of a flagged case."""
    d = scratch_dir(prop)
    d.mkdir(parents=True, exist_ok=True)
    p = d / f"{tag}.v"
    body = [header]
    for e in exprs:
        body.append(f"Eval vm_compute in ({e}).")
    p.write_text("\n".join(body) + "\n")
    rc, out = _run_case_file((p, timeout))
    if rc != 0:
        raise CoqEvalError(f"{p}: coqc failed\n{out[-2000:]}")
    vals = []
    for m in re.finditer(r"=\s*(.*?)\s*:\s*sx\b", out, re.S):
        vals.append(parse_sx(m.group(1)))
    if len(vals) != len(exprs):
        raise CoqEvalError(f"{p}: {len(vals)} values for {len(exprs)} expressions\n{out[-1000:]}")
    for ext in (".vo", ".glob", ".vok", ".vos"):
        q = p.with_suffix(ext)
        if q.exists():
            q.unlink()
    return vals


def coq_values(prop: str, header: str, exprs: Sequence[str], chunk: int = 300, timeout: int = 900,
               tag: str = "vals") -> List[Any]:
    """Bulk evaluation: each expr is a Gallina term of type sx; returns the parsed values (nested ints/lists),
    one per expr, evaluated by vm_compute in parallel coqc processes of `chunk` expressions each."""
    d = scratch_dir(prop)
    d.mkdir(parents=True, exist_ok=True)
    for old in d.glob(f"{tag}_*"):
        old.unlink()
    files = []
    for k in range(0, len(exprs), chunk):
        part = exprs[k:k + chunk]
        body = [header, "Definition vals : list sx := ["]
        body.append(";\n".join(f"  ({e})" for e in part))
        body.append("].")
        body.append("Eval vm_compute in (SL vals).")
        p = d / f"{tag}_{k // chunk:04d}.v"
        p.write_text("\n".join(body) + "\n")
        files.append(p)
    vals: List[Any] = []
    with ThreadPoolExecutor(max_workers=min(16, max(1, len(files)))) as ex:
        results = list(ex.map(_run_case_file, [(f, timeout) for f in files]))
    if any(rc != 0 for rc, _ in results):
        # a concurrent build (another check) may have been replacing a .vo this evaluation loads: wait for it to finish
        # and re-run the failed files once; a genuine error fails again
        with BuildLock():
            pass
        results = [(rc, out) if rc == 0 else _run_case_file((f, timeout)) for f, (rc, out) in zip(files, results)]
    for f, (rc, out) in zip(files, results):
        if rc != 0:
            raise CoqEvalError(f"{f}: coqc failed\n{out[-2000:]}")
        m = re.search(r"=\s*(SL.*?)\s*:\s*sx\b", out, re.S)
        if not m:
            raise CoqEvalError(f"{f}: cannot parse output\n{out[-1000:]}")
        vals += parse_sx(m.group(1))
    if len(vals) != len(exprs):
        raise CoqEvalError(f"{prop}: {len(vals)} values for {len(exprs)} expressions")
    for f in files:
        for ext in (".vo", ".glob", ".vok", ".vos"):
            q = f.with_suffix(ext)
            if q.exists():
                q.unlink()
        aux = f.parent / ("." + f.stem + ".aux")
        if aux.exists():
            aux.unlink()
    return vals


class CoqEvalError(Exception):
    pass


# ------------------------------------------------------------------ known findings
@dataclass
class Finding:
    kind: str  # "open" | "fixed"
    prop: str
    fid: str
    cls: str
    witness: str
    text: str
    commit: str = ""


def _finding_lines() -> List[str]:
    """KNOWN_FINDINGS.txt plus known_findings/<prop>.txt (same line format; committed; never written at run time)."""
    lines: List[str] = []
    if KNOWN.exists():
        lines += KNOWN.read_text().splitlines()
    d = VERIF / "known_findings"
    if d.is_dir():
        for f in sorted(d.glob("*.txt")):
            lines += f.read_text().splitlines()
    return lines


def load_findings(prop: str) -> List[Finding]:
    out = []
    for line in _finding_lines():
        line = line.strip()
        if not line or line.startswith("#"):
            continue
        m = re.match(r"KNOWN-FINDING: property=(\S+) id=(\S+) class=(\S+) witness=(\S+) (.*)", line)
        if m and m.group(1) == prop:
            out.append(Finding("open", m.group(1), m.group(2), m.group(3), m.group(4), m.group(5)))
            continue
        m = re.match(r"fixed: property=(\S+) (\S+) id=(\S+) class=(\S+) witness=(\S+) (.*)", line)
        if m and m.group(1) == prop:
            out.append(Finding("fixed", m.group(1), m.group(3), m.group(4), m.group(5), m.group(6), m.group(2)))
    return out


# ------------------------------------------------------------------ the generic check
@dataclass
class Case:
    """One correspondence case."""
    term: str            # Gallina term of the case input
    impl: Any            # canonical outcome of the implementation (nested ints), or None if not run
    descr: Any           # JSON-able description (goes into samples / replays)
    snippet: str = ""    # runnable Python reproducing it against the public API
    nontrivial: bool = True
    key: str = ""        # for distinctness; default = term


@dataclass
class Obligation:
    name: str
    ok: bool
    detail: str = ""


class Report:
    """Collects everything a run establishes and turns it into stdout lines, replays and evidence."""

    def __init__(self, prop: str, tier: str, seed: int, level: str):
        self.prop, self.tier, self.seed, self.level = prop, tier, seed, level
        self.t0 = time.time()
        self.obligations: List[Obligation] = []
        self.assumptions: Dict[str, str] = {}
        self.violations: List[str] = []
        self.known_lines: List[str] = []
        self.notes: List[str] = []
        self.coverage: Dict[str, Any] = {}
        self.samples: List[Any] = []
        self.evaluations = 0
        self.distinct: set = set()
        self.trusted: List[str] = []
        self.assume: List[str] = []
        self.checker_cmd = ""
        self.rule = ""
        self.extra: Dict[str, Any] = {}

    # -- obligations
    def oblige(self, name: str, ok: bool, detail: str = ""):
        self.obligations.append(Obligation(name, ok, detail))
        if not ok:
            print(f"[{self.prop}] OBLIGATION FAILED {name}: {detail[:400]}")

    def open_obligations(self) -> List[Obligation]:
        return [o for o in self.obligations if not o.ok]

    # -- violations
    def violation(self, replay: Dict[str, Any], suffix: str = "") -> str:
        d = REPLAYS / self.prop
        d.mkdir(parents=True, exist_ok=True)
        replay = dict(replay, property=self.prop, seed=self.seed, tier=self.tier)
        blob = json.dumps(replay, indent=1, sort_keys=True, default=str)
        h = hashlib.sha1(blob.encode()).hexdigest()[:12]
        p = d / f"{h}.json"
        p.write_text(blob)
        line = f"VIOLATION property={self.prop} replay={p}" + (f" {suffix}" if suffix else "")
        self.violations.append(line)
        print(line, flush=True)
        return str(p)

    def known(self, f: Finding):
        line = f"KNOWN-FINDING: property={f.prop} id={f.fid} {f.text}"
        self.known_lines.append(line)
        print(line, flush=True)

    def note(self, msg: str):
        self.notes.append(msg)
        print(f"[{self.prop}] {msg}", flush=True)

    def count(self, key: str, nontrivial: bool = True):
        self.evaluations += 1
        if nontrivial:
            self.distinct.add(hashlib.sha1(key.encode()).hexdigest()[:16])

    # -- finish
    def finish(self) -> int:
        if self.open_obligations() and not any("no-failing-input-found" not in v for v in self.violations):
            # a broken obligation with no concrete failing input found by the search
            if not any("no-failing-input-found" in v for v in self.violations):
                names = [f"{o.name}: {o.detail}" for o in self.open_obligations()]
                self.violation({"kind": "broken-obligation", "obligations": names,
                                "explanation": "a theorem, a regenerated model or the correspondence no longer checks and the "
                                               "search (implementation vs Spec on the generated and corpus cases) found no failing input"},
                               "no-failing-input-found")
        cov = dict(self.coverage)
        n_ob = len(self.obligations)
        n_ok = len([o for o in self.obligations if o.ok])
        cov.update({
            "obligations": n_ob, "discharged": n_ok,
            "obligation_list": [{"name": o.name, "ok": o.ok, "detail": o.detail[:300]} for o in self.obligations],
            "checker_cmd": self.checker_cmd,
            "trusted_base": self.trusted,
            "print_assumptions": self.assumptions,
            "evaluations": self.evaluations,
            "distinct_nontrivial": len(self.distinct),
            "rule": self.rule,
            "samples": self.samples[:8] if self.samples else [],
            "known_findings_reported": self.known_lines,
            "notes": self.notes[:50],
        })
        # extra keys are welcome in the evidence, but the keys the schema types must keep their type: a mistyped extra
        # value is kept under "<key>_note" instead of overwriting the measured one
        typed = {"evaluations": int, "distinct_nontrivial": int, "rule": str, "samples": list, "states": int,
                 "transitions": int, "traces_validated_against_impl": int, "obligations": int, "discharged": int,
                 "checker_cmd": str, "trusted_base": list, "programs": int, "disagreements_checked": int,
                 "explanation": str, "exhaustive": bool}
        for k, v in self.extra.items():
            t = typed.get(k)
            if t is not None and (not isinstance(v, t) or (t is int and isinstance(v, bool))):
                cov[k + "_note"] = v
            else:
                cov[k] = v
        ev = {
            "property_id": self.prop, "tier": self.tier, "seed": self.seed, "level": self.level,
            "coverage": cov, "assumptions": self.assume, "wall_s": round(time.time() - self.t0, 2),
            "violations": len(self.violations),
        }
        EVIDENCE.mkdir(exist_ok=True)
        (EVIDENCE / f"{self.prop}.json").write_text(json.dumps(ev, indent=1, default=str))
        status = "FAIL" if self.violations else "PASS"
        print(f"[{self.prop}] {status} tier={self.tier} seed={self.seed} obligations={n_ok}/{n_ob} "
              f"cases={self.evaluations} distinct_nontrivial={len(self.distinct)} wall={ev['wall_s']}s", flush=True)
        return 1 if self.violations else 0


def coqchk(rep: "Report", prop: str) -> None:
    """thorough tier: re-check the compiled theorems (and everything they depend on) with the independent checker"""
    rc, out = sh(["timeout", "1500", "coqchk", "-o", "-silent", "-Q", ".", "Krrood", f"Krrood.Props.{prop}"], cwd=COQ, timeout=1530)
    ok = rc == 0 and "Axioms: <none>" in out and "type-in-type: <none>" in out and "unsafe (co)fixpoints: <none>" in out
    rep.oblige(f"coqchk:Props/{prop}.vo", ok, "axioms <none>, no type-in-type, no unsafe fixpoints" if ok else out[-400:])


COQ_TRUSTED = [
    "Coq 8.16.1 kernel (coqc, full .vo build; vm_compute used for refutation witnesses and case evaluation; no native_compute)",
    "no Axiom/Parameter/Admitted in the development (checked by grep in setup and by Print Assumptions per theorem)",
]


def standard_proof_steps(rep: Report, prop: str, targets: Sequence[str], regen: Sequence[Tuple[str, Callable[[], str], Path]] = ()) -> bool:
    """Steps 1-3 of DESIGN section 5.  Returns True iff the model can be evaluated (build ok)."""
    # 1 regenerate
    for name, fn, path in regen:
        try:
            text = fn()
            write_if_changed(path, text)
            rep.oblige(f"regen:{name}", True, str(path.relative_to(VERIF)))
        except Exception as e:  # translator refused
            rep.oblige(f"regen:{name}", False, str(e))
            # never build or evaluate against a stale translation (source or compiled)
            for ext in (".v", ".vo", ".vos", ".vok", ".glob"):
                q = path.with_suffix(ext)
                if q.exists():
                    q.unlink()
    # 2 build
    ok, log = coq_make(list(targets))
    rep.oblige(f"build:{' '.join(targets)}", ok, "" if ok else first_error(log))
    rep.checker_cmd = (f"cd /verif/coq && coq_makefile -f _CoqProject -o Makefile.coq && make -f Makefile.coq {' '.join(targets)}"
                       f" && coqc -Q . Krrood Props/{prop}.v   # Print Assumptions")
    if not ok:
        return False
    # 3 assumptions
    ok2, ass, out = print_assumptions(prop)
    if not ok2:
        rep.oblige(f"props:{prop}", False, first_error(out))
        return False
    rep.assumptions = ass
    for thm in theorem_names(prop):
        a = ass.get(thm)
        if a is None:
            continue
        closed = a.startswith("Closed under the global context")
        allowed = closed or all(any(ax in line for ax in rep.extra.get("allowed_axioms", [])) for line in a.splitlines()[1:] if line.strip() and not line.startswith(" "))
        rep.oblige(f"theorem:{thm}", True if closed or allowed else False, a[:300])
    return True
