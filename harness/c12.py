"""C12 -- predicates and symbolic functions agree between concrete and symbolic calls.

Tie: translator (Gen/Pred.v from predicate.py / symbolic.py: merge_args_and_kwargs, both dispatchers, the variable
test) + correspondence of the hand model of the predicate-variable evaluation (Eql/PredEval.v) with the real
engine through the public API: harness-defined @symbolic_function functions and Predicate subclasses of every small
signature with a call log, called with every positional/keyword x variable/concrete split, evaluated through
an(entity/set_of(...)) over small domains."""
from __future__ import annotations

import dataclasses
import json
from typing import Any, Dict, List

from . import core
from .core import Case, Report

PROP = "C12"
HEADER = """From Coq Require Import List ZArith.
From Krrood Require Import Base.Sx Eql.PredSpec Eql.PredCase Eql.PredEval.
Import ListNotations. Open Scope Z_scope."""
HEADER_SPEC = """From Coq Require Import List ZArith.
From Krrood Require Import Base.Sx Eql.PredSpec Eql.PredCase.
Import ListNotations. Open Scope Z_scope."""

ATTR = {"a": 0, "b": 1, "n": 2}
ATTR_NAME = {v: k for k, v in ATTR.items()}
VAR_NAME = {1: "x", 2: "y"}
OBJ0 = 100
NEST = 99        # in the outer call the nested argument g(...) is written as the variable 99 (PredCase.nest_var)


# ------------------------------------------------------------------ case -> Gallina
def arg_term(a) -> str:
    if a[0] == "lit":
        return f"(ALit {core.zlit(a[1])})"
    if a[0] == "var":
        return f"(AVar {a[1]})"
    if a[0] == "attr":
        return f"(AAttr {arg_term(a[1])} {a[2]})"
    raise ValueError(a)


def case_term(d) -> str:
    attrs = []
    for i, (a, b, n) in enumerate(d["objs"]):
        attrs += [f"((0, {OBJ0 + i}), {a})", f"((1, {OBJ0 + i}), {b})", f"((2, {OBJ0 + i}), {OBJ0 + n})"]
    doms = "; ".join(f"({x}, {core.zlist(OBJ0 + i for i in dom)})" for x, dom in sorted((int(k), v) for k, v in d["doms"].items()))
    return ("{| c_pred := %s; c_params := %s; c_defaults := [%s]; c_pos := [%s]; c_kw := [%s]; c_pre := %s; c_sel := %s; "
            "c_doms := [%s]; c_attrs := [%s]; c_tbl := %s |}") % (
        "true" if d["pred"] else "false", core.zlist(d["params"]),
        "; ".join(f"({p}, {core.zlit(v)})" for p, v in d["defaults"]),
        "; ".join(arg_term(a) for a in d["pos"]),
        "; ".join(f"({core.zlit(k)}, {arg_term(a)})" for k, a in d["kw"]),
        core.zlist(d["pre"]), core.zlist(d["sel"]), doms, "; ".join(attrs), core.zlist(d["tbl"]))


def extra_term(d) -> str:
    """(pcase, code) for the quantifier / operand streams"""
    if d.get("quant") is not None:
        return f"({case_term(d)}, {10 * d['quant'][0] + d['quant'][1]})"
    return f"({case_term(d)}, {10 * d['operand'][0] + d['operand'][1]})"


def ncase_term(d) -> str:
    i = d["inner"]
    return ("{| n_outer := %s; n_inner_params := %s; n_inner_defaults := [%s]; n_inner_pos := [%s]; n_inner_kw := [%s]; "
            "n_inner_tbl := %s; n_neg := %s; n_mode := %s |}") % (
        case_term(d), core.zlist(i["params"]), "; ".join(f"({p}, {core.zlit(v)})" for p, v in i["defaults"]),
        "; ".join(arg_term(a) for a in i["pos"]), "; ".join(f"({core.zlit(k)}, {arg_term(a)})" for k, a in i["kw"]),
        core.zlist(i["tbl"]), "true" if d.get("neg") else "false", int(d.get("share_mode", 0)))


# ------------------------------------------------------------------ implementation side
def _code(v) -> int:
    """what the body saw: an int, one of the world's objects (100+idx), or -5 for anything else
    (e.g. the body was run on a query-variable object)"""
    if isinstance(v, bool):          # the body is type-sensitive: True / False are 11 / 10, not 1 / 0
        return 10 + int(v)
    if isinstance(v, float):         # 0.0 / 1.0 / 2.0 are 20 / 21 / 22
        return 20 + int(v) if v in (0.0, 1.0, 2.0) else -5
    if isinstance(v, int):
        return v
    idx = getattr(v, "idx", None)
    return OBJ0 + idx if isinstance(idx, int) and not isinstance(idx, bool) and type(v).__name__ == "Obj" else -5


def _pname(p: int) -> str:
    return "self" if p == 0 else ("zz%d" % -p if p < 0 else f"p{p}")


def run_impl(d) -> Any:
    try:
        return _run_impl(d)
    except Exception as e:  # noqa -- anything the outcome grammar does not foresee is itself an outcome
        return [99, sum(map(ord, type(e).__name__))]


def _run_impl(d) -> Any:
    """Execute one case against the real implementation through the public API.
    Outcome: concrete  [0, result | -1 (TypeError), [values seen by the body per call]]
             symbolic  [1, 0 | -1 (TypeError while evaluating) | n>0 (body ran n times at construction), calls, rows]"""
    from krrood.entity_query_language.entity import let, entity, set_of
    from krrood.entity_query_language.quantify_entity import an
    from krrood.entity_query_language.symbolic import SymbolicExpression
    from krrood.entity_query_language.predicate import Predicate, symbolic_function

    @dataclasses.dataclass(eq=False)
    class Obj:
        idx: int
        a: int
        b: int
        n: Any = None

    objs = [Obj(i, a, b) for i, (a, b, n) in enumerate(d["objs"])]
    for o, (_, _, n) in zip(objs, d["objs"]):
        o.n = objs[n]
    def pyval(v):
        if v >= OBJ0:
            return objs[v - OBJ0]
        if v in (10, 11):
            return bool(v - 10)
        if v in (20, 21, 22):
            return float(v - 20)
        return v

    def mk_callee(pred, params, defaults_list, tbl, log, cname, style="dataclass", first=None):
        """style (Predicate subclasses only): 'dataclass' = fields in parameter order; 'handinit' = hand-written __init__ whose
        parameter order is the REVERSE of the field order; 'kwbase' = the last parameter is a kw_only field inherited from a base
        predicate (first in dataclasses.fields, last and keyword-only in __init__)"""
        defaults = dict((p, v) for p, v in defaults_list)

        def pname(p):       # a plain function's first parameter may be NAMED self / cls (first); it is still an ordinary parameter
            return first if (first and p == 1 and (not pred or first == "cls")) else _pname(p)

        def body(vals):
            seen = [_code(v) for v in vals]
            log.append(seen)
            code = 0
            for v in reversed(seen):
                code = (v % 3) + 3 * code
            return tbl[code % len(tbl)]

        if pred and style == "handinit":
            sig = ", ".join(pname(p) + (f"=_d[{p}]" if p in defaults else "") for p in params)
            src = (f"@dataclasses.dataclass(eq=False, init=False)\nclass {cname}(Predicate):\n"
                   + "".join(f"    {pname(p)}: Any\n" for p in reversed(params))
                   + f"    def __init__(self, {sig}):\n" + "".join(f"        self.v_{pname(p)} = {pname(p)}\n" for p in params)
                   + f"    def __call__(self):\n        return _body([{', '.join('self.v_' + pname(p) for p in params)}])\n")
            ns = {"_body": body, "_d": {p: pyval(v) for p, v in defaults.items()}, "dataclasses": dataclasses, "Predicate": Predicate, "Any": Any}
            exec(src, ns)
            return ns[cname]
        if pred and style in ("postinit", "cached", "initvar"):
            # state DERIVED from the arguments: at construction (__post_init__, also from InitVar pseudo-fields) or lazily once
            # (functools.cached_property); __call__ reads only the derived state
            import functools
            iv = style == "initvar"
            fields = []
            for p in params:
                ty = dataclasses.InitVar[Any] if iv else Any
                fields.append((pname(p), ty, dataclasses.field(default=pyval(defaults[p]))) if p in defaults else (pname(p), ty))
            ns: Dict[str, Any] = {}
            if style == "cached":
                ns["vals"] = functools.cached_property(lambda self: [getattr(self, pname(p)) for p in params])
                ns["vals"].__set_name__(None, "vals")
                ns["__call__"] = lambda self: body(self.vals)
            else:
                if iv:
                    exec("def __post_init__(self, " + ", ".join(pname(p) for p in params) + "):\n    self.derived = ["
                         + ", ".join(pname(p) for p in params) + "]\n", ns)
                else:
                    ns["__post_init__"] = lambda self: setattr(self, "derived", [getattr(self, pname(p)) for p in params])
                ns["__call__"] = lambda self: body(self.derived)
            ns = {k: v for k, v in ns.items() if not k.startswith("__builtins__")}
            return dataclasses.make_dataclass(cname, fields, bases=(Predicate,), eq=False, namespace=ns)
        if pred and style == "kwbase":
            last = params[-1]
            kwf = dataclasses.field(default=pyval(defaults[last]), kw_only=True) if last in defaults else dataclasses.field(kw_only=True)
            base = dataclasses.make_dataclass(cname + "Base", [(pname(last), Any, kwf)], bases=(Predicate,), eq=False)
            fields = [(pname(p), Any, dataclasses.field(default=pyval(defaults[p]))) if p in defaults else (pname(p), Any) for p in params[:-1]]
            return dataclasses.make_dataclass(
                cname, fields, bases=(base,), eq=False,
                namespace={"__call__": lambda self: body([getattr(self, pname(p)) for p in params])})
        if pred:
            fields = []
            for p in params:
                if p in defaults:
                    fields.append((pname(p), Any, dataclasses.field(default=pyval(defaults[p]))))
                else:
                    fields.append((pname(p), Any))
            return dataclasses.make_dataclass(
                cname, fields, bases=(Predicate,), eq=False,
                namespace={"__call__": lambda self: body([getattr(self, pname(p)) for p in params])})
        sig = ", ".join(pname(p) + (f"=_d[{p}]" if p in defaults else "") for p in params)
        ns = {"_body": body, "_d": {p: pyval(v) for p, v in defaults.items()}}
        names = ", ".join(pname(p) for p in params)
        if style == "partial":       # a callable without __name__: functools.partial over a function with one more leading parameter
            import functools
            exec(f"def {cname.lower()}(_bound, {sig}):\n    return _body([{names}])\n", ns)
            return symbolic_function(functools.partial(ns[cname.lower()], 7))
        if style == "callobj":       # a callable without __name__: an instance with __call__
            exec(f"class {cname}Obj:\n    def __call__(_me, {sig}):\n        return _body([{names}])\n", ns)
            return symbolic_function(ns[cname + "Obj"]())
        exec(f"def {cname.lower()}({sig}):\n    return _body([{names}])\n", ns)
        return symbolic_function(ns[cname.lower()])

    log: List[List[int]] = []
    first = d.get("first_name")

    def pname(p):
        return first if (first and p == 1 and (not d["pred"] or first == "cls")) else _pname(p)

    callee = mk_callee(d["pred"], d["params"], d["defaults"], d["tbl"], log, "Pr" if d["pred"] else "Fn", d.get("style", "dataclass"), first)

    variables = {}
    for k, dom in d["doms"].items():
        variables[int(k)] = let(Obj, [objs[i] for i in dom], name=VAR_NAME.get(int(k), f"v{k}"))

    def build(a):
        if a[0] == "lit":
            return pyval(a[1])
        if a[0] == "var":
            return variables[a[1]]
        return getattr(build(a[1]), ATTR_NAME[a[2]])

    inner = d.get("inner")
    ilog: List[List[int]] = []
    if inner:
        icallee = mk_callee(inner["pred"], inner["params"], inner["defaults"], inner["tbl"], ilog, "Ip" if inner["pred"] else "Ig")
        variables[NEST] = icallee(*[build(a) for a in inner["pos"]], **{_pname(k): build(a) for k, a in inner["kw"]})
        if not isinstance(variables[NEST], SymbolicExpression) or ilog:
            return [98, len(ilog)]
    pos = [build(a) for a in d["pos"]]
    kw = {pname(k): build(a) for k, a in d["kw"]}
    try:
        c = callee(*pos, **kw)
    except TypeError:
        return [0, -1, [list(c) for c in log]]
    if not isinstance(c, SymbolicExpression):
        if d["pred"]:
            if log:
                return [0, -2, [list(c) for c in log]]   # a predicate must not run before it is called
            c = c()
        return [0, _enc(c), [list(c) for c in log]]
    at_construction = len(log) + len(ilog)
    if d.get("select_call"):
        # the call is a SELECTED expression: one row per candidate binding, the call's plain result last; evaluated twice
        conds = [getattr(variables[x], "a") >= 0 for x in d["pre"]]
        sel = [variables[x] for x in d["sel"]] + [c]
        q = an(set_of(sel, *conds))
        both = []
        for _ in range(2):
            rows, err = [], 0
            try:
                for r in q.evaluate():
                    rows.append([_code(r[v]) for v in sel])
            except TypeError:
                err = -1
            both.append((rows, err))
        (rows, err), (rows2, err2) = both
        if at_construction:
            err = at_construction
        elif sorted(rows2) != sorted(rows) or err2 != err:
            err = -3            # the second evaluation of the same query object differs from the first
        return [1, err, [list(c) for c in log], rows]
    if d.get("quant") is not None:
        # the call below a quantifier over the variable u; the other variables are bound by earlier conjuncts
        from krrood.entity_query_language.entity import for_all, exists, not_
        u, viaexists = d["quant"]
        qc = not_(exists(variables[u], c)) if viaexists else for_all(variables[u], c)
        conds = [getattr(variables[x], "a") >= 0 for x in d["pre"]] + [qc]
        sel = [variables[x] for x in d["sel"]]
        q = an(entity(sel[0], *conds)) if len(sel) == 1 else an(set_of(sel, *conds))
        rows, err = [], 0
        try:
            for r in q.evaluate():
                rows.append([_code(r)] if len(sel) == 1 else [_code(r[v]) for v in sel])
        except TypeError:
            err = -1
        return [1, at_construction if at_construction else err, rows]
    if d.get("operand") is not None:
        # the call as an operand of a comparison with a constant
        op, k = d["operand"]
        c = (c == k) if op == 0 else (c < k) if op == 1 else (c != k)
    if d.get("neg"):
        from krrood.entity_query_language.entity import not_
        c = not_(c)
    mode = d.get("share_mode", 0)
    if inner and mode:
        # the inner call OBJECT g is used again: as a condition next to the call it is an operand of (1), or in both
        # or_ branches, once under not_ (2)
        from krrood.entity_query_language.entity import not_, and_, or_
        g = variables[NEST]
        if mode == 1:
            c = and_(g, c)
        else:
            gv = sorted({v for a in inner["pos"] + [a for _, a in inner["kw"]] for v in arg_vars(a)})[0]
            c = or_(and_(g, c), and_(not_(g), getattr(variables[gv], "a") >= 0))
    conds = [getattr(variables[x], "a") >= 0 for x in d["pre"]] + [c]
    sel = [variables[x] for x in d["sel"]]
    q = an(entity(sel[0], *conds)) if len(sel) == 1 else an(set_of(sel, *conds))
    rows = []
    err = 0
    try:
        for r in q.evaluate():
            rows.append([_code(r)] if len(sel) == 1 else [_code(r[v]) for v in sel])
    except TypeError:
        err = -1
    if inner:
        return [1, at_construction if at_construction else err, [list(c) for c in ilog], [list(c) for c in log], rows]
    return [1, at_construction if at_construction else err, [list(c) for c in log], rows]


def _enc(r) -> int:
    if isinstance(r, bool) or not isinstance(r, int):
        return 7000 + sum(map(ord, type(r).__name__))   # the body returns ints; anything else is not the plain result
    return r


def snippet(d) -> str:
    return f"import json; from harness import c12; print(c12.run_impl(json.loads({json.dumps(json.dumps(d))})))"


def make_case(d, run=True) -> Case:
    return Case(term=case_term(d), impl=run_impl(d) if run else None, descr=d, snippet=snippet(d),
                key=json.dumps(d, sort_keys=True))


# ------------------------------------------------------------------ generation
def arg_vars(a):
    return [] if a[0] == "lit" else [a[1]] if a[0] == "var" else arg_vars(a[1])


def gen_world(rng: core.Rng, nvars: int):
    nobj = rng.randint(2, 4)
    objs = [[rng.randint(0, 2), rng.randint(0, 2), rng.randint(0, nobj - 1)] for _ in range(nobj)]
    doms = {}
    for x in range(1, nvars + 1):
        k = rng.randint(1, min(3, nobj))
        doms[str(x)] = rng.sample(range(nobj), k)
    return objs, doms


def sym_arg(rng: core.Rng, x: int):
    r = rng.randint(0, 9)
    if r < 3:
        return ["var", x]
    if r < 6:
        return ["attr", ["var", x], 0]
    if r < 8:
        return ["attr", ["var", x], 1]
    if r < 9:
        return ["attr", ["attr", ["var", x], 2], rng.randint(0, 1)]
    return ["attr", ["var", x], 2]


def lit_arg(rng: core.Rng, nobj: int):
    """an ordinary object: an int 0..2, a bool (10 / 11), a float 0.0..2.0 (20..22) -- equal across types in Python, distinct for the
    type-sensitive body -- or one of the world's objects"""
    r = rng.randint(0, 9)
    if r < 5:
        return ["lit", rng.randint(0, 2)]
    if r < 7:
        return ["lit", 10 + rng.randint(0, 1)]
    if r < 8:
        return ["lit", 20 + rng.randint(0, 2)]
    return ["lit", OBJ0 + rng.randint(0, nobj - 1)]


def call_shapes(n: int, ndef: int):
    """every well-formed way to write the call: k positionals, then for the remaining parameters either a keyword
    or (if it has a default) nothing; keywords in natural and in reversed order"""
    params = list(range(1, n + 1))
    has_def = set(params[n - ndef:])
    for k in range(0, n + 1):
        rest = params[k:]
        opt = [p for p in rest if p in has_def]
        for mask in range(1 << len(opt)):
            omitted = {p for i, p in enumerate(opt) if mask >> i & 1}
            kws = [p for p in rest if p not in omitted]
            yield k, kws
            if len(kws) > 1:
                yield k, list(reversed(kws))


def fill(rng: core.Rng, pred: bool, n: int, ndef: int, k: int, kws: List[int], symmask: int, mode: str):
    """mode: 'distinct' (every symbolic argument over its own variable, or over a variable bound first),
             'shared' (two or more symbolic arguments over the same open variable; in F since 3f7e74b)"""
    params = list(range(1, n + 1))
    written = k + len(kws)
    nsym = bin(symmask).count("1")
    nvars = 2
    objs, doms = gen_world(rng, nvars)
    pre: List[int] = []
    if mode == "shared" or nsym <= 1:
        owner = [rng.randint(1, 2) for _ in range(written)]
        if mode == "shared" and nsym >= 2:
            owner = [1] * written
        if mode != "shared" and rng.chance(0.3):
            pre = [1] if rng.chance(0.5) else [1, 2]
    else:
        # distinct: at most two open variables; further symbolic arguments reuse a variable that is bound first
        owner = []
        seen = 0
        for i in range(written):
            if symmask >> i & 1:
                seen += 1
                owner.append(1 if seen % 2 == 1 else 2)
            else:
                owner.append(1)
        if nsym > 2:
            pre = [1, 2] if nsym > 3 or rng.chance(0.5) else [1]
            if nsym == 3 and pre == [1]:
                pass  # arguments 1 and 3 are over x (bound first), argument 2 over y (open)
        elif rng.chance(0.25):
            pre = [rng.randint(1, 2)]
    args = [sym_arg(rng, owner[i]) if symmask >> i & 1 else lit_arg(rng, len(objs)) for i in range(written)]
    used = sorted({v for a in args for v in arg_vars(a)} | set(pre))
    sel = used if (len(used) < 2 or rng.chance(0.8)) else [rng.choice(used)]
    tbl = [rng.choice([0, 0, 0, 1, 1, 2]) for _ in range(3 ** n)]
    if all(t == 0 for t in tbl) or all(t != 0 for t in tbl):
        tbl[rng.randint(0, len(tbl) - 1)] = 0 if tbl[0] else 1
    defaults = [[p, rng.randint(0, 2)] for p in params[n - ndef:]]
    return {"pred": pred, "params": params, "defaults": defaults, "pos": args[:k],
            "kw": [[p, a] for p, a in zip(kws, args[k:])], "pre": pre, "sel": sel or [1],
            "doms": {x: doms[x] for x in doms if int(x) in used} or {"1": doms["1"]}, "objs": objs, "tbl": tbl}


def gen_cases(tier: str, seed: int) -> List[dict]:
    rng = core.Rng(seed)
    nmax, reps = (3, 2) if tier == "quick" else (4, 3)
    out = []
    for pred in (False, True) * reps:
        for n in range(1, nmax + 1):
            for ndef in range(0, n + 1):
                for k, kws in call_shapes(n, ndef):
                    written = k + len(kws)
                    for symmask in range(1 << written):
                        out.append(styled(rng, fill(rng, pred, n, ndef, k, kws, symmask, "distinct")))
                        if bin(symmask).count("1") >= 2 and (tier != "quick" or n <= 3):
                            out.append(styled(rng, fill(rng, pred, n, ndef, k, kws, symmask, "shared")))
    return out


def styled(rng: core.Rng, d: dict) -> dict:
    """Predicate subclasses whose __init__ order differs from their dataclass field order, or whose __call__ reads state derived
    from the arguments (see mk_callee); plain functions whose first parameter is NAMED self / cls"""
    if not d["pred"]:
        r = rng.randint(0, 9)
        if r >= 7:
            d["first_name"] = "self" if r < 9 else "cls"
        r = rng.randint(0, 9)
        if r >= 8:
            d["style"] = "partial" if r == 8 else "callobj"      # callables without __name__
        return d
    if rng.randint(0, 9) == 0:
        d["first_name"] = "cls"          # a field may be called cls
    r = rng.randint(0, 9)
    n = len(d["params"])
    if r == 4:
        d["style"] = "handinit"
    elif r == 5 and n >= 2:
        d["style"] = "kwbase"
        if len(d["pos"]) == n:      # the inherited kw_only parameter cannot be given positionally
            d["kw"] = d["kw"] + [[n, d["pos"][-1]]]
            d["pos"] = d["pos"][:-1]
    elif r == 6:
        d["style"] = "postinit"
    elif r == 7:
        d["style"] = "cached"
    elif r == 8:
        d["style"] = "initvar"
    return d


def gen_quant(tier: str, seed: int) -> List[dict]:
    """and_(<x bound>, for_all(u, f(..x.., ..u..))) and ... not_(exists(u, f(...))): a call below a quantifier.  Outside the model:
    implementation vs Spec (the call must hold for EVERY value of u)."""
    rng = core.Rng(seed).fork(31)
    out = []
    want = 120 if tier == "quick" else 600
    tries = 0
    while len(out) < want and tries < 40 * want:
        tries += 1
        n = rng.randint(2, 3)
        ndef = rng.randint(0, n)
        k, kws = rng.choice(list(call_shapes(n, ndef)))
        written = k + len(kws)
        if written < 2:
            continue
        symmask = rng.randint(1, (1 << written) - 1)
        if bin(symmask).count("1") != 2:
            continue
        d = styled(rng, fill(rng, rng.chance(0.5), n, ndef, k, list(kws), symmask, "distinct"))
        vs = sorted({v for a in d["pos"] + [a for _, a in d["kw"]] for v in arg_vars(a)})
        if vs != [1, 2]:
            continue
        _, doms = gen_world(rng, 2)
        doms = {x: [i for i in dom if i < len(d["objs"])] or [0] for x, dom in doms.items()}
        d["doms"] = {str(v): d["doms"].get(str(v), doms[str(v)]) for v in vs}
        d["pre"], d["sel"], d["quant"] = [1], [1], [2, int(rng.chance(0.4))]
        out.append(d)
    return out


def gen_operand(tier: str, seed: int) -> List[dict]:
    """f(...) == k, f(...) < k, f(...) != k: the call is an operand of a comparison; results 0 / 1 / 2 (0 falsy).  Outside the model:
    implementation vs Spec."""
    rng = core.Rng(seed).fork(32)
    out = []
    for rep_ in range(1 if tier == "quick" else 4):
        for pred in (False, True):
            for n in range(1, 4):
                for ndef in range(0, n + 1):
                    for k, kws in call_shapes(n, ndef):
                        written = k + len(kws)
                        if written == 0:
                            continue
                        symmask = rng.randint(1, (1 << written) - 1)
                        d = styled(rng, fill(rng, pred, n, ndef, k, list(kws), symmask, "shared" if rng.chance(0.4) else "distinct"))
                        d["tbl"] = [rng.choice([0, 0, 1, 2]) for _ in d["tbl"]]
                        d["operand"] = [rng.randint(0, 2), rng.randint(0, 2)]
                        out.append(d)
    return out


def gen_selected(tier: str, seed: int) -> List[dict]:
    """an(set_of([x, y, f(x, y)], ...)): the call is a selected expression (its plain result, falsy ones included, is a column);
    every variable is bound by an earlier conjunct; the query object is evaluated twice.  Outside the model: implementation vs Spec."""
    rng = core.Rng(seed).fork(55)
    out = []
    for rep_ in range(1 if tier == "quick" else 4):
        for pred in (False, True):
            for n in range(1, 4):
                for ndef in range(0, n + 1):
                    for k, kws in call_shapes(n, ndef):
                        written = k + len(kws)
                        if written == 0:
                            continue
                        symmask = rng.randint(1, (1 << written) - 1)
                        d = styled(rng, fill(rng, pred, n, ndef, k, list(kws), symmask, "shared" if rng.chance(0.4) else "distinct"))
                        used = sorted({v for a in d["pos"] + [a for _, a in d["kw"]] for v in arg_vars(a)})
                        d["pre"], d["sel"], d["select_call"] = used, used, True
                        _, doms = gen_world(rng, 2)
                        doms = {x: [i for i in dom if i < len(d["objs"])] or [0] for x, dom in doms.items()}
                        d["doms"] = {str(v): d["doms"].get(str(v), doms[str(v)]) for v in used}
                        d["tbl"] = [rng.choice([0, 0, 1, 2]) for _ in d["tbl"]]
                        out.append(d)
    return out


def gen_nested(tier: str, seed: int) -> List[dict]:
    """f(g(x)), Pred(h(x), y), ...: one written argument of a well-formed outer call is replaced by a symbolic inner call
    whose body returns 0 / 1 / 2 (0 = a falsy non-bool result); optionally under not_.  Outside the model: implementation vs Spec."""
    rng = core.Rng(seed).fork(77)
    out = []
    nmax = 3
    for rep_ in range(1 if tier == "quick" else 4):
        for pred in (False, True):
            for ipred in (False, True):
                for n in range(1, nmax + 1):
                    for ndef in range(0, n + 1):
                        for k, kws in call_shapes(n, ndef):
                            written = k + len(kws)
                            if written == 0:
                                continue
                            for where in range(written):
                                symmask = rng.randint(0, (1 << written) - 1)
                                d = fill(rng, pred, n, ndef, k, list(kws), symmask, "shared" if rng.chance(0.4) else "distinct")
                                m = rng.randint(1, 2)
                                mdef = rng.randint(0, m)
                                ik, ikws = rng.choice(list(call_shapes(m, mdef)))
                                iw = ik + len(ikws)
                                if iw == 0:
                                    ik, ikws, iw = 1, [p for p in ikws], 1
                                imask = rng.randint(1, (1 << iw) - 1)
                                owner = rng.randint(1, 2)
                                iargs = [sym_arg(rng, owner if rng.chance(0.7) else 3 - owner) if imask >> j & 1 else lit_arg(rng, len(d["objs"]))
                                         for j in range(iw)]
                                itbl = [rng.choice([0, 0, 1, 2]) for _ in range(3 ** m)]
                                if 0 not in itbl:
                                    itbl[0] = 0
                                d["inner"] = {"pred": ipred, "params": list(range(1, m + 1)),
                                              "defaults": [[p, rng.randint(0, 2)] for p in range(m - mdef + 1, m + 1)],
                                              "pos": iargs[:ik], "kw": [[p, a] for p, a in zip(ikws, iargs[ik:])], "tbl": itbl}
                                args = d["pos"] + [a for _, a in d["kw"]]
                                args[where] = ["var", NEST]
                                d["pos"] = args[:len(d["pos"])]
                                d["kw"] = [[p, a] for (p, _), a in zip(d["kw"], args[len(d["pos"]):])]
                                d["neg"] = rng.chance(0.25)
                                ivs = {v for a in iargs for v in arg_vars(a)}
                                ovs = {v for a in args for v in arg_vars(a)} - {NEST}
                                r = rng.randint(0, 9)
                                d["share_mode"] = 0 if r < 5 else 1 if r < 8 else 2
                                if d["share_mode"] == 2 and not ovs <= ivs:
                                    d["share_mode"] = 1
                                if d["share_mode"] == 2:
                                    d["neg"] = False
                                used = sorted(({v for a in args for v in arg_vars(a)} - {NEST}) | {v for a in iargs for v in arg_vars(a)} | set(d["pre"]))
                                _, doms = gen_world(rng, 2)
                                doms = {x: [i for i in dom if i < len(d["objs"])] or [0] for x, dom in doms.items()}
                                d["doms"] = {str(v): d["doms"].get(str(v), doms[str(v)]) for v in used}
                                d["sel"] = used if (len(used) < 2 or rng.chance(0.8)) else [rng.choice(used)]
                                if d["neg"] or d["share_mode"] == 2:
                                    d["pre"] = sorted(set(d["pre"]) | set(used))   # keep negation away from open variables (C01's concern)
                                out.append(d)
    return out


def gen_malformed(tier: str, seed: int) -> List[dict]:
    """calls Python rejects: too many positionals, a parameter given positionally and by keyword, an unknown keyword,
    a missing required parameter.  The property is silent here; the model (translated merge + hand evaluation) is
    compared with the implementation to tie zip's truncation and update's overriding."""
    rng = core.Rng(seed).fork(12)
    out = []
    count = 60 if tier == "quick" else 400
    for i in range(count):
        n = rng.randint(1, 3)
        ndef = rng.randint(0, n)
        shapes = list(call_shapes(n, ndef))
        k, kws = rng.choice(shapes)
        written = k + len(kws)
        symmask = rng.randint(0, (1 << written) - 1) if written else 0
        d = fill(rng, rng.chance(0.5), n, ndef, k, list(kws), symmask, "distinct")
        kind = i % 4
        nobj = len(d["objs"])
        extra = sym_arg(rng, rng.randint(1, 2)) if rng.chance(0.5) else lit_arg(rng, nobj)
        if kind == 0:      # too many positionals
            d["pos"] = d["pos"] + [a for _, a in d["kw"]] + [extra]
            d["kw"] = []
            while len(d["pos"]) <= n:
                d["pos"].append(lit_arg(rng, nobj))
        elif kind == 1:    # duplicate: positional and keyword
            if not d["pos"]:
                d["pos"] = [lit_arg(rng, nobj)]
                d["kw"] = [kv for kv in d["kw"] if kv[0] != 1]
            d["kw"] = d["kw"] + [[rng.randint(1, len(d["pos"])), extra]]
        elif kind == 2:    # unknown keyword
            d["kw"] = d["kw"] + [[-1, extra]]
        else:              # missing required parameter
            req = [p for p in d["params"] if p not in [q for q, _ in d["defaults"]]]
            if not req:
                d["defaults"] = d["defaults"][1:]
                req = [p for p in d["params"] if p not in [q for q, _ in d["defaults"]]]
            drop = rng.choice(req)
            given = [[p, a] for p, a in zip(d["params"], d["pos"])] + d["kw"]
            npos = min(len(d["pos"]), drop - 1)
            d["pos"] = [a for p, a in given[:npos]]
            d["kw"] = [[p, a] for p, a in given[npos:] if p != drop]
        used = sorted({v for a in d["pos"] + [a for _, a in d["kw"]] for v in arg_vars(a)} | set(d["pre"]))
        if used:
            for v in used:
                d["doms"].setdefault(str(v), [0])
            if not set(d["sel"]) <= set(used):
                d["sel"] = used
            # a dropped / overridden argument may have been the only occurrence of a selected variable; bind the
            # selected variables by an earlier conjunct so that the rows stay defined (unconstrained selection is C01-b)
            d["pre"] = sorted(set(d["pre"]) | set(d["sel"]))
        out.append(d)
    return out


# ------------------------------------------------------------------ known findings
ATTRIBUTE_ERROR = [99, sum(map(ord, "AttributeError"))]


def known_defect(d: dict, impl) -> Any:
    """narrow class rules of the listed OPEN findings: decidable input class AND exactly the recorded wrong behaviour"""
    written = d["pos"] + [a for _, a in d["kw"]] + ([["var", 0]] if d.get("inner") else [])
    symbolic = any(a[0] != "lit" for a in written)
    if (not d["pred"] and d.get("style") in ("partial", "callobj") and symbolic and impl == ATTRIBUTE_ERROR):
        return "K_callable_without_name"       # C12-d: AttributeError ... has no attribute '__name__' when the condition is built
    if (d["pred"] and d.get("first_name") == "cls" and (symbolic or any(k == 1 for k, _ in d["kw"]))
            and impl[:2] in ([1, -1], [0, -1]) and not any(isinstance(x, list) and x for x in impl[2:])):
        return "K_field_named_cls"             # C12-e: TypeError ... got multiple values for argument 'cls'
    return None


def replay_finding(rep: Report, f: core.Finding, model_ok: bool):
    w = json.loads((core.VERIF / f.witness).read_text())
    entries = w["cases"] if "cases" in w else [w]
    impls = [run_impl(e["case"]) for e in entries]
    header, fn = (HEADER, "case_code") if model_ok else (HEADER_SPEC, "case_code_spec")
    d0 = entries[0]["case"]
    if d0.get("quant") is not None or d0.get("operand") is not None:
        codes = core.coq_codes(PROP, HEADER_SPEC, "(pcase * Z)%type", "case_code_quant" if d0.get("quant") is not None else "case_code_operand",
                               [(extra_term(e["case"]), core.sx(i)) for e, i in zip(entries, impls)], tag="kf")
        model_ok = True      # Spec-only streams: the model is not involved
    else:
        codes = core.coq_codes(PROP, header, "pcase", fn, [(case_term(e["case"]), core.sx(i)) for e, i in zip(entries, impls)], tag="kf")
    still, gone = 0, 0
    for e, impl, code in zip(entries, impls, codes):
        d = e["case"]
        rep.count("kf:" + json.dumps(d, sort_keys=True), True)
        if f.kind == "fixed":
            # must pass: agrees with the Spec (class F, code 0) and is the recorded, correct outcome
            if code != 0 or impl != e["expected_impl"]:
                rep.violation({"kind": "counterexample", "regression_of": f.fid, "case": d, "impl": impl,
                               "expected": e["expected_impl"], "code": code, "python": snippet(d), "explanation": EXPLAIN})
            continue
        # open finding: still failing, in its class, exactly as the faithful model predicts (and as recorded)?
        if (code == 2 or (not model_ok and code == 3)) and impl == e["expected_impl"]:
            still += 1
        elif code % 100 != 0 and known_defect(d, impl) == f.cls and impl == e["expected_impl"]:
            still += 1      # a class whose recorded wrong behaviour is an exception, not a reading of the model
        elif code % 100 in (0, 1):      # impl = spec (1: the faithful model still predicts the old, wrong outcome)
            gone += 1
        else:
            rep.violation({"kind": "counterexample", "case": d, "impl": impl, "code": code, "python": snippet(d),
                           "explanation": f"witness of {f.fid} fails differently from what the faithful model predicts. " + EXPLAIN})
    if f.kind == "open":
        if still:
            rep.known(f)
        if gone:
            rep.note(f"known finding {f.fid}: {gone} of {len(entries)} witnesses no longer fail (appears repaired)")


EXPLAIN = ("outcome encoding: concrete -> [0, result | -1 TypeError, calls]; symbolic -> [1, 0 | -1 TypeError during evaluation | "
           "n>0 body ran n times at construction, calls (parameter values seen by the body, defaults filled in, objects as 100+idx), "
           "rows (selected variables)]. code = 100*class + k; class 0 = F (every well-formed call), "
           "2 = call Python itself rejects (property silent; impl vs model only); "
           "k: 0 agree, 1 impl=spec but model differs, 2 impl=model but not spec, 3 impl differs from both, 4 order differs from the model")


def run(tier: str, seed: int, replay=None) -> int:
    from translator import t_pred
    rep = Report(PROP, tier, seed, "proof")
    rep.trusted = core.COQ_TRUSTED + [
        "translator/t_pred.py (fail-closed ast translator: merge_args_and_kwargs, symbolic_function.wrapper, Predicate.__new__, "
        "_any_of_the_kwargs_is_a_variable -> Gen/Pred.v) and its idiom table Eql/PredIdioms.v (dict as ordered association list, zip, slicing, any)",
        "hand-written model of the predicate-variable evaluation (Eql/PredEval.v: nested loops over the kwargs, each evaluated under the bindings of "
        "the ones before it, values.update in kwarg order), variable-level bindings; tied by differential execution through an(entity/set_of(...))",
        "source pins `pred` (pins/sets/pred.json, recorded in pins/pred.json): the 22 methods the hand model mirrors and no translator regenerates "
        "(Variable.__post_init__/_update_child_vars_from_kwargs_/_evaluate__/_should_be_instantiated_/_instantiate_using_child_vars_and_yield_results_/"
        "_generate_combinations_for_child_vars_values_/_process_output_and_update_values_, Literal.__init__, DomainMapping._evaluate__, Attribute._apply_mapping_, "
        "AND._evaluate__, QueryObjectDescriptor evaluation, utils.generate_combinations, Symbol.__new__, Predicate.__call__, update_cache); an edit reopens the correspondence obligation",
        "harness/c12.py: dynamically defined functions / Predicate dataclasses with a call log, case builder, outcome canonicaliser",
        "Python's own parameter binding (Spec part 1, python_bind/call_ok) is stated, and compared with CPython on the concrete calls",
    ]
    rep.assume = ["the user's function / __call__ is pure and depends only on its parameters",
                  "nested calls (an argument that is itself a symbolic call) are NOT in the model or the theorems; they are compared with the Spec "
                  "(Eql/PredCase.v spec_nested: the concrete composition per candidate binding) on the generated cases only",
                  "written arguments are ordinary objects, query variables or attribute chains over one variable (other expression kinds are C01's evaluator)",
                  "domains are non-empty explicit lists of distinct truthy objects (empty / falsy / repeated domain elements are C01 / C03 classes)"]
    rep.rule = ("exhaustive over path (function / Predicate subclass) x arity 1..N x number of defaults x number of positionals x which defaulted "
                "parameters are omitted x keyword order (natural / reversed) x every variable/concrete split (quick N=3, thorough N=4); per combination one "
                "case with each symbolic argument over its own or an already bound variable and, for >= 2 symbolic arguments, one where they share an open variable; "
                "worlds, attribute chains, defaults and the body's truth table drawn from VERIF_SEED; plus a malformed stream (impl vs model only) and a "
                "nested-call stream f(g(x)), Pred(h(x), y), optionally under not_, inner results 0/1/2 with 0 falsy (outside the model: impl vs Spec = concrete composition) "
                "and a selected-call stream an(set_of([x, y, f(x, y)], ...)) evaluated twice, falsy results included (outside the model: impl vs Spec). "
                "Predicate subclasses: classes with a hand-written __init__ in the reverse of the field order that stores under other names, "
                "or subclasses of a base predicate with a kw_only field, or predicates whose __call__ reads state derived in __post_init__ / from InitVars / by a cached_property "
                "(1/10 each, the rest plain dataclasses); 30% of the plain functions name their first parameter self / cls. "
                "distinct = distinct case description; non-trivial = concrete call, or symbolic with >= 2 different calls of which at least one is true and one false")
    ok_spec, log = core.coq_make(["Base/Sx.vo", "Eql/PredSpec.vo", "Eql/PredCase.vo"])
    rep.oblige("build:spec", ok_spec, "" if ok_spec else core.first_error(log))
    try:
        t_pred.translate(str(core.REPO))
    except Exception:  # noqa -- the translator refuses: never evaluate cases against the compiled model of an older source
        for ext in (".vo", ".vos", ".vok", ".glob"):
            (core.COQ / "Gen" / ("Pred" + ext)).unlink(missing_ok=True)
    model_ok = core.standard_proof_steps(
        rep, PROP, ["Props/C12.vo"],
        regen=[("Gen/Pred.v", lambda: t_pred.translate(str(core.REPO)), core.COQ / "Gen" / "Pred.v")])
    if model_ok and tier == "thorough" and not replay:
        rc, out = core.sh(["timeout", "600", "coqchk", "-silent", "-o", "-Q", ".", "Krrood", "Krrood.Props.C12"], cwd=core.COQ, timeout=630)
        rep.oblige("coqchk:Props/C12.vo", rc == 0 and "Axioms: <none>" in out.replace("\n", " "), out.strip()[-400:])
    from translator import pins
    pins.oblige(rep, str(core.REPO), "pred", "the predicate-evaluation model (Eql/PredEval.v)")
    header, fn = (HEADER, "case_code") if model_ok else (HEADER_SPEC, "case_code_spec")
    if not model_ok:
        rep.note("model not available; comparing the implementation with the Spec only (search for a failing input)")

    if replay and "case" in replay:
        descrs = [replay["case"]]
    else:
        if replay:
            rep.note("replay of a broken obligation: re-running the whole check against the current tree")
            replay = None
        descrs = []
        cdir = core.VERIF / "corpus" / PROP
        if cdir.is_dir():
            for p in sorted(cdir.glob("*.json")):
                if not p.name.startswith("kf_"):
                    descrs.append(json.loads(p.read_text())["case"])
        descrs += gen_cases(tier, seed) + gen_malformed(tier, seed) + gen_nested(tier, seed) + gen_selected(tier, seed) + gen_quant(tier, seed) + gen_operand(tier, seed)
    nested = [d for d in descrs if d.get("inner")]
    selected = [d for d in descrs if d.get("select_call")]
    quants = [d for d in descrs if d.get("quant") is not None]
    operands = [d for d in descrs if d.get("operand") is not None]
    descrs = [d for d in descrs if not d.get("inner") and not d.get("select_call") and d.get("quant") is None and d.get("operand") is None]
    cases = [make_case(d) for d in descrs]
    codes = core.coq_codes(PROP, header, "pcase", fn, [(c.term, core.sx(c.impl)) for c in cases], chunk=250)

    dist: Dict[str, int] = {"F": 0, "malformed": 0, "shared_open_variable": 0, "symbolic": 0, "concrete": 0, "function": 0, "predicate": 0,
                            "with_positional": 0, "with_keyword": 0, "with_default_omitted": 0, "with_prebound": 0,
                            }
    bad = []
    open_classes = {f.cls for f in core.load_findings(PROP) if f.kind == "open"}
    kf_instances: Dict[str, int] = {}
    for c, code in zip(cases, codes):
        d = c.descr
        cls, k = divmod(code, 100)
        sym = c.impl[0] == 1 and len(c.impl) == 4
        nontrivial = c.impl[0] == 0 or (sym and 0 < len(c.impl[3]) and len({tuple(x) for x in c.impl[2]}) > 1
                                        and len(c.impl[3]) < len(c.impl[2]))
        rep.count(c.key, nontrivial)
        dist[{0: "F", 2: "malformed"}[cls]] += 1
        opened = [v for a in d["pos"] + [a for _, a in d["kw"]] for v in arg_vars(a) if v not in d["pre"]]
        dist["shared_open_variable"] += cls == 0 and len(opened) != len(set(opened))
        dist["symbolic" if sym else "concrete"] += 1
        dist["predicate" if d["pred"] else "function"] += 1
        dist["with_positional"] += bool(d["pos"])
        dist["with_keyword"] += bool(d["kw"])
        dist["with_default_omitted"] += len(d["pos"]) + len(d["kw"]) < len(d["params"])
        dist["with_prebound"] += bool(d["pre"])
        if k == 0:
            continue
        kd = known_defect(d, c.impl)
        if kd in open_classes:
            kf_instances[kd] = kf_instances.get(kd, 0) + 1
            continue
        if k in (1, 4) and cls == 0:
            rep.oblige("correspondence:model", False, f"model differs from impl (=spec) on {c.key[:300]}")
            continue
        if cls == 2:
            # a call Python itself rejects: the property is silent; a difference only says the model is not faithful here
            rep.oblige("correspondence:model-malformed", False, f"model differs from impl on the malformed call {c.key[:300]}")
            continue
        bad.append((c, code))
    bad.sort(key=lambda cc: (cc[1] // 100 != 0, len(cc[0].key)))     # smallest case of the proved fragment first
    # nested calls f(g(x)), Pred(h(x), y): outside the model; implementation vs Spec (the concrete composition)
    ncases = [Case(term=ncase_term(d), impl=run_impl(d), descr=d, snippet=snippet(d), key=json.dumps(d, sort_keys=True)) for d in nested]
    ncodes = core.coq_codes(PROP, HEADER_SPEC, "ncase", "case_code_nested", [(c.term, core.sx(c.impl)) for c in ncases],
                            chunk=250, tag="nest") if ncases else []
    dist.update({"nested_shared_call_object": {m: sum(1 for d in nested if d.get("share_mode", 0) == m) for m in (0, 1, 2)}})
    dist.update({"nested": len(ncases), "nested_inner_result_falsy_somewhere": 0, "nested_under_not": 0, "nested_inner_predicate": 0,
                 "nested_shares_variable_with_outer": 0})
    nbad = []
    for c, code in zip(ncases, ncodes):
        d = c.descr
        ok_shape = c.impl[0] == 1 and len(c.impl) == 5
        inner_vals = {d["inner"]["tbl"][sum((v % 3) * 3 ** j for j, v in enumerate(call)) % len(d["inner"]["tbl"])] for call in c.impl[2]} if ok_shape else set()
        rep.count(c.key, ok_shape and len(c.impl[3]) > 0)
        dist["nested_inner_result_falsy_somewhere"] += 0 in inner_vals
        dist["nested_under_not"] += bool(d.get("neg"))
        dist["nested_inner_predicate"] += bool(d["inner"]["pred"])
        ivars = {v for a in d["inner"]["pos"] + [a for _, a in d["inner"]["kw"]] for v in arg_vars(a)}
        ovars = {v for a in d["pos"] + [a for _, a in d["kw"]] for v in arg_vars(a)} - {NEST}
        dist["nested_shares_variable_with_outer"] += bool(ivars & ovars)
        if code != 0:
            kd = known_defect(c.descr, c.impl)
            if kd in open_classes:
                kf_instances[kd] = kf_instances.get(kd, 0) + 1
                continue
            nbad.append((c, code))
    nbad.sort(key=lambda cc: len(cc[0].key))
    for c, code in nbad[:3]:
        try:
            spec = core.coq_eval_sx(PROP, HEADER_SPEC, [f"spec_nested ({c.term})"])[0]
        except Exception as e:  # noqa
            spec = f"<{e}>"
        rep.violation({"kind": "counterexample", "case": c.descr, "impl": c.impl, "spec": spec, "model": None, "code": 300 + code,
                       "python": c.snippet, "explanation": "nested call (class 3, outside the model): outcome [1, err, inner calls (compared as a set), "
                       "outer calls, rows]; the nested argument is written as variable 99 in the outer call; Spec = the concrete composition. " + EXPLAIN})
    # selected call results: outside the model; implementation vs Spec
    scases = [Case(term=case_term(d), impl=run_impl(d), descr=d, snippet=snippet(d), key=json.dumps(d, sort_keys=True)) for d in selected]
    scodes = core.coq_codes(PROP, HEADER_SPEC, "pcase", "case_code_selected", [(c.term, core.sx(c.impl)) for c in scases],
                            chunk=250, tag="sel") if scases else []
    dist.update({"selected_call": len(scases), "selected_call_falsy_result_on_a_row": 0})
    sbad = []
    for c, code in zip(scases, scodes):
        ok_shape = c.impl[0] == 1 and len(c.impl) == 4
        rep.count(c.key, ok_shape and len(c.impl[3]) > 1)
        dist["selected_call_falsy_result_on_a_row"] += ok_shape and any(r[-1] == 0 for r in c.impl[3])
        if code != 0:
            kd = known_defect(c.descr, c.impl)
            if kd in open_classes:
                kf_instances[kd] = kf_instances.get(kd, 0) + 1
                continue
            sbad.append((c, code))
    sbad.sort(key=lambda cc: len(cc[0].key))
    for c, code in sbad[:3]:
        try:
            spec = core.coq_eval_sx(PROP, HEADER_SPEC, [f"spec_selected ({c.term})"])[0]
        except Exception as e:  # noqa
            spec = f"<{e}>"
        rep.violation({"kind": "counterexample", "case": c.descr, "impl": c.impl, "spec": spec, "model": None, "code": 400 + code,
                       "python": c.snippet, "explanation": "selected call result (class 4, outside the model): an(set_of([vars..., f(...)], conjuncts binding the "
                       "variables)) evaluated twice; outcome [1, err (-3: second evaluation differs from the first), calls (as a set), rows = variables + "
                       "[plain result]]; Spec = one row per candidate binding. " + EXPLAIN})
    # the call below a quantifier / as a comparison operand: outside the model; implementation vs Spec
    for label, ds, ctype, fn, tagn in (("quant", quants, "(pcase * Z)%type", "case_code_quant", "quant"),
                                       ("operand", operands, "(pcase * Z)%type", "case_code_operand", "opnd")):
        xs = [Case(term=extra_term(d), impl=run_impl(d), descr=d, snippet=snippet(d), key=json.dumps(d, sort_keys=True)) for d in ds]
        xcodes = core.coq_codes(PROP, HEADER_SPEC, ctype, fn, [(c.term, core.sx(c.impl)) for c in xs], chunk=250, tag=tagn) if xs else []
        dist[label] = len(xs)
        xbad = []
        for c, code in zip(xs, xcodes):
            rep.count(c.key, c.impl[0] == 1 and bool(c.impl[-1]))
            if code != 0:
                kd = known_defect(c.descr, c.impl)
                if kd in open_classes:
                    kf_instances[kd] = kf_instances.get(kd, 0) + 1
                    continue
                xbad.append((c, code))
        xbad.sort(key=lambda cc: len(cc[0].key))
        for c, code in xbad[:3]:
            rep.violation({"kind": "counterexample", "case": c.descr, "impl": c.impl, "model": None, "code": (500 if label == "quant" else 600) + code,
                           "python": c.snippet,
                           "explanation": ("call below a quantifier (class 5): case['quant'] = [u, via not_(exists)]; outcome [1, err, rows]; Spec = the call holds "
                                           "for EVERY value of u. " if label == "quant" else
                                           "call as comparison operand (class 6): case['operand'] = [op (0 ==, 1 <, 2 !=), k]; outcome [1, err, calls, rows]; Spec = "
                                           "the comparison holds for the call's plain result. ") + EXPLAIN})
    dist["known_finding_instances"] = kf_instances
    dist["predicate_styles"] = {st: sum(1 for c in cases if c.descr.get("style", "dataclass") == st and c.descr["pred"]) for st in ("dataclass", "handinit", "kwbase", "postinit", "cached", "initvar")}
    dist["function_first_parameter_named_self_or_cls"] = sum(1 for c in cases if c.descr.get("first_name"))
    rep.extra["distribution"] = dist
    rep.extra["exhaustive_note"] = "call shapes exhaustive up to the stated arity; worlds and expressions sampled"
    step = max(1, len(cases) // 6)
    rep.samples = [{"case": c.descr, "impl": c.impl} for c in cases[::step]][:6]
    for c, code in bad[:5]:
        try:
            exprs = [f"spec_outcome ({c.term})"] + ([f"model_outcome ({c.term})"] if model_ok else [])
            vals = core.coq_eval_sx(PROP, header, exprs)
        except Exception as e:  # noqa
            vals = [f"<{e}>"]
        rep.violation({"kind": "counterexample", "case": c.descr, "impl": c.impl, "spec": vals[0],
                       "model": vals[1] if len(vals) > 1 else None, "code": code, "python": c.snippet, "explanation": EXPLAIN})
    if not replay:
        for f in core.load_findings(PROP):
            replay_finding(rep, f, model_ok)
    return rep.finish()
