"""C02 side stream: conditions that contain PREDICATES / symbolic functions next to comparisons.

The condition syntax of Eql/Syntax.v has no predicate calls; C02's property text, however, names them ("comparisons,
predicates and negated atoms with and_, and with or_ only between conditions over the same variables").  Their model
and Spec are Eql/PredCond.v (condition syntax with predicate atoms, evaluator peval, first-order Spec psat), theorems
Props/C02b.v.  Every case is evaluated three ways -- implementation (public API), model and Spec (both inside Coq by
vm_compute, Eql/PredCondShow.v) -- and compared as MULTISETS; the direct Python evaluation below is kept as a cross-check
of the Coq Spec.  Inside the fragment (flag pe_in_F, theorem C02b_fragment_flag) any disagreement with the Spec is a
VIOLATION; outside it (or_ over different variables = Union, negated compound conditions) only implementation vs model.

This stream found C02-a: or_(f(x), g(x)) over symbolic functions built a Union (each call is a variable of its own, so the
two sides never had "the same variables") and yielded every assignment satisfying both sides twice; fixed in /repo."""
from __future__ import annotations

import itertools
import json
from typing import Any, Dict, List

from . import core
from .core import Rng

HEADER = """From Coq Require Import List ZArith.
From Krrood Require Import Base.Sx Eql.Syntax Eql.PredCond Eql.PredCondShow.
Import ListNotations. Open Scope Z_scope."""
VARNO = {"x": 0, "y": 1}
PREDNO = {"p_even": 0, "p_small": 1, "p_pos": 2, "p_lt": 3, "p_sum3": 4, "p_same": 5}
OPNAME = {"==": "OpEq", "!=": "OpNe", "<": "OpLt", "<=": "OpLe", ">": "OpGt", ">=": "OpGe"}


def _opnd(e) -> str:
    return f"(OVar {VARNO[e[1]]}%nat)" if e[0] == "var" else f"(OLit (VI {core.zlit(e[1])}))"


def cond_term(c) -> str:
    k = c[0]
    if k == "cmp":
        return f"(PCmp {OPNAME[c[1]]} {_opnd(c[2])} {_opnd(c[3])})"
    if k == "pred":
        return f"(PPred {PREDNO[c[1]]}%nat [{'; '.join(_opnd(e) for e in c[2])}])"
    if k == "not":
        return f"(mk_pnot {cond_term(c[1])})"
    if k == "and":
        return f"(mk_pand {cond_term(c[1])} {cond_term(c[2])})"
    return f"(mk_por {cond_term(c[1])} {cond_term(c[2])})"     # or_: the constructor's own decision, inside Coq


def case_term(case) -> str:
    doms = "; ".join(f"({VARNO[n]}%nat, {core.zlist(case['doms'][n])})" for n in case["vars"])
    sels = "; ".join(f"{VARNO[n]}%nat" for n in case["vars"])
    return f"{{| pe_doms := [{doms}]; pe_sels := [{sels}]; pe_cond := {cond_term(case['cond'])} |}}"


def rows_sx(rows) -> str:
    if rows and rows[0] == "exc":
        return "SZ (-1)"
    return core.sx([[int(v) for v in r] for r in rows])

OPS = {"==": lambda a, b: a == b, "!=": lambda a, b: a != b, "<": lambda a, b: a < b, "<=": lambda a, b: a <= b,
       ">": lambda a, b: a > b, ">=": lambda a, b: a >= b}
PRED1 = {"p_even": lambda v: v % 2 == 0, "p_small": lambda v: v < 2, "p_pos": lambda v: v > 0}
PRED2 = {"p_lt": lambda a, b: a < b, "p_sum3": lambda a, b: a + b == 3, "p_same": lambda a, b: a == b}

_FUNCS: Dict[str, Any] = {}


def _funcs():
    """the symbolic functions, defined once per process (their qualified names must stay unique)"""
    if not _FUNCS:
        from krrood.entity_query_language.predicate import symbolic_function

        def mk(name, f):
            f.__name__ = name
            f.__qualname__ = name
            return symbolic_function(f)

        for n, f in PRED1.items():
            _FUNCS[n] = mk(n, (lambda g: (lambda v: g(v)))(f))
        for n, f in PRED2.items():
            _FUNCS[n] = mk(n, (lambda g: (lambda a, b: g(a, b)))(f))
    return _FUNCS


def cvars(c) -> List[str]:
    k = c[0]
    if k == "cmp":
        return [e[1] for e in (c[2], c[3]) if e[0] == "var"]
    if k == "pred":
        return [e[1] for e in c[2] if e[0] == "var"]
    if k == "not":
        return cvars(c[1])
    return cvars(c[1]) + cvars(c[2])


def holds(c, env) -> bool:
    k = c[0]

    def val(e):
        return env[e[1]] if e[0] == "var" else e[1]

    if k == "cmp":
        return OPS[c[1]](val(c[2]), val(c[3]))
    if k == "pred":
        f = PRED1.get(c[1]) or PRED2[c[1]]
        return bool(f(*[val(e) for e in c[2]]))
    if k == "not":
        return not holds(c[1], env)
    if k == "and":
        return holds(c[1], env) and holds(c[2], env)
    return holds(c[1], env) or holds(c[2], env)


def gen(rng: Rng) -> dict:
    wild = rng.chance(0.15)      # outside C02's scope: or_ over different variables (Union), negated compound conditions
    share = rng.chance(0.35)     # identical call atoms are ONE Python object used in several places of the condition
    names = ["x"] if rng.chance(0.45) else ["x", "y"]
    doms = {n: rng.sample([0, 1, 2, 3, 4], rng.randint(1, 4)) for n in names}

    def opnd(allow_lit=True):
        if allow_lit and rng.chance(0.35):
            return ["lit", rng.randint(0, 3)]
        return ["var", rng.choice(names)]

    pool: List[Any] = []

    def atom():
        if share and pool and rng.chance(0.6):
            return rng.choice(pool)
        a = fresh_atom()
        if share and a[0] == "pred" and len(pool) < 2:
            pool.append(a)
        return a

    def fresh_atom():
        r = rng.random()
        if r < 0.3:
            return ["cmp", rng.choice(list(OPS)), ["var", rng.choice(names)], opnd()]
        if r < 0.65 or len(names) == 1:
            return ["pred", rng.choice(list(PRED1)), [["var", rng.choice(names)]]]
        a = [["var", "x"], ["var", "y"]] if rng.chance(0.7) else [opnd(False), opnd()]
        if rng.chance(0.3):
            a = a[::-1]
        return ["pred", rng.choice(list(PRED2)), a]

    def cond(d):
        r = rng.random()
        if d <= 0 or r < 0.3:
            a = atom()
            return ["not", a] if rng.chance(0.25) else a
        l, rr = cond(d - 1), cond(d - 1)
        if wild and r > 0.85:
            return ["not", ["and", l, rr]] if rng.chance(0.5) else ["not", ["or", l, rr]]
        if wild and r > 0.6:
            return ["or", l, rr]
        if r < 0.6 or set(cvars(l)) != set(cvars(rr)) or not cvars(l):
            return ["and", l, rr]
        return ["or", l, rr]          # or_ only between conditions over the same variables (C02's scope)

    c = cond(rng.randint(0, 3))
    used = list(dict.fromkeys(cvars(c)))
    if not used:
        c = ["and", c, ["pred", "p_pos", [["var", "x"]]]]
        used = ["x"]
    case = {"vars": used, "doms": {n: doms[n] for n in used}, "cond": c}
    if share:
        case["share"] = True
    return case


def run_impl(case) -> Any:
    from krrood.entity_query_language.entity import let, entity, set_of, and_, or_, not_
    from krrood.entity_query_language.quantify_entity import an
    F = _funcs()
    try:
        vs = {n: let(int, list(case["doms"][n]), name=n) for n in case["vars"]}

        shared: Dict[str, Any] = {}

        def val(e):
            return vs[e[1]] if e[0] == "var" else e[1]

        def cond(c):
            k = c[0]
            if k == "cmp":
                l, r = val(c[2]), val(c[3])
                return {"==": l.__eq__, "!=": l.__ne__, "<": l.__lt__, "<=": l.__le__, ">": l.__gt__, ">=": l.__ge__}[c[1]](r)
            if k == "pred":
                if not case.get("share"):
                    return F[c[1]](*[val(e) for e in c[2]])
                key = json.dumps(c)
                if key not in shared:        # the same call object wherever the same call is written
                    shared[key] = F[c[1]](*[val(e) for e in c[2]])
                return shared[key]
            if k == "not":
                return not_(cond(c[1]))
            if k == "and":
                return and_(cond(c[1]), cond(c[2]))
            return or_(cond(c[1]), cond(c[2]))

        sel = [vs[n] for n in case["vars"]]
        if len(sel) == 1:
            return sorted([r] for r in an(entity(sel[0], cond(case["cond"]))).evaluate())
        return sorted([r[s] for s in sel] for r in an(set_of(sel, cond(case["cond"]))).evaluate())
    except Exception as e:  # noqa
        return ["exc", type(e).__name__, str(e)[:120]]


def _max_repeat(c) -> int:
    cnt: Dict[str, int] = {}

    def walk(c):
        if c[0] == "pred":
            k = json.dumps(c)
            cnt[k] = cnt.get(k, 0) + 1
        elif c[0] == "not":
            walk(c[1])
        elif c[0] in ("and", "or"):
            walk(c[1]); walk(c[2])
    walk(c)
    return max(cnt.values(), default=0)


def spec(case) -> List[List[int]]:
    ns = case["vars"]
    return sorted([list(t) for t in itertools.product(*[case["doms"][n] for n in ns])
                   if holds(case["cond"], dict(zip(ns, t)))])


def snippet(case) -> str:
    return ("import json; from harness import eqlpred\n"
            f"case = json.loads({json.dumps(json.dumps(case))})\n"
            "print('impl', eqlpred.run_impl(case)); print('spec', eqlpred.spec(case))")


def stream(rep, rng: Rng, tier: str) -> None:
    """run the predicate stream and record its results in the report"""
    n = 400 if tier == "quick" else 6000
    corpus = [{"vars": ["x"], "doms": {"x": [0, 1, 2, 3, 4]},
               "cond": ["or", ["pred", "p_small", [["var", "x"]]], ["pred", "p_even", [["var", "x"]]]]}]   # C02-a
    ps, pe = ["pred", "p_small", [["var", "x"]]], ["pred", "p_even", [["var", "x"]]]
    c1, c2 = ["cmp", ">=", ["var", "x"], ["lit", 1]], ["cmp", "<=", ["var", "x"], ["lit", 3]]
    for cond in (["or", ["and", ps, c1], ["and", ["not", ps], c2]],                # one call object in both or_ branches, once under not_
                 ["and", ["or", ps, c2], ["not", ps]], ["and", ["and", c2, ["not", ps]], ps],
                 ["or", ["and", pe, ["not", ps]], ["and", ["not", pe], ps]]):
        corpus.append({"vars": ["x"], "doms": {"x": [0, 1, 2, 3, 4]}, "cond": cond, "share": True})
    cases = corpus + [gen(rng.fork(i)) for i in range(n)]
    # theorems and model of the predicate bridge
    ok, log = core.coq_make(["Props/C02b.vo"])
    rep.oblige("build:Props/C02b.vo", ok, "" if ok else core.first_error(log))
    model_ok = ok
    if ok:
        ok2, ass, out = core.print_assumptions("C02b")
        if not ok2:
            rep.oblige("props:C02b", False, core.first_error(out))
            model_ok = False
        else:
            rep.assumptions.update(ass)
            for thm in core.theorem_names("C02b"):
                a = ass.get(thm)
                if a is not None:
                    rep.oblige(f"theorem:{thm}", a.startswith("Closed under the global context"), a[:300])
    impls = [run_impl(c) for c in cases]
    specs = [spec(c) for c in cases]
    codes = None
    if model_ok:
        try:
            codes = core.coq_codes("C02", HEADER, "pecase", "pe_code_x",
                                   [(case_term(c), "SL [" + rows_sx(i) + "; " + rows_sx(sp) + "]") for c, i, sp in zip(cases, impls, specs)],
                                   chunk=200, tag="pred")
        except Exception as e:  # noqa
            rep.oblige("correspondence:predicate-model", False, f"cases could not be evaluated in Coq: {str(e)[:300]}")
    else:
        rep.note("predicate stream: model not available; comparing the implementation with the direct Python evaluation only")
    bad = stale = outside = outside_differs = spec_mismatch = 0
    npred_or = nonempty = 0

    def report(c, got, want, why, code=None):
        rep.violation({"kind": "counterexample", "origin": "predicate stream", "case": c, "impl": got, "spec": want, "code": code,
                       "compared_as": "bag", "python": snippet(c),
                       "explanation": why + " -- a query whose condition contains symbolic-function calls; impl = sorted rows of "
                                      "an(entity/set_of(...)).evaluate(); spec = one row per satisfying assignment (Eql/PredCond.v psat, "
                                      "cross-checked by a direct Python evaluation); code = 100*class (0 in the fragment of C02b_fragment_flag, "
                                      "1 outside) + k (0 agree, 1 impl=spec but model differs, 2 impl=model but not spec, 3 impl differs from both)"})

    for idx, c in enumerate(cases):
        got, want = impls[idx], specs[idx]
        rep.count("pred:" + json.dumps(c, sort_keys=True), bool(want))
        nonempty += int(bool(want))
        npred_or += int('"or"' in json.dumps(c["cond"]) and '"pred"' in json.dumps(c["cond"]))
        if codes is None:
            if got != want:
                bad += 1
                if bad <= 2:
                    report(c, got, want, "implementation differs from the direct evaluation (no Coq model available)")
            continue
        code = codes[idx]
        if code >= 1000:
            spec_mismatch += 1
            code -= 1000
            rep.oblige("correspondence:predicate-spec", False, f"Coq Spec and direct Python evaluation disagree on {json.dumps(c)[:300]}")
        cls, k = divmod(code, 100)
        if cls == 1:
            outside += 1
            if k in (1, 3):      # implementation differs from the model: the property is silent here, the tie is not
                rep.oblige("correspondence:predicate-model", False, f"model differs from impl outside the fragment on {json.dumps(c)[:300]}")
            elif k == 2:
                outside_differs += 1
            continue
        if k == 0:
            continue
        if k == 1:
            stale += 1
            rep.oblige("correspondence:predicate-model", False, f"model differs from impl (=spec) on {json.dumps(c)[:300]}")
            continue
        bad += 1
        if bad <= 2:
            report(c, got, want, "inside the fragment the rows must be exactly one per satisfying assignment", code)
    rep.extra["predicate_stream"] = {"cases": len(cases), "shared_call_objects": sum(1 for c in cases if c.get("share")),
                                     "shared_object_used_twice_or_more": sum(1 for c in cases if c.get("share") and _max_repeat(c["cond"]) >= 2), "nonempty": nonempty, "or_with_predicates": npred_or, "disagreements": bad,
                                     "three_way_in_coq": codes is not None, "outside_fragment": outside,
                                     "outside_fragment_bag_differs_as_model_predicts": outside_differs,
                                     "model_stale": stale, "spec_cross_check_mismatches": spec_mismatch}
    rep.oblige("correspondence:predicate-stream", bad == 0,
               f"{len(cases)} queries with predicates compared as multisets, implementation / model / Spec; {bad} disagree")
