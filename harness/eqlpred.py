"""C02 side stream: conditions that contain PREDICATES / symbolic functions next to comparisons.

The condition syntax of Eql/Syntax.v has no predicate calls, so these queries have no Coq model; C02's property text,
however, names them ("comparisons, predicates and negated atoms with and_, and with or_ only between conditions over the
same variables").  They are compared, as MULTISETS, with a direct Python evaluation of the same condition over the
product of the domains (exactly one row per satisfying assignment).  Any disagreement is a VIOLATION.

This stream found C02-a: or_(f(x), g(x)) over symbolic functions built a Union (each call is a variable of its own, so the
two sides never had "the same variables") and yielded every assignment satisfying both sides twice; fixed in /repo."""
from __future__ import annotations

import itertools
import json
from typing import Any, Dict, List

from .core import Rng

OPS = {"==": lambda a, b: a == b, "!=": lambda a, b: a != b, "<": lambda a, b: a < b, "<=": lambda a, b: a <= b,
       ">": lambda a, b: a > b, ">=": lambda a, b: a >= b}
PRED1 = {"p_even": lambda v: v % 2 == 0, "p_small": lambda v: v < 2, "p_pos": lambda v: v > 0}
PRED2 = {"p_lt": lambda a, b: a < b, "p_sum3": lambda a, b: a + b == 3, "p_same": lambda a, b: a == b}

_FUNCS: Dict[str, Any] = {}


def _funcs():
    """the symbolic functions, defined once per process (their qualified names must stay unique)"""
    if not _FUNCS:
        from krrood.entity_query_language.predicate import symbolic_function

        def mk(name, f):
            f.__name__ = name
            f.__qualname__ = name
            return symbolic_function(f)

        for n, f in PRED1.items():
            _FUNCS[n] = mk(n, (lambda g: (lambda v: g(v)))(f))
        for n, f in PRED2.items():
            _FUNCS[n] = mk(n, (lambda g: (lambda a, b: g(a, b)))(f))
    return _FUNCS


def cvars(c) -> List[str]:
    k = c[0]
    if k == "cmp":
        return [e[1] for e in (c[2], c[3]) if e[0] == "var"]
    if k == "pred":
        return [e[1] for e in c[2] if e[0] == "var"]
    if k == "not":
        return cvars(c[1])
    return cvars(c[1]) + cvars(c[2])


def holds(c, env) -> bool:
    k = c[0]

    def val(e):
        return env[e[1]] if e[0] == "var" else e[1]

    if k == "cmp":
        return OPS[c[1]](val(c[2]), val(c[3]))
    if k == "pred":
        f = PRED1.get(c[1]) or PRED2[c[1]]
        return bool(f(*[val(e) for e in c[2]]))
    if k == "not":
        return not holds(c[1], env)
    if k == "and":
        return holds(c[1], env) and holds(c[2], env)
    return holds(c[1], env) or holds(c[2], env)


def gen(rng: Rng) -> dict:
    names = ["x"] if rng.chance(0.45) else ["x", "y"]
    doms = {n: rng.sample([0, 1, 2, 3, 4], rng.randint(1, 4)) for n in names}

    def opnd(allow_lit=True):
        if allow_lit and rng.chance(0.35):
            return ["lit", rng.randint(0, 3)]
        return ["var", rng.choice(names)]

    def atom():
        r = rng.random()
        if r < 0.3:
            return ["cmp", rng.choice(list(OPS)), ["var", rng.choice(names)], opnd()]
        if r < 0.65 or len(names) == 1:
            return ["pred", rng.choice(list(PRED1)), [["var", rng.choice(names)]]]
        a = [["var", "x"], ["var", "y"]] if rng.chance(0.7) else [opnd(False), opnd()]
        if rng.chance(0.3):
            a = a[::-1]
        return ["pred", rng.choice(list(PRED2)), a]

    def cond(d):
        r = rng.random()
        if d <= 0 or r < 0.3:
            a = atom()
            return ["not", a] if rng.chance(0.25) else a
        l, rr = cond(d - 1), cond(d - 1)
        if r < 0.6 or set(cvars(l)) != set(cvars(rr)) or not cvars(l):
            return ["and", l, rr]
        return ["or", l, rr]          # or_ only between conditions over the same variables (C02's scope)

    c = cond(rng.randint(0, 3))
    used = list(dict.fromkeys(cvars(c)))
    if not used:
        c = ["and", c, ["pred", "p_pos", [["var", "x"]]]]
        used = ["x"]
    return {"vars": used, "doms": {n: doms[n] for n in used}, "cond": c}


def run_impl(case) -> Any:
    from krrood.entity_query_language.entity import let, entity, set_of, and_, or_, not_
    from krrood.entity_query_language.quantify_entity import an
    F = _funcs()
    try:
        vs = {n: let(int, list(case["doms"][n]), name=n) for n in case["vars"]}

        def val(e):
            return vs[e[1]] if e[0] == "var" else e[1]

        def cond(c):
            k = c[0]
            if k == "cmp":
                l, r = val(c[2]), val(c[3])
                return {"==": l.__eq__, "!=": l.__ne__, "<": l.__lt__, "<=": l.__le__, ">": l.__gt__, ">=": l.__ge__}[c[1]](r)
            if k == "pred":
                return F[c[1]](*[val(e) for e in c[2]])
            if k == "not":
                return not_(cond(c[1]))
            if k == "and":
                return and_(cond(c[1]), cond(c[2]))
            return or_(cond(c[1]), cond(c[2]))

        sel = [vs[n] for n in case["vars"]]
        if len(sel) == 1:
            return sorted([r] for r in an(entity(sel[0], cond(case["cond"]))).evaluate())
        return sorted([r[s] for s in sel] for r in an(set_of(sel, cond(case["cond"]))).evaluate())
    except Exception as e:  # noqa
        return ["exc", type(e).__name__, str(e)[:120]]


def spec(case) -> List[List[int]]:
    ns = case["vars"]
    return sorted([list(t) for t in itertools.product(*[case["doms"][n] for n in ns])
                   if holds(case["cond"], dict(zip(ns, t)))])


def snippet(case) -> str:
    return ("import json; from harness import eqlpred\n"
            f"case = json.loads({json.dumps(json.dumps(case))})\n"
            "print('impl', eqlpred.run_impl(case)); print('spec', eqlpred.spec(case))")


def stream(rep, rng: Rng, tier: str) -> None:
    """run the predicate stream and record its results in the report"""
    n = 400 if tier == "quick" else 6000
    bad = 0
    npred_or = nonempty = 0
    corpus = [{"vars": ["x"], "doms": {"x": [0, 1, 2, 3, 4]},
               "cond": ["or", ["pred", "p_small", [["var", "x"]]], ["pred", "p_even", [["var", "x"]]]]}]   # C02-a
    cases = corpus + [gen(rng.fork(i)) for i in range(n)]
    for c in cases:
        got, want = run_impl(c), spec(c)
        rep.count("pred:" + json.dumps(c, sort_keys=True), bool(want))
        nonempty += int(bool(want))
        npred_or += int('"or"' in json.dumps(c["cond"]) and '"pred"' in json.dumps(c["cond"]))
        if got != want:
            bad += 1
            if bad <= 2:
                rep.violation({"kind": "counterexample", "origin": "predicate stream", "case": c, "impl": got, "spec": want,
                               "compared_as": "bag", "python": snippet(c),
                               "explanation": "a query whose condition contains symbolic-function calls; impl = sorted rows of "
                                              "an(entity/set_of(...)).evaluate(); spec = one row per satisfying assignment "
                                              "(direct Python evaluation over the product of the domains)"})
    rep.extra["predicate_stream"] = {"cases": len(cases), "nonempty": nonempty, "or_with_predicates": npred_or, "disagreements": bad}
    rep.oblige("correspondence:predicate-stream", bad == 0,
               f"{len(cases)} queries with predicates compared as multisets with a direct evaluation; {bad} disagree")
