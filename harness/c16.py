"""C16 -- every way of writing a descriptor-managed collection field keeps the data and infers alike.

Proof: coq/Onto/ContainerSpec.v (plain Python list/set), Onto/Container.v (model of __set__/MonitoredList/MonitoredSet),
Onto/ContainerProofs.v, Onto/ContainerInfer.v (link to C15), Props/C16.v.
Tie (H): random histories of the listed write operations on list- and set-valued managed fields of the university model
and of the harness schema of C15 are executed through the public API; after every operation the field contents and the
IndexError flag are compared with the model and with plain Python semantics (Spec), every element must be recorded in
the symbol graph, and the final graph must be the C15 closure of the recorded facts.

Worker mode:  python -m harness.c16 --worker"""
from __future__ import annotations

import gc
import itertools
import json
import signal
import subprocess
import sys
from concurrent.futures import ThreadPoolExecutor
from typing import Any, Dict, List, Optional

from krrood.entity_query_language.symbol_graph import SymbolGraph

from . import core
from . import c15

PROP = "C16"

# scenario: family, class of the owner, field name, class of the elements
SCN = {
    "U-list": ("U", 1, "member_of", 0),    # Person.member_of : List[Company]     (sub-property of nothing, inverse members)
    "U-set": ("U", 0, "members", 1),       # Company.members  : Set[Person]       (inverse member_of)
    "N-list": ("N", 0, "a", 0),            # Node.a : List[Node]                  (sub-property of top)
    "N-set": ("N", 0, "b", 0),             # Node.b : Set[Node]
    "Q-items": ("Q", 2, "items", 0),       # QTeam.items : List[QItem]   owner falsy while empty and iterable, even elements falsy
    "Q-plains": ("Q", 3, "plains", 1),     # QLeague.plains : List[QPlain]   elements of an eq=True dataclass: no hash
    "Q-teams": ("Q", 3, "teams", 2),       # QLeague.teams : List[QTeam]   elements that define __iter__ / __len__
    "N-list-tr": ("N", 0, "anc", 0),       # Node.anc : List[Node], transitive with inverse desc (inference writes back into the field)
}
NELEM = 4
# scenarios whose elements 2 and 3 are distinct objects that compare and hash equal (class Twin, ==-class 2)
TWINS = {"N-list": [(2, 2), (3, 2)]}
TWIN_CLASS = 2       # index of c15.Twin in family N
CASE_TIMEOUT_S = 2.0   # CPU-time guard per case (ITIMER_VIRTUAL: immune to machine load; a non-terminating write is CPU-bound)
VIEW_OPS_LIST = ["AssignRev", "AssignIter", "AssignChain", "AssignFilter"]
VIEW_OPS_SET = ["AssignIter", "AssignChain", "AssignFilter"]
LIST_OPS = VIEW_OPS_LIST + ["IAugAlias", "ExtendLazy", "IAugLazy", "SliceRev", "SliceFilter", "Assign", "AssignSelf", "IAug", "Append", "Extend", "ExtendGen", "ExtendSelf", "Insert", "SetItem", "SetSlice", "SetSliceGen"]
SET_OPS = VIEW_OPS_SET + ["IAugAlias", "Assign", "AssignList", "AssignSelf", "IAug", "Add", "Update", "Update2"]


def kind_of(scn: str) -> str:
    _register_family_q()
    fam = c15.families()[SCN[scn][0]]
    f = field_id(scn)
    return fam.kind[f]


def field_id(scn: str) -> int:
    _register_family_q()
    famk, oc, name, _ = SCN[scn]
    fam = c15.families()[famk]
    return [i for i, (c, n, _) in enumerate(fam.flds) if c == oc and n == name][0]


_AUG = {}


def aug(name: str, op: str):
    """the genuine statement  o.<name> += v  /  o.<name> |= v"""
    key = (name, op)
    if key not in _AUG:
        ns: Dict[str, Any] = {}
        exec(f"def f(o, v):\n    o.{name} {op} v\n", ns)
        _AUG[key] = ns["f"]
    return _AUG[key]


def population(scn: str):
    famk, oc, name, ec = SCN[scn]
    # elements 0..NELEM-1, owner NELEM
    tw = {i for i, _ in TWINS.get(scn, [])}
    return [[TWIN_CLASS if i in tw else ec, None] for i in range(NELEM)] + [[oc, None]]


def make_elements(scn: str, fam):
    ec = SCN[scn][3]
    tw = dict(TWINS.get(scn, []))
    return [c15.Twin(f"o{i}", key=tw[i]) if i in tw else fam.classes[ec](f"o{i}") for i in range(NELEM)]


def in_slice_twins_class(d) -> bool:
    """K_slice_twins: a slice assignment whose value holds two distinct objects of one ==-class"""
    tw = dict(TWINS.get(d["scn"], []))
    for op in d.get("ops", []):
        if op[0] in ("SetSlice", "SetSliceGen"):
            seen = {}
            for x in op[3]:
                c = tw.get(x, ("id", x))
                if c in seen and seen[c] != x:
                    return True
                seen.setdefault(c, x)
    return False


def run_impl(descr) -> Dict[str, Any]:
    scn = descr["scn"]
    famk, oc, name, ec = SCN[scn]
    fam = c15.families()[famk]
    kind = fam.kind[field_id(scn)]
    f = field_id(scn)
    SymbolGraph().clear()
    SymbolGraph()
    elems = make_elements(scn, fam)
    init = [elems[i] for i in descr["init"]]
    C = fam.classes[oc]
    if not init and descr.get("default_ctor"):
        owner = C(f"o{NELEM}")
    else:
        owner = C(f"o{NELEM}", **{name: (list(init) if kind == "list" else set(init))})
    objs = elems + [owner]
    ident = {id(o): i for i, o in enumerate(objs)}

    def contents():
        v = getattr(owner, name)
        ids = [ident.get(id(x), -1) for x in v]
        return ids if kind == "list" else sorted(ids)

    def recorded():
        out = set()
        for r in SymbolGraph().relations():
            wf = r.wrapped_field
            if r.source.instance is owner and wf.public_name == name:
                out.add(ident.get(id(r.target.instance), -1))
        return out

    trace = []
    unrec = []
    guard = descr.get("guard")

    def _alarm(*_a):
        raise c15.HangGuard()
    old_handler = signal.signal(signal.SIGVTALRM, _alarm)     # a write that never returns must not hang the check
    signal.setitimer(signal.ITIMER_VIRTUAL, CASE_TIMEOUT_S)
    for op in descr["ops"]:
        k, args = op[0], op[1:]
        exc = 0
        try:
            if guard is not None:
                c15.HASH_GUARD["limit"], c15.HASH_GUARD["count"] = guard, 0
            if k == "Assign":
                vals = [elems[i] for i in args[0]]
                setattr(owner, name, list(vals) if kind == "list" else set(vals))
            elif k == "AssignList":            # a list assigned to a set-valued field
                setattr(owner, name, [elems[i] for i in args[0]])
            elif k == "AssignSelf":
                setattr(owner, name, getattr(owner, name))
            elif k == "IAug":
                vals = [elems[i] for i in args[0]]
                if kind == "list":
                    aug(name, "+=")(owner, vals)
                else:
                    aug(name, "|=")(owner, set(vals))
            elif k in ("ExtendLazy", "IAugLazy"):   # a lazy iterable that READS the field: "add the candidates that are not there yet"
                cur = getattr(owner, name)
                gen = (v for v in [elems[i] for i in args[0]] if not any(v is w for w in getattr(owner, name)))
                if k == "ExtendLazy":
                    cur.extend(gen)
                else:
                    aug(name, "+=")(owner, gen)
                del cur
            elif k == "IAugAlias":             # the in-place operator through another reference to the container
                vals = [elems[i] for i in args[0]]
                alias = getattr(owner, name)
                if kind == "list":
                    alias += vals
                else:
                    alias |= set(vals)
                del alias
            elif k == "Append":
                getattr(owner, name).append(elems[args[0]])
            elif k == "Extend":
                getattr(owner, name).extend([elems[i] for i in args[0]])
            elif k == "ExtendGen":
                getattr(owner, name).extend(elems[i] for i in args[0])
            elif k == "ExtendSelf":
                getattr(owner, name).extend(getattr(owner, name))
            elif k == "Insert":
                getattr(owner, name).insert(args[0], elems[args[1]])
            elif k == "SetItem":
                getattr(owner, name)[args[0]] = elems[args[1]]
            elif k == "SetSlice":
                getattr(owner, name)[args[0]:args[1]] = [elems[i] for i in args[2]]
            elif k == "SetSliceGen":           # the slice value is a one-shot iterator
                getattr(owner, name)[args[0]:args[1]] = (elems[i] for i in args[2])
            elif k == "AssignRev":             # lazy views over the field itself: Python evaluates them against the OLD contents
                setattr(owner, name, reversed(getattr(owner, name)))
            elif k == "AssignIter":
                setattr(owner, name, iter(getattr(owner, name)))
            elif k == "AssignChain":
                setattr(owner, name, itertools.chain(getattr(owner, name), [elems[i] for i in args[0]]))
            elif k == "AssignFilter":
                drop = elems[args[0]]
                setattr(owner, name, (v for v in getattr(owner, name) if v is not drop))
            elif k == "SliceRev":              # the slice value is a lazy view over the field itself
                cur = getattr(owner, name)
                cur[args[0]:args[1]] = reversed(cur)
            elif k == "SliceFilter":
                cur = getattr(owner, name)
                drop = elems[args[2]]
                cur[args[0]:args[1]] = (v for v in cur if v is not drop)
            elif k == "Add":
                getattr(owner, name).add(elems[args[0]])
            elif k == "Update":
                getattr(owner, name).update([elems[i] for i in args[0]])
            elif k == "Update2":
                getattr(owner, name).update(*[[elems[i] for i in vs] for vs in args[0]])
            else:
                raise ValueError(k)
        except IndexError:
            exc = 1
        except c15.HangGuard:
            exc = 7
        except Exception as e:  # noqa
            exc = [99, f"{type(e).__name__}: {str(e)[:120]}"]
        finally:
            c15.HASH_GUARD["limit"] = None
        if exc == 7:
            trace.append([[], 7])
            break
        cur = contents()
        trace.append([cur, exc])
        rec = recorded()
        unrec.append(sorted(set(cur) - rec))
    signal.setitimer(signal.ITIMER_VIRTUAL, 0)
    signal.signal(signal.SIGVTALRM, old_handler)
    fid = {(fam.classes[ci], nm): i for i, (ci, nm, _) in enumerate(fam.flds)}
    E = []
    for r in SymbolGraph().relations():
        wf = r.wrapped_field
        E.append([ident.get(id(r.source.instance), -1), fid.get((wf.clazz.clazz, wf.public_name), -1),
                  ident.get(id(r.target.instance), -1)])
    return {"init": contents() if not descr["ops"] else None, "trace": trace, "unrecorded": unrec,
            "recorded": sorted(recorded()), "E": sorted(E)}


def run_ctor_alias(descr) -> Dict[str, Any]:
    """K_ctor_alias: q = C(f = p.f); q.f.append(x)"""
    scn = descr["scn"]
    famk, oc, name, ec = SCN[scn]
    fam = c15.families()[famk]
    SymbolGraph().clear()
    SymbolGraph()
    elems = [fam.classes[ec](f"o{i}") for i in range(NELEM)]
    C = fam.classes[oc]
    p = C("p", **{name: [elems[i] for i in descr["init"]]})
    q = C("q", **{name: getattr(p, name)})
    getattr(q, name).append(elems[descr["x"]])
    ident = {id(o): i for i, o in enumerate(elems)}

    def rec(o):
        return sorted({ident[id(r.target.instance)] for r in SymbolGraph().relations()
                       if r.source.instance is o and r.wrapped_field.public_name == name})
    return {"p": [ident[id(x)] for x in getattr(p, name)], "q": [ident[id(x)] for x in getattr(q, name)],
            "rec_p": rec(p), "rec_q": rec(q), "same_container": getattr(p, name) is getattr(q, name)}


def run_churn(descr) -> Dict[str, Any]:
    """fresh elements every turn: each is written into the field, the previous ones are dropped from it and die, so later elements
    reuse their addresses (id()).  Every element that is in the field must have its own relation and inverse."""
    famk, oc, name, ec = SCN[descr["scn"]]
    fam = c15.families()[famk]
    kind = fam.kind[field_id(descr["scn"])]
    inv_name = {"U-list": "members", "U-set": "member_of"}.get(descr["scn"])
    SymbolGraph().clear()
    SymbolGraph()
    owner = fam.classes[oc]("owner")
    sizes, unrec, noinv, ids_seen, reused = [], [], [], set(), 0
    counter = 0
    for turn in range(descr["turns"]):
        n_new = 1 + (turn * 7 + descr.get("salt", 0)) % 3
        fresh = []
        for _ in range(n_new):
            fresh.append(fam.classes[ec](f"e{counter}"))
            counter += 1
        reused += sum(1 for e in fresh if id(e) in ids_seen)
        ids_seen.update(id(e) for e in fresh)
        how = descr["how"][turn % len(descr["how"])]
        if how == "assign":
            setattr(owner, name, list(fresh) if kind == "list" else set(fresh))
        elif how == "setitem":                         # list only: keep one slot and overwrite it
            cur = getattr(owner, name)
            if len(cur) == 0:
                cur.append(fresh[0])
            else:
                cur[0] = fresh[0]
            del cur[1:]
        elif how == "clear_add":
            cur = getattr(owner, name)
            cur.clear()
            for e in fresh:
                (cur.append if kind == "list" else cur.add)(e)
        cur = list(getattr(owner, name))
        rels = [r for r in SymbolGraph().relations() if r.source.instance is owner and r.wrapped_field.public_name == name]
        sizes.append(len(cur))
        unrec.append(sum(1 for e in cur if not any(r.target.instance is e for r in rels)))
        if inv_name:
            noinv.append(sum(1 for e in cur if not any(m is owner for m in getattr(e, inv_name))))
        del fresh, cur, rels
        gc.collect()
        if descr.get("sweep"):                 # dead nodes are removed: their node indices are reused by the next symbols
            SymbolGraph().remove_dead_instances()
    return {"sizes": sizes, "unrecorded": unrec, "no_inverse": noinv, "ids_reused": reused}


def run_clone(descr) -> Dict[str, Any]:
    """q = copy.copy(p): writes through either owner's field; who gets the relation?"""
    import copy
    famk, oc, name, ec = SCN[descr["scn"]]
    fam = c15.families()[famk]
    SymbolGraph().clear()
    SymbolGraph()
    elems = [fam.classes[ec](f"o{i}") for i in range(NELEM)]
    p = fam.classes[oc]("p", **{name: [elems[i] for i in descr["init"]]})
    q = copy.copy(p)
    own = {"p": p, "q": q}
    for op in descr["ops"]:
        o = own[op[1]]
        if op[0] == "read":
            getattr(o, name)
        elif op[0] == "append":
            getattr(o, name).append(elems[op[2]])
        elif op[0] == "assign":
            setattr(o, name, [elems[i] for i in op[2]])
    ident = {id(e): i for i, e in enumerate(elems)}

    def rec(o):
        return sorted({ident[id(r.target.instance)] for r in SymbolGraph().relations()
                       if r.source.instance is o and r.wrapped_field.public_name == name})
    return {"items": [ident[id(x)] for x in getattr(p, name)], "shared": getattr(p, name) is getattr(q, name),
            "rec_p": rec(p), "rec_q": rec(q)}


def clone_expect(descr):
    """what the property asks of the writes: an element written through owner w's field is recorded for w"""
    need = {"p": set(descr["init"]), "q": set()}
    for op in descr["ops"]:
        if op[0] == "append":
            need[op[1]].add(op[2])
        elif op[0] == "assign":
            need[op[1]].update(op[2])
    return need


def in_clone_assign_class(descr) -> bool:
    """K_clone_assign: a plain assignment through an owner the shared container is not bound to"""
    bound = "p"
    for op in descr["ops"]:
        if op[0] in ("read", "append"):
            bound = op[1]
        elif op[0] == "assign" and op[1] != bound:
            return True
    return False


# ---- element / owner classes with a truth value, without a hash, with an iteration protocol (round 7, defects 1-3) -----------------
from dataclasses import dataclass as _dc, field as _fld
from typing_extensions import List as _TList, Set as _TSet
from krrood.entity_query_language.predicate import Symbol as _Symbol
from krrood.ontomatic.property_descriptor.property_descriptor import PropertyDescriptor as _PD


@_dc(eq=False)
class QItem(_Symbol):
    """falsy when its number is even"""
    name: str

    def __bool__(self):
        return int(self.name[1:]) % 2 == 1


@_dc
class QPlain(_Symbol):
    """an ordinary eq=True dataclass: compares by value, has no hash"""
    name: str


@_dc(eq=False)
class QTeam(_Symbol):
    """its length and its iteration are those of its items: an empty team is falsy, and it is iterable"""
    name: str
    items: _TList[QItem] = _fld(default_factory=list)

    def __len__(self):
        return len(self.items)

    def __iter__(self):
        return iter(self.items)


@_dc(eq=False)
class QLeague(_Symbol):
    name: str
    teams: _TList[QTeam] = _fld(default_factory=list)
    plains: _TList[QPlain] = _fld(default_factory=list)


@_dc
class QHasItem(_PD): ...


@_dc
class QHasPlain(_PD): ...


@_dc
class QHasTeam(_PD): ...


QTeam.items = QHasItem(QTeam, "items")
QLeague.plains = QHasPlain(QLeague, "plains")
QLeague.teams = QHasTeam(QLeague, "teams")


def _register_family_q():
    fams = c15.families()
    if "Q" not in fams:
        fams["Q"] = c15.Family("Q", [QItem, QPlain, QTeam, QLeague], {}).analyse()


def run_quirk(descr) -> Dict[str, Any]:
    """every element that is in the field afterwards must have its relation: [names in the field], [names recorded], exception"""
    SymbolGraph().clear()
    SymbolGraph()
    which = descr["which"]
    exc = None
    owner, name = None, None
    try:
        if which in ("falsy_owner", "falsy_element"):
            owner, name = QTeam("t"), "items"
            for n in descr["elems"]:
                owner.items.append(QItem(n))
        elif which == "unhashable":
            owner, name = QLeague("L"), "plains"
            owner.plains.append(QPlain("a"))
            owner.plains.extend([QPlain("b")])
            owner.plains = list(owner.plains) + [QPlain("c")]
        elif which == "iterable_element":
            owner, name = QLeague("L"), "teams"
            full = QTeam("full")
            full.items.append(QItem("o1"))
            owner.teams.append(full)
            owner.teams.append(QTeam("empty"))
        elif which == "extend_lazy":            # xs.extend(v for v in cands if v not in xs), the candidate twice
            fam = c15.families()["U"]
            Company = fam.classes[0]
            owner, name = Company("owner"), "sub_organization_of"
            a = Company("a")
            owner.sub_organization_of.extend(v for v in [a, a] if not any(v is w for w in owner.sub_organization_of))
            return {"field": [x.name for x in owner.sub_organization_of], "recorded": ["a"], "exc": None}
        elif which in ("alias_iadd", "alias_ior"):
            fam = c15.families()["U"]
            Company, Person = fam.classes[0], fam.classes[1]
            if which == "alias_iadd":
                owner, name = Person("p"), "member_of"
                alias = owner.member_of
                alias += [Company("c0"), Company("c1")]
            else:
                owner, name = Company("c"), "members"
                alias = owner.members
                alias |= {Person("p0")}
    except Exception as e:  # noqa
        exc = f"{type(e).__name__}: {str(e)[:80]}"
    field_names = sorted(x.name for x in getattr(owner, name)) if owner is not None else []
    rec = sorted(r.target.instance.name for r in SymbolGraph().relations()
                 if r.source.instance is owner and r.wrapped_field.public_name == name and hasattr(r.target.instance, "name"))
    return {"field": field_names, "recorded": rec, "exc": exc}


def run_trans(descr) -> Dict[str, Any]:
    """writes on a TRANSITIVE list field without inverse (Org.part_of) of the FIRST symbol of a fresh graph, which already has incoming
    and outgoing relations elsewhere: the final graph must be the C15 closure of all asserted facts"""
    fam = c15.families()["O"]
    SymbolGraph().clear()
    SymbolGraph()
    objs = [c15.Org(f"o{i}") for i in range(NELEM + 1)]       # the owner is object 0: node index 0 of the instance graph
    owner = objs[0]
    exc = 0
    for s, t_ in descr["pre"]:
        objs[s].part_of.append(objs[t_])
    try:
        for op in descr["ops"]:
            if op[0] == "append":
                owner.part_of.append(objs[op[1]])
            elif op[0] == "extend":
                owner.part_of.extend([objs[i] for i in op[1]])
            elif op[0] == "insert":
                owner.part_of.insert(op[1], objs[op[2]])
            elif op[0] == "iadd":
                aug("part_of", "+=")(owner, [objs[i] for i in op[1]])
            elif op[0] == "assign_first":
                owner.part_of = [objs[i] for i in op[1]]
    except Exception as e:  # noqa
        exc = [99, f"{type(e).__name__}: {str(e)[:100]}"]
    ident = {id(o): i for i, o in enumerate(objs)}
    fid = {(fam.classes[ci], nm): i for i, (ci, nm, _) in enumerate(fam.flds)}
    E = sorted([ident.get(id(r.source.instance), -1), fid.get((r.wrapped_field.clazz.clazz, r.wrapped_field.public_name), -1),
                ident.get(id(r.target.instance), -1)] for r in SymbolGraph().relations())
    return {"E": E, "field": [ident[id(x)] for x in owner.part_of], "exc": exc}


def trans_facts(d):
    fam = c15.families()["O"]
    f = [i for i, (c, n, _) in enumerate(fam.flds) if c == 0 and n == "part_of"][0]
    facts = [(s, f, t_) for s, t_ in d["pre"]]
    for op in d["ops"]:
        xs = [op[1]] if op[0] == "append" else [op[2]] if op[0] == "insert" else op[1]
        facts += [(0, f, x) for x in xs]
    return f, facts


def run_container_eq(descr) -> Dict[str, Any]:
    """K_container_eq: how two managed fields (and a managed field and a plain list) compare with == / !="""
    famk, oc, name, ec = SCN[descr["scn"]]
    fam = c15.families()[famk]
    SymbolGraph().clear()
    SymbolGraph()
    elems = [fam.classes[ec](f"o{i}") for i in range(NELEM)]
    C = fam.classes[oc]
    p = C("p", **{name: [elems[i] for i in descr["p"]]})
    q = C("q", **{name: [elems[i] for i in descr["q"]]})
    fp, fq = getattr(p, name), getattr(q, name)
    return {"obs": [int(fp == fq), int(fp != fq), int(fp == [elems[i] for i in descr["p"]]), int(fp == [elems[i] for i in descr["q"]])],
            "python": [int(descr["p"] == descr["q"]), int(descr["p"] != descr["q"]), 1, int(descr["p"] == descr["q"])]}


def run_setitem_grown(descr) -> Dict[str, Any]:
    """K_setitem_grown: Node.anc is transitive; o1.anc = [o2]; owner.anc = init; owner.anc[i] = o1"""
    fam = c15.families()["N"]
    SymbolGraph().clear()
    SymbolGraph()
    elems = [c15.Node(f"o{i}") for i in range(NELEM)]
    owner = c15.Node("o4")
    elems[1].anc.append(elems[2])
    owner.anc.extend(elems[i] for i in descr["init"])
    exc = 0
    try:
        owner.anc[descr["i"]] = elems[descr["x"]]
    except IndexError:
        exc = 1
    ident = {id(o): i for i, o in enumerate(elems + [owner])}
    rec = sorted({ident[id(r.target.instance)] for r in SymbolGraph().relations()
                  if r.source.instance is owner and r.wrapped_field.public_name == "anc"})
    return {"field": [ident[id(x)] for x in owner.anc], "recorded": rec, "exc": exc}


def snippet(descr) -> str:
    fn = {"quirk": "run_quirk", "trans": "run_trans", "churn": "run_churn", "clone": "run_clone", "ctor_alias": "run_ctor_alias", "container_eq": "run_container_eq", "setitem_grown": "run_setitem_grown"}.get(descr.get("kind"), "run_impl")
    return ("# PYTHONPATH=/repo/src:/repo:/verif PYTHONHASHSEED=0 /venv/bin/python\n"
            f"from harness import c16; print(c16.{fn}({descr!r}))")


def run_workers(descrs: List[dict], nproc: int = 8, per: int = 400) -> List[dict]:
    chunks = [descrs[i:i + per] for i in range(0, len(descrs), per)]

    def one(chunk):
        r = subprocess.run([core.PY, "-m", "harness.c16", "--worker"], input=json.dumps(chunk), cwd=str(core.VERIF),
                           env=dict(core.IMPL_ENV, PYTHONDONTWRITEBYTECODE="1"), stdout=subprocess.PIPE,
                           stderr=subprocess.PIPE, text=True, timeout=1200)
        if r.returncode != 0:
            raise RuntimeError("C16 worker failed:\n" + r.stderr[-2000:])
        return json.loads(r.stdout)

    out: List[dict] = []
    with ThreadPoolExecutor(max_workers=nproc) as ex:
        for res in ex.map(one, chunks):
            out += res
    return out


# =========================================================================== Coq side
HEADER_SPEC = """From Coq Require Import List ZArith Bool Arith.
From Krrood Require Import Base.Sx Onto.ContainerSpec.
Import ListNotations. Open Scope nat_scope."""
HEADER_MODEL = """From Coq Require Import List ZArith Bool Arith.
From Krrood Require Import Base.Sx Onto.ContainerSpec Onto.Container.
Import ListNotations. Open Scope nat_scope."""


def nl(xs) -> str:
    return "[" + "; ".join(str(x) for x in xs) + "]"


def op_term(op) -> str:
    k, args = op[0], op[1:]
    if k in ("Assign", "AssignList"):
        return f"Assign {nl(args[0])}"
    if k == "AssignSelf":
        return "AssignSelf"
    if k == "IAug":
        return f"IAug {nl(args[0])}"
    if k == "IAugAlias":
        return f"IAugAlias {nl(args[0])}"
    if k in ("ExtendLazy", "IAugLazy"):
        return f"ExtendLazyNew {nl(args[0])}"
    if k == "Append":
        return f"Append {args[0]}"
    if k in ("Extend", "ExtendGen"):
        return f"Extend {nl(args[0])}"
    if k == "Insert":
        return f"Insert ({args[0]})%Z {args[1]}"
    if k == "SetItem":
        return f"SetItem ({args[0]})%Z {args[1]}"
    if k == "ExtendSelf":
        return "ExtendSelf"
    if k in ("SliceRev", "SliceFilter"):         # x.f[:] is x.f[0:len]: any upper bound beyond the length is clamped
        lo, hi = (0, 1000000) if args[0] is None else (args[0], args[1])
        v = "VRev" if k == "SliceRev" else f"(VFilterOut {args[2]})"
        return f"SetSliceView ({lo})%Z ({hi})%Z {v}"
    if k == "AssignRev":
        return "AssignView VRev"
    if k == "AssignIter":
        return "AssignView VIter"
    if k == "AssignChain":
        return f"AssignView (VChain {nl(args[0])})"
    if k == "AssignFilter":
        return f"AssignView (VFilterOut {args[0]})"
    if k == "SetSliceGen":
        return f"SetSliceIter ({args[0]})%Z ({args[1]})%Z {nl(args[2])}"
    if k == "SetSlice":
        return f"SetSlice ({args[0]})%Z ({args[1]})%Z {nl(args[2])}"
    if k == "Add":
        return f"Add {args[0]}"
    if k == "Update":
        return f"Update [{nl(args[0])}]"
    if k == "Update2":
        return "Update [" + "; ".join(nl(vs) for vs in args[0]) + "]"
    raise ValueError(k)


def kterm(scn) -> str:
    return "KList" if kind_of(scn) == "list" else "KSet"


def model_term(d) -> str:
    if d.get("kind") in ("container_eq", "churn", "quirk", "trans"):
        return "SZ 0%Z"
    if d.get("kind") == "clone":
        w = {"p": "WP", "q": "WQ"}
        ops = "; ".join(f"CRead {w[o[1]]}" if o[0] == "read" else f"CAppend {w[o[1]]} {o[2]}" if o[0] == "append"
                        else f"CAssign {w[o[1]]} {nl(o[2])}" for o in d["ops"])
        return f"clone_out {nl(d['init'])} [{ops}]"
    if d.get("kind") == "setitem_grown":   # element 1 brings the inferred element 2 (o1.anc = [o2]) unless it is there already
        inf = [2] if (d["x"] == 1 and 2 not in d["init"]) else []
        return f"setitem_then_infer_out ({d['i']})%Z {d['x']} {nl(inf)} {nl(d['init'])}"
    if d.get("kind") == "ctor_alias":
        return f"ctor_copy_out {nl(d['init'])} {d['x']}"
    return f"model_out {kterm(d['scn'])} [{'; '.join(op_term(o) for o in d['ops'])}] {nl(d['init'])}"


def spec_term(d) -> str:
    if d.get("kind") is not None:
        return "SZ 0%Z"
    ops = [["Assign", d["init"]]] + d["ops"]
    return f"cspec_out {kterm(d['scn'])} [{'; '.join(op_term(o) for o in ops)}] []"


# =========================================================================== generation
def gen_case(rng: core.Rng, scn: str) -> dict:
    kind = kind_of(scn)
    n0 = rng.randint(0, 3)
    init = [rng.randint(0, NELEM - 1) for _ in range(n0)]
    if kind == "set":
        init = sorted(set(init))
    ops = []
    for _ in range(rng.randint(1, 7)):
        k = rng.choice(LIST_OPS if kind == "list" else SET_OPS)
        vs = [rng.randint(0, NELEM - 1) for _ in range(rng.randint(0, 3))]
        x = rng.randint(0, NELEM - 1)
        if k in ("Assign", "AssignList", "IAug", "IAugAlias", "ExtendLazy", "IAugLazy", "Extend", "ExtendGen", "Update"):
            ops.append([k, vs])
        elif k == "ExtendSelf" and sum(1 for o in ops if o[0] == "ExtendSelf") >= 2:
            ops.append(["Append", x])          # keep the lists small: at most two doublings per history
        elif k in ("AssignSelf", "ExtendSelf", "AssignRev", "AssignIter"):
            ops.append([k])
        elif k == "SliceRev":
            ops.append([k] + rng.choice([[None, None], [rng.randint(-4, 5), rng.randint(-4, 5)]]))
        elif k == "SliceFilter":
            ops.append([k] + rng.choice([[None, None], [rng.randint(-4, 5), rng.randint(-4, 5)]]) + [x])
        elif k == "AssignChain":
            ops.append([k, vs])
        elif k == "AssignFilter":
            ops.append([k, x])
        elif k in ("Append", "Add"):
            ops.append([k, x])
        elif k in ("Insert", "SetItem"):
            ops.append([k, rng.randint(-4, 5), x])
        elif k in ("SetSlice", "SetSliceGen"):
            ops.append([k, rng.randint(-4, 5), rng.randint(-4, 5), vs])
        elif k == "Update2":
            ops.append([k, [[rng.randint(0, NELEM - 1) for _ in range(rng.randint(0, 2))] for _ in range(rng.randint(0, 3))]])
    return {"scn": scn, "init": init, "ops": ops, "default_ctor": rng.chance(0.5)}


def gen_cases(tier: str, seed: int) -> List[dict]:
    rng = core.Rng(seed * 1000003 + 16)
    n = 2000 if tier == "quick" else 20000
    scns = ["U-list", "U-set", "N-list", "N-set", "U-list", "U-set", "N-list", "N-set", "Q-items", "Q-plains", "Q-teams"]
    out = [gen_case(rng, scns[i % len(scns)]) for i in range(n)]
    # element churn: fresh elements each turn, the old ones die and their addresses are reused
    for i in range(8 if tier == "quick" else 40):
        scn = ["U-list", "U-set", "N-list"][i % 3]
        hows = ["assign", "clear_add"] + (["setitem"] if scn != "U-set" else [])
        rng.shuffle(hows)
        out.append({"kind": "churn", "scn": scn, "turns": 40, "how": hows, "salt": rng.randint(0, 2), "sweep": i % 2 == 0})
    # writes on a transitive field of the first symbol of a fresh graph, with relations already coming in and going out
    for i in range(40 if tier == "quick" else 400):
        pre = []
        for _ in range(rng.randint(1, 4)):
            s, t_ = rng.randint(1, NELEM), rng.randint(0, NELEM)
            pre.append([s, t_])
        ops = []
        for _ in range(rng.randint(1, 3)):
            k = rng.choice(["append", "extend", "insert", "iadd"])
            xs = [rng.randint(0, NELEM) for _ in range(rng.randint(1, 2))]
            ops.append([k, xs[0]] if k == "append" else [k, rng.randint(0, 3), xs[0]] if k == "insert" else [k, xs])
        out.append({"kind": "trans", "pre": pre, "ops": ops})
    # writes through a shallow copy of the owner (shared container)
    for i in range(60 if tier == "quick" else 600):
        ops = []
        for _ in range(rng.randint(1, 4)):
            k = rng.choice(["read", "append", "append", "assign"])
            w = rng.choice(["p", "q"])
            ops.append([k, w] if k == "read" else [k, w, rng.randint(0, NELEM - 1)] if k == "append"
                       else [k, w, [rng.randint(0, NELEM - 1) for _ in range(rng.randint(0, 2))]])
        out.append({"kind": "clone", "scn": ["U-list", "N-list"][i % 2], "init": [rng.randint(0, NELEM - 1) for _ in range(rng.randint(0, 2))], "ops": ops})
    return out


def corpus_cases():
    d = core.VERIF / "corpus" / PROP
    return [(p.name, json.loads(p.read_text())) for p in sorted(d.glob("*.json"))]


# =========================================================================== deciding
def canon_trace(tr, kind):
    return [[sorted(c) if kind == "set" else list(c), e] for c, e in tr]


def inference_terms(descrs, impls):
    """C15 Spec terms: closure of the recorded facts of each case"""
    out = []
    for d, im in zip(descrs, impls):
        scn = d["scn"]
        f = field_id(scn)
        cd = {"fam": SCN[scn][0], "pop": population(scn), "ops": [["x", NELEM, f, im["recorded"]]]}
        out.append(c15.spec_term(cd))
    return out


def run(tier: str, seed: int, replay=None) -> int:
    rep = core.Report(PROP, tier, seed, "proof")
    rep.trusted = core.COQ_TRUSTED + [
        "hand-written model Onto/Container.v of PropertyDescriptor.__set__/__get__ and MonitoredList/MonitoredSet, tied by differential execution after every operation on every run",
        "harness/c16.py (+ the schema extraction of harness/c15.py): case builders through the public API including the genuine `o.f += v` / `o.f |= v` statements, canonicaliser",
        "CPython list/set builtins (list.__iadd__, set.__ior__, list.insert, list.__setitem__) as described by Onto/ContainerSpec.v",
    ]
    rep.trusted.append("source pins pins/onto.json (pin set pins/sets/onto.json): the normalised source of the 64 methods the hand models Onto/Closure.v and Onto/Container.v mirror is compared on every run; an edit reopens the correspondence obligation")
    rep.assume = [
        "the field is written by its owner with fresh arguments (lists, sets, generators) or with itself for assignment / += / |=; "
        "the generated histories write fields whose inferences go to OTHER fields (inverse, super-property); item assignment on a transitive field (inference writes back into the written list; C16-i, fixed) is replayed from its witnesses against the model setitem_then_infer",
        "reading a managed field with == is not modelled; K_container_eq (C16-h) is replayed from its witness",
        "a shallow copy of the owner shares the container (as plain Python does): writes through either owner's field must be recorded for that owner; plain assignment through the clone (C16-j, fixed e598545) is replayed as a regression witness and generated; the small model cstep is compared exactly",
        "elements of SET-valued fields are pairwise different under == (Python's own set semantics go by ==, the symbol graph by identity); twins are generated for list fields only",
        "item assignment with an integer index or a step-1 slice whose value is a list or a generator",
        "remove / pop / clear / del are not in the property's list of writes (the graph never retracts)",
    ]
    rep.rule = ("random histories of 1-7 operations (assignment of a fresh list/set, self-assignment, += / |=, append, extend with a list, a generator or the field itself, "
                "insert, item assignment and slice assignment (list or generator value) with indices in -4..5, add, update with 1 or 0-3 iterables) from random initial contents given to the constructor, "
                "on Person.member_of, Company.members, Node.a, Node.b and on fields of classes with user protocols (an owner that is falsy while empty and iterable, falsy elements, elements of an eq=True dataclass without hash, elements that define __iter__ / __len__); += / |= also through another reference to the container; extend / += also with a lazy iterable that reads the field (`v for v in cands if v not in x.f`); assignment of LAZY views over the field itself (reversed, iter, chain, filtering generator); transitive families (writes on Org.part_of (transitive, no inverse) of the first symbol of a fresh graph that already has incoming and outgoing relations; graph = C15 closure of all facts); churn families (40 turns of fresh elements whose predecessors die, so addresses are reused; in half of them the dead nodes are swept each turn, so node indices are reused too) and clone families (writes through a copy.copy of the owner); elements drawn with repetition from 4 objects (in the Node.a scenario objects 2 and 3 are distinct Twin objects that compare and hash equal; recording is checked per object identity); "
                "non-trivial = at least one operation changes the contents; distinct = distinct (scenario, initial contents, history)")
    ok_spec, log = core.coq_make(["Base/Sx.vo", "Onto/ContainerSpec.vo", "Onto/ClosureSpec.vo"])
    rep.oblige("build:spec", ok_spec, "" if ok_spec else core.first_error(log))
    model_ok = core.standard_proof_steps(rep, PROP, ["Props/C16.vo"])
    from translator import pins
    pins.oblige(rep, str(core.REPO), "onto", "the hand model Onto/Container.v (__set__/__get__/_ensure_monitored_type, MonitoredList / MonitoredSet, make_list / make_set)")
    if not ok_spec:
        return rep.finish()

    findings = core.load_findings(PROP)
    corpus = corpus_cases()
    if replay:
        descrs = [replay["case"]]
        strip = lambda c: {k: v for k, v in c.items() if k not in ("comment", "group")}
        corpus = [(n, c) for n, c in corpus if strip(c) == strip(replay["case"])][:1]   # a replayed witness keeps its finding
        if not corpus:
            corpus = []
    else:
        descrs = [c for _, c in corpus] + gen_cases(tier, seed)
    impls = run_workers(descrs)
    try:
        specs = core.coq_values(PROP, HEADER_SPEC, [spec_term(d) for d in descrs], chunk=400, tag="spec")
        plain = [i for i, d in enumerate(descrs) if d.get("kind") is None]
        trans_i = [i for i, d in enumerate(descrs) if d.get("kind") == "trans"]
        trans_terms = []
        for i in trans_i:
            _, facts_ = trans_facts(descrs[i])
            cd = {"fam": "O", "pop": [[0, None]] * (NELEM + 1), "ops": [["x", s, f, [t_]] for s, f, t_ in facts_]}
            trans_terms.append(c15.spec_term(cd))
        trans_closure = dict(zip(trans_i, core.coq_values(PROP, c15.header(False), trans_terms, chunk=400, tag="trans"))) if trans_i else {}
        closures = core.coq_values(PROP, c15.header(False), inference_terms([descrs[i] for i in plain], [impls[i] for i in plain]),
                                   chunk=400, tag="infer")
        closure_of = dict(zip(plain, closures))
    except core.CoqEvalError as e:
        rep.oblige("spec:evaluate", False, str(e)[:600])
        return rep.finish()
    models: List[Any] = [None] * len(descrs)
    if model_ok:
        try:
            models = core.coq_values(PROP, HEADER_MODEL, [model_term(d) for d in descrs], chunk=400, tag="model")
        except core.CoqEvalError as e:
            rep.oblige("model:evaluate", False, str(e)[:600])
            model_ok = False
    else:
        rep.note("model not available; comparing the implementation with the Spec only (search for a failing input)")

    open_names = {f.witness.split("/")[-1]: f for f in findings if f.kind == "open"}
    fixed_names = {f.witness.split("/")[-1]: f for f in findings if f.kind == "fixed"}
    dist = {"scenario": {}, "op": {}, "len": {}, "indexerror": 0}
    nviol, mism = 0, 0
    kf_instances: Dict[str, int] = {}
    for i, (d, im, sp, mo) in enumerate(zip(descrs, impls, specs, models)):
        cname = corpus[i][0] if i < len(corpus) else None
        scn = d.get("scn", "N-list")
        kind = kind_of(scn)
        problems: List[str] = []
        model_agrees = None
        if d.get("kind") == "quirk":
            rep.count(json.dumps(d), True)
            unrec = sorted(set(im["field"]) - set(im["recorded"]))
            if d["which"] == "extend_lazy" and im["field"] != ["a"]:
                problems.append(f"xs.extend(v for v in [a, a] if v not in xs) leaves {im['field']}; a plain list consumes the generator item by item: ['a']")
            if im["exc"]:
                problems.append(f"the write raises {im['exc']}")
            if unrec or set(im["recorded"]) - set(im["field"]):
                problems.append(f"field {im['field']} but recorded {im['recorded']}: every element of the field (and only those) must have its relation")
            model_agrees = (d.get("expect") == [im["field"], im["recorded"], im["exc"]])       # the recorded defect behaviour, exactly
        elif d.get("kind") == "trans":
            rep.count(json.dumps(d), True)
            cl = trans_closure[i]
            f_anc, facts_ = trans_facts(d)
            if im["exc"]:
                problems.append(f"exception {im['exc']}")
            if cl == -1 or sorted(set(map(tuple, cl))) != sorted(map(tuple, im["E"])):
                problems.append("writes on a transitive field: graph relations differ from the closure (C15 Spec) of the asserted facts")
            elif not set(im["field"]) <= {t_ for s, f, t_ in map(tuple, cl) if s == 0 and f == f_anc}:
                problems.append("the field holds an element without a relation")
            model_agrees = False
        elif d.get("kind") == "churn":
            rep.count(json.dumps(d), True)
            dist["churn_ids_reused"] = dist.get("churn_ids_reused", 0) + im["ids_reused"]
            if any(im["unrecorded"]) or any(im["no_inverse"]):
                problems.append(f"fresh elements written into the field without their relation / inverse (per turn: unrecorded {im['unrecorded']}, "
                                f"no inverse {im['no_inverse']}); {im['ids_reused']} of the fresh elements reused the address of a dead one")
            model_agrees = False           # C16_writes: every element of the field is recorded, whatever its address
        elif d.get("kind") == "clone":
            rep.count(json.dumps(d), True)
            need = clone_expect(d)
            miss = {w: sorted(need[w] - set(im["rec_" + w])) for w in ("p", "q")}
            if miss["p"] or miss["q"]:
                problems.append(f"elements written through an owner's field but not recorded for that owner: {miss} (recorded: p {im['rec_p']}, q {im['rec_q']})")
            if model_ok:
                model_agrees = (mo[0] == im["items"] and sorted(set(mo[1])) == im["rec_p"] and sorted(set(mo[2])) == im["rec_q"])
                if not problems and not model_agrees:
                    mism += 1
                    rep.oblige("correspondence:model", False, f"clone model differs from the implementation on {json.dumps(d)}: model {mo} impl {im}")
        elif d.get("kind") == "container_eq":
            rep.count(json.dumps(d), True)
            if im["obs"] != im["python"]:
                problems.append(f"[p.f == q.f, p.f != q.f, p.f == plain list of p's elements, p.f == plain list of q's elements] = {im['obs']}, "
                                f"plain Python lists give {im['python']}")
            # the dataclass-generated __eq__ of a field-less class: always True; != is list.__ne__
            model_agrees = im["obs"] == [1] + im["python"][1:]      # only managed-vs-managed of one class goes through it
        elif d.get("kind") == "setitem_grown":
            rep.count(json.dumps(d), True)
            want = list(d["init"])
            k = d["i"] if d["i"] >= 0 else d["i"] + len(want)
            if 0 <= k < len(want):
                want[k] = d["x"]
            inf = [2] if (d["x"] == 1 and 2 not in d["init"]) else []      # o1.anc = [o2]: storing o1 infers o2 into the same field
            expected = want + [e for e in inf if e not in want]
            if im["field"] != expected:
                problems.append(f"owner.anc[{d['i']}] = o{d['x']} on {d['init']}: field {im['field']}; Python stores at that position and inference "
                                f"adds the inferred elements: {expected}")
            if model_ok:
                model_agrees = (mo == im["field"])
        elif d.get("kind") == "ctor_alias":
            rep.count(json.dumps(d), True)
            # q = C(f = p.f); q.f.append(x): every element of either field must be recorded for its owner, p keeps its contents,
            # q holds p's contents plus x
            if set(im["p"]) - set(im["rec_p"]):
                problems.append(f"elements {sorted(set(im['p']) - set(im['rec_p']))} are in p's field but were never recorded for p")
            if set(im["q"]) - set(im["rec_q"]):
                problems.append(f"elements {sorted(set(im['q']) - set(im['rec_q']))} are in q's field but were never recorded for q")
            if im["p"] != d["init"] or im["q"] != d["init"] + [d["x"]]:
                problems.append(f"contents: p {im['p']} q {im['q']}, expected p {d['init']} q {d['init'] + [d['x']]}")
            if model_ok:
                model_agrees = (mo[0] == im["p"] and sorted(set(mo[1])) == im["rec_p"]
                                and mo[2] == im["q"] and sorted(set(mo[3])) == im["rec_q"])
                if not problems and not model_agrees:
                    mism += 1
                    rep.oblige("correspondence:model", False, f"constructor-copy model differs from the implementation on {json.dumps(d)}: model {mo} impl {im}")
        else:
            spec_tr = canon_trace([[c, e] for c, e in sp][1:], kind)
            impl_tr = canon_trace(im["trace"], kind)
            changed = any(a[0] != b[0] for a, b in zip([sp[0]] + sp[1:], sp[1:]))
            rep.count(json.dumps([scn, d["init"], d["ops"]]), changed)
            dist["scenario"][scn] = dist["scenario"].get(scn, 0) + 1
            dist["len"][len(d["ops"])] = dist["len"].get(len(d["ops"]), 0) + 1
            for op in d["ops"]:
                dist["op"][op[0]] = dist["op"].get(op[0], 0) + 1
            dist["indexerror"] += sum(1 for _, e in spec_tr if e == 1)
            if any(e == 7 for _, e in impl_tr):
                problems.append("a write operation did not terminate (stopped by the harness guard)")
            if impl_tr != spec_tr:
                problems.append("field contents / IndexError after some operation differ from plain Python semantics")
            if any(im["unrecorded"]):
                problems.append(f"elements in the field that are not recorded in the graph (per step): {im['unrecorded']}")
            cl = closure_of[i]
            if cl == -1 or sorted(set(map(tuple, cl))) != sorted(map(tuple, im["E"])):
                problems.append("graph relations differ from the closure (C15 Spec) of the recorded facts: inferences missing, extra or duplicated")
            if model_ok:
                mtr = canon_trace([[c, e] for c, e in mo[0]], kind)
                model_agrees = (mtr == impl_tr and sorted(set(mo[1])) == im["recorded"])
                if not problems and not model_agrees:
                    mism += 1
                    rep.oblige("correspondence:model", False, f"model differs from the implementation (which meets the Spec) on {json.dumps(d)}: model {mo} impl {im}")
        if not problems:
            if cname in open_names:
                rep.note(f"known finding {open_names[cname].fid}: witness no longer fails")
            continue
        if cname in open_names and model_agrees:
            rep.known(open_names[cname])
            continue
        if (model_agrees and d.get("kind") == "clone" and in_clone_assign_class(d)
                and any(f.cls == "K_clone_assign" for f in findings if f.kind == "open")):
            kf_instances["K_clone_assign"] = kf_instances.get("K_clone_assign", 0) + 1     # instance of C16-j, exactly as the model predicts
            continue
        if (model_agrees and d.get("kind") is None and in_slice_twins_class(d)
                and any(f.cls == "K_slice_twins" for f in findings if f.kind == "open")):
            kf_instances["K_slice_twins"] = kf_instances.get("K_slice_twins", 0) + 1   # an instance of C16-g, as the model predicts
            continue
        v = {"kind": "counterexample", "case": d, "impl": im, "spec": sp, "model": mo, "problems": problems, "python": snippet(d),
             "explanation": "elements are numbered 0..3, the owner is object 4; trace = [contents after the operation, 1 if IndexError]; "
                            "spec trace starts with the contents given to the constructor"}
        if cname in fixed_names:
            v["regression_of"] = fixed_names[cname].fid
        nviol += 1
        if nviol <= 5:
            rep.violation(v)
    rep.samples = [{"case": d, "impl": im} for d, im in list(zip(descrs, impls))[:: max(1, len(descrs) // 6)]][:6]
    rep.extra["distribution"] = dist
    rep.extra["model_mismatches"] = mism
    rep.extra["known_finding_instances"] = kf_instances
    return rep.finish()


_register_family_q()


def _worker():
    cases = json.loads(sys.stdin.read())
    runners = {"quirk": run_quirk, "trans": run_trans, "churn": run_churn, "clone": run_clone, "ctor_alias": run_ctor_alias, "container_eq": run_container_eq, "setitem_grown": run_setitem_grown}
    out = [runners.get(c.get("kind"), run_impl)(c) for c in cases]
    sys.stdout.write(json.dumps(out))


if __name__ == "__main__":
    if "--worker" in sys.argv:
        _worker()
