"""Entry point:  ./check <ID> [--tier quick|thorough] [--replay <file>]"""
from __future__ import annotations

import argparse
import hashlib
import importlib
import json
import os
import sys
import time
import traceback


def main() -> int:
    ap = argparse.ArgumentParser()
    ap.add_argument("prop")
    ap.add_argument("--tier", default=os.environ.get("VERIF_TIER", "quick"), choices=["quick", "thorough"])
    ap.add_argument("--replay", default=None)
    ap.add_argument("--seed", type=int, default=int(os.environ.get("VERIF_SEED", "0") or 0))
    a = ap.parse_args()
    t0 = time.time()
    try:
        mod = importlib.import_module(f"harness.{a.prop.lower()}")
        replay = json.load(open(a.replay)) if a.replay else None
        return mod.run(a.tier, a.seed, replay=replay)
    except Exception:  # noqa
        # The machinery itself could not finish (typically: the implementation under test raised somewhere the
        # harness does not expect).  The correspondence is then not checked, so the property is no longer shown to
        # hold: report it as a broken obligation, with the traceback as the replay.
        from . import core
        tb = traceback.format_exc()
        d = core.REPLAYS / a.prop
        d.mkdir(parents=True, exist_ok=True)
        blob = json.dumps({"property": a.prop, "kind": "broken-obligation", "tier": a.tier, "seed": a.seed,
                           "obligations": ["correspondence: the check could not be completed (exception below)"],
                           "traceback": tb,
                           "explanation": "the harness or the implementation raised outside the compared outcomes; the "
                                          "correspondence between model and implementation could not be established on this tree"},
                          indent=1)
        p = d / (hashlib.sha1(blob.encode()).hexdigest()[:12] + ".json")
        p.write_text(blob)
        print(tb[-1500:], file=sys.stderr)
        print(f"VIOLATION property={a.prop} replay={p} no-failing-input-found", flush=True)
        ev = {"property_id": a.prop, "tier": a.tier, "seed": a.seed, "level": "other",
              "coverage": {"explanation": "check aborted by an exception; see the replay file", "evaluations": 1, "distinct_nontrivial": 2,
                           "samples": [tb[-400:]]},
              "assumptions": [], "wall_s": round(time.time() - t0, 2), "violations": 1}
        core.EVIDENCE.mkdir(exist_ok=True)
        (core.EVIDENCE / f"{a.prop}.json").write_text(json.dumps(ev, indent=1))
        return 1


if __name__ == "__main__":
    sys.exit(main())
