"""Entry point:  ./check <ID> [--tier quick|thorough] [--replay <file>]"""
from __future__ import annotations

import argparse
import importlib
import json
import os
import sys


def main() -> int:
    ap = argparse.ArgumentParser()
    ap.add_argument("prop")
    ap.add_argument("--tier", default=os.environ.get("VERIF_TIER", "quick"), choices=["quick", "thorough"])
    ap.add_argument("--replay", default=None)
    ap.add_argument("--seed", type=int, default=int(os.environ.get("VERIF_SEED", "0") or 0))
    a = ap.parse_args()
    mod = importlib.import_module(f"harness.{a.prop.lower()}")
    replay = json.load(open(a.replay)) if a.replay else None
    return mod.run(a.tier, a.seed, replay=replay)


if __name__ == "__main__":
    sys.exit(main())
