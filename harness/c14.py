"""C14 -- asserting a relation has the same effect whatever objects lived and died before.

Model and driver are shared with C13 (harness/c13.py, coq/Onto/Registry*.v).  Two ties:
 (a) model-tied histories: a garbage-producing prefix (create / relate / drop / sweep, so that node indices and addresses
     are reused) followed by relation assertions through PredicateClassRelation(...).add_to_graph(); implementation, model
     and ideal machine compared step by step (new/known flag, relations between existing instances, container sizes);
 (b) metamorphic, through the descriptor path (Person.works_for = company, monitored containers, inverse / super /
     transitive inference): the same assertion sequence on a fresh graph and after a garbage prefix must give the same
     field values and the same graph relations."""
from __future__ import annotations

import json
from typing import List

from . import c13, core
from .core import Report

PROP = "C14"


def gen_prefixed(rng: core.Rng, tier: str) -> List[list]:
    """garbage prefix, then assertions between the survivors and fresh instances"""
    h: List[list] = []
    user: List[int] = []
    nnew = 0
    rounds = rng.randint(1, 3 if tier == "quick" else 6)
    for _ in range(rounds):
        batch = []
        for _ in range(rng.randint(1, 4)):
            h.append(["New", rng.choice([0, 1, 3, 6, 7])])
            batch.append(nnew)
            user.append(nnew)
            nnew += 1
        for _ in range(rng.randint(0, 4)):
            h.append(["Relate", rng.choice(user), rng.next() % 2, rng.choice(user)])
        rng.shuffle(batch)
        for o in batch[: rng.randint(1, len(batch))]:
            h.append(["Drop", o])
            user.remove(o)
        if rng.chance(0.7):
            h.append(["Sweep"])
        if rng.chance(0.08):
            h.append(["Clear"])
    for _ in range(rng.randint(1, 3)):
        h.append(["New", rng.choice([0, 2, 5])])
        user.append(nnew)
        nnew += 1
    for _ in range(rng.randint(2, 7)):
        h.append(["Relate", rng.choice(user), rng.next() % 2, rng.choice(user)])
        if rng.chance(0.15):
            h.append(["QueryG", 0])
    return h


def gen_meta(rng: core.Rng, tier: str) -> dict:
    np_, nc_ = rng.randint(1, 3), rng.randint(1, 3)
    acts = []
    for _ in range(rng.randint(1, 6)):
        acts.append([rng.choice(["works_for", "works_for", "member_of", "members", "sub"]), rng.next() % np_, rng.next() % nc_])
    prefix = [[rng.randint(1, 5), rng.chance(0.6), rng.chance(0.2)] for _ in range(rng.randint(1, 4 if tier == "quick" else 8))]
    # dead companies that were sub-organisations of the assertion companies, collected (swept or not) at some point of the
    # assertion sequence: before it, or between two assertions (then live sources related earlier share the node)
    dead = [[rng.next() % nc_, rng.chance(0.4), rng.randint(0, len(acts))] for _ in range(rng.randint(0, 2))] if rng.chance(0.6) else []
    if rng.chance(0.35):
        # the family of seeded C14-J: two sources into one node, the later one dead and unswept, then the node gets a parent
        nc_ = 3
        acts = [["sub", 0, 1], ["sub", 1, 2]] + acts[:2]
        dead = [[1, False, 1]] + dead[:1]
    # a company of the assertions still has a graph edge TO a collected, unswept company (created before the assertions)
    dead_t = [[rng.next() % nc_, rng.choice(["reassign", "direct"])] for _ in range(rng.randint(1, 2))] if rng.chance(0.3) else []
    return {"np": np_, "nc": nc_, "acts": acts, "prefix": prefix, "dead_sources": dead, "dead_targets": dead_t}


def dead_target_class(m) -> bool:
    """K_dead_target: a company cs[j] has an edge to a collected, unswept company and an assertion makes something a
    sub-organisation of cs[j]: the transitive inference outgoing from the new source walks to the dead target."""
    js = {j % m["nc"] for j, _ in m.get("dead_targets", ())}
    return any(kind == "sub" and j in js for kind, i, j in m["acts"])


def dead_target_match(m, r) -> bool:
    """narrow: same log; the 'after' run equals the fresh run except for additional dead entries (-2) in sub_organization_of
    lists (None appended by the inference that followed the edge to the dead node)"""
    if "fatal" in r or r["fresh"]["log"] != r["after"]["log"] or r["fresh"]["rels"] != r["after"]["rels"]:
        return False
    np_ = m["np"]
    ok = False
    for k, (f, a) in enumerate(zip(r["fresh"]["fields"], r["after"]["fields"])):
        if f == a:
            continue
        if k < np_:
            return False
        if f[0] != a[0] or sorted(x for x in a[1] if x != -2) != f[1] or -2 not in a[1]:
            return False
        ok = True
    return ok


def dead_source_class(m) -> bool:
    """K_dead_source: a company that was a sub-organisation of cs[j] is dead but NOT yet swept when cs[j] itself is asserted to be
    a sub-organisation of something: the transitive inference walks to the dead source."""
    unswept = {j % m["nc"] for j, sweep in m.get("dead_sources", ()) if not sweep}
    # a sweep for a later dead source also removes the earlier ones
    swept_after = set()
    ds = list(m.get("dead_sources", ()))
    for k, (j, sweep) in enumerate(ds):
        if any(sw for _, sw in ds[k + 1:]):
            swept_after.add(k)
    unswept = {j % m["nc"] for k, (j, sweep) in enumerate(ds) if not sweep and k not in swept_after}
    return any(kind == "sub" and (i % m["nc"]) in unswept for kind, i, j in m["acts"])


def dead_source_match(m, r) -> bool:
    """narrow: the fresh run is clean, and in the 'after' run every exception is the AttributeError of an assertion
    `cs[i].sub_organization_of.append(...)` whose source has an unswept dead sub-organisation"""
    if "fatal" in r or r["fresh"]["log"]:
        return False
    log = r["after"]["log"]
    return bool(log) and all(e[1] == "AttributeError" and e[2] == "sub" for e in log)


def meta_snippet(p) -> str:
    return ("import json; from harness import c13\n"
            f"print(json.dumps(c13.run_meta({p!r}), indent=1))   # run with ./check's PYTHONPATH")


def run(tier: str, seed: int, replay=None) -> int:
    rep = Report(PROP, tier, seed, "proof")
    rep.trusted = core.COQ_TRUSTED + c13.TRUSTED + [
        "descriptor path (PropertyDescriptor.__set__, monitored containers, inference) is compared metamorphically "
        "(fresh graph vs after a garbage prefix) on the implementation only; its inference closure is C15's model"]
    rep.assume = c13.ASSUME
    rep.rule = ("corpus + seeded histories 'garbage prefix (1-3 rounds quick / 1-6 thorough of New, Relate, Drop, Sweep, rarely Clear) then "
                "2-7 assertions' + the exhaustive length-4 histories of C13 + metamorphic descriptor cases (1-3 persons, 1-3 companies, "
                "1-6 assignments, 1-4 garbage rounds of 1-5 related pairs, in half of the cases 0-2 dead companies that were sub-organisations of "
                "the companies of the assertions, swept or not) + 16 clone scenarios (copy.copy of a Person / Company sharing its managed "
                "containers, template collected or alive, swept or not, then an assertion through the clone); non-trivial = >= 4 ops of >= 3 kinds (histories), every meta case")
    ok_spec, log = core.coq_make(["Base/Sx.vo", "Onto/RegistrySpec.vo", "Onto/RegistrySpecRun.vo"])
    rep.oblige("build:spec", ok_spec, "" if ok_spec else core.first_error(log))
    model_ok = c13.proof_steps(rep, PROP)
    rng = core.Rng(seed)
    n = 1 if tier == "quick" else 12
    if replay and replay.get("clone") is not None:
        hists, metas = [], []
    elif replay and replay.get("meta") is not None:
        hists, metas = [], [replay["meta"]]
    elif replay and replay.get("case") is not None:
        hists, metas = [replay["case"]], []
    else:
        r1, r2 = rng.fork(1), rng.fork(2)
        hists = c13.corpus_cases(PROP) + c13.exhaustive(4 if tier == "quick" else 5) + [gen_prefixed(r1, tier) for _ in range(1200 * n)]
        metas = [gen_meta(r2, tier) for _ in range(250 * n)]
    if not model_ok:
        rep.note("model not available; comparing the implementation with the Spec only (search for a failing input)")
    # K_clear: relations are reset by clear() in Spec and model alike, but queries in those histories fall under C13-d;
    # the shared exhaustive histories also contain Declare / Eval 
    results, codes, hd, inst = c13.decide(rep, PROP, hists, model_ok, "relate", {"K_clear": "C13-d"})
    rep.extra["distribution"] = c13.distribution(hists)
    rep.extra["reuse"] = c13.reuse_stats(hists, results)
    rep.extra["known_finding_instances"] = inst
    rep.extra["codes"] = {str(c): list(codes.values()).count(c) for c in (0, 1, 2, 3)}
    nrel = sum(1 for h in hists for o in h if o[0] == "Relate")
    rep.extra["assertions_checked"] = nrel
    # (b) metamorphic descriptor path
    _, mres = c13.run_jobs([("meta", m) for m in metas], chunk=60)
    nbad = 0
    diff_fields = 0
    for m, r in zip(metas, mres):
        rep.count("meta:" + json.dumps(m), True)
        if "fatal" in r or r["fresh"] != r["after"]:
            nbad += 1
            if nbad <= 3:
                rep.violation({"kind": "counterexample", "meta": m, "impl": r, "python": meta_snippet(m),
                               "explanation": "the same assignments through descriptor-managed fields give different field values / "
                                              "graph relations on a fresh graph ('fresh') and after a garbage prefix ('after')"})
        elif r["fresh"]["rels"]:
            diff_fields += 1
    rep.extra["meta"] = {"cases": len(metas), "with_relations": diff_fields}
    # (c) clones: copy.copy of a Symbol shares its managed containers; the template dies (or not) before the clone asserts
    if replay and replay.get("clone") is not None:
        clones = [replay["clone"]]
    elif replay:
        clones = []
    else:
        clones = [{"rounds": 2, "side": sd, "before": b, "drop_template": d, "sweep": sw}
                  for sd in ("person", "company") for b in (0, 2) for d in (True, False) for sw in (False, True)]
    c13.scenario_jobs(rep, "clone", clones, "a relation asserted through the managed field of a copy.copy clone (the template dropped and "
                      "collected, or still alive) is not recorded for the clone / its inverse is missing: the template's (dead) owner "
                      "reference in the shared container suppresses or redirects it")
    rep.samples = [{"case": h} for h in hists[-3:]] + [{"meta": m} for m in metas[:2]]
    if not (replay and (replay.get("case") is not None or replay.get("meta") is not None or replay.get("clone") is not None)):
        c13.replay_findings(rep, PROP, model_ok, {})
        # findings whose witness is a metamorphic case
        mf = [f for f in core.load_findings(PROP) if "meta" in json.loads((core.VERIF / f.witness).read_text())]
        mw = [json.loads((core.VERIF / f.witness).read_text())["meta"] for f in mf]
        _, mr = c13.run_jobs([("meta", m) for m in mw]) if mw else (None, [])
        for f, m, r in zip(mf, mw, mr):
            rep.count("kf:" + f.fid, True)
            same = "fatal" not in r and r["fresh"] == r["after"]
            if f.kind == "open" and not same and dead_target_class(m) and dead_target_match(m, r):
                rep.known(f)
            elif f.kind == "open" and same:
                rep.note(f"finding {f.fid}: witness no longer fails (appears repaired)")
            elif f.kind == "fixed" and same:
                pass
            else:
                rep.violation({"kind": "counterexample", "meta": m, "impl": r, "finding": f.fid, "python": meta_snippet(m),
                               "explanation": "witness of a listed finding behaves differently from what is listed"})
    return rep.finish()
