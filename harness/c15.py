"""C15 -- property-descriptor inference reaches the full closure in any assertion order.

Proof: coq/Onto/ClosureSpec.v (Spec: least fixpoint of super / inverse / transitive), Onto/Closure.v (model of
PropertyDescriptorRelation.add_to_graph and the write paths reaching it), Onto/ClosureProofs.v, Props/C15.v.
Tie (H): assertion histories are executed on the real classes through the public API (append / add / insert /
extend / update / += / |= / assignment / scalar assignment) and, with the schema extracted from the Python classes
as data, by the model (vm_compute) and the Spec; graph relations and field contents are compared.

Worker mode:  python -m harness.c15 --worker   (JSON cases on stdin, JSON outcomes on stdout)."""
from __future__ import annotations

import gc
import itertools
import json
import subprocess
import sys
import typing
from concurrent.futures import ThreadPoolExecutor
from dataclasses import dataclass, field, fields as dc_fields
from typing import Any, Dict, List, Optional, Tuple

from typing_extensions import List as TList, Set as TSet

from krrood.class_diagrams.utils import Role
from krrood.entity_query_language.predicate import Symbol
from krrood.entity_query_language.symbol_graph import SymbolGraph
from krrood.ontomatic.property_descriptor.mixins import HasInverseProperty, TransitiveProperty
from krrood.ontomatic.property_descriptor.property_descriptor import PropertyDescriptor

from . import core

PROP = "C15"


# =========================================================================== harness-defined schemas
# family N: a diamond of sub-properties (Rel <- RelA, RelB <- RelAB), a transitive inverse pair (Anc / Desc) with a
# sub-property below it (Parent), an inverse pair between a Node field and a Role field (LedBy / Leads: inferred relations whose
# source is a role),
# sub-property below it (Parent, single-valued), and a role (Boss of a Node) whose fields are sub-properties of
# fields of the role taker.
class HangGuard(Exception):
    """raised by Node.__hash__ when a write keeps recording elements beyond the armed limit (used by C16 only)"""


HASH_GUARD = {"limit": None, "count": 0}


@dataclass(eq=False)
class Node(Symbol):
    name: str
    top: TList[Node] = field(default_factory=list)
    a: TList[Node] = field(default_factory=list)
    b: TSet[Node] = field(default_factory=set)
    ab: TList[Node] = field(default_factory=list)
    anc: TList[Node] = field(default_factory=list)
    desc: TSet[Node] = field(default_factory=set)
    parent: Node = None
    led_by: TSet[Boss] = field(default_factory=set)

    def __hash__(self):
        if HASH_GUARD["limit"] is not None:
            HASH_GUARD["count"] += 1
            if HASH_GUARD["count"] > HASH_GUARD["limit"]:
                raise HangGuard()
        return id(self) >> 4


@dataclass(eq=False)
class Twin(Symbol):
    """an element class with VALUE equality that does not change under mutation: two Twin objects with the same key are
    distinct symbols (the symbol graph goes by identity) that compare and hash equal (used by C16)"""
    name: str
    key: int = 0

    def __eq__(self, other):
        return isinstance(other, Twin) and other.key == self.key

    def __hash__(self):
        return hash(("Twin", self.key))


@dataclass(eq=False)
class Boss(Role[Node], Symbol):
    node: Node
    leads: Node = None
    heads: TList[Node] = field(default_factory=list)
    juniors: TSet[Node] = field(default_factory=set)      # the role declares Desc on its own field AND its role taker (Node.desc) does

    def __eq__(self, other):
        return self is other

    def __hash__(self):
        return id(self)


@dataclass
class Rel(PropertyDescriptor): ...


@dataclass
class RelA(Rel): ...


@dataclass
class RelB(Rel): ...


@dataclass
class RelAB(RelA, RelB): ...


@dataclass
class Anc(PropertyDescriptor, TransitiveProperty, HasInverseProperty):
    @classmethod
    def get_inverse(cls):
        return Desc


@dataclass
class Desc(PropertyDescriptor, TransitiveProperty, HasInverseProperty):
    @classmethod
    def get_inverse(cls):
        return Anc


@dataclass
class Parent(Anc): ...


@dataclass
class LedBy(PropertyDescriptor, HasInverseProperty):
    @classmethod
    def get_inverse(cls):
        return Leads


@dataclass
class Leads(RelAB, HasInverseProperty):
    @classmethod
    def get_inverse(cls):
        return LedBy


@dataclass
class Heads(Parent): ...


Node.top = Rel(Node, "top")
Node.a = RelA(Node, "a")
Node.b = RelB(Node, "b")
Node.ab = RelAB(Node, "ab")
Node.anc = Anc(Node, "anc")
Node.desc = Desc(Node, "desc")
Node.parent = Parent(Node, "parent")
Node.led_by = LedBy(Node, "led_by")
Boss.leads = Leads(Boss, "leads")
Boss.heads = Heads(Boss, "heads")
Boss.juniors = Desc(Boss, "juniors")


# family O: one transitive descriptor class attached to fields of two domain classes (C15-a), plus a symmetric
# (self-inverse) relation
@dataclass(eq=False)
class Org(Symbol):
    name: str
    part_of: TList[Org] = field(default_factory=list)
    partner: TSet[Org] = field(default_factory=set)
    ally: TSet[Org] = field(default_factory=set)


@dataclass(eq=False)
class Dept(Symbol):
    name: str
    belongs_to: TList[Org] = field(default_factory=list)


@dataclass
class PartOf(PropertyDescriptor, TransitiveProperty): ...


@dataclass
class Partner(PropertyDescriptor, HasInverseProperty):
    @classmethod
    def get_inverse(cls):
        return Partner


@dataclass
class Ally(PropertyDescriptor, TransitiveProperty, HasInverseProperty):
    """symmetric (its own inverse) and transitive: asserting one fact changes the sets of many objects"""
    @classmethod
    def get_inverse(cls):
        return Ally


Org.part_of = PartOf(Org, "part_of")
Org.ally = Ally(Org, "ally")
Dept.belongs_to = PartOf(Dept, "belongs_to")
Org.partner = Partner(Org, "partner")


# family K: a chain of sub-properties four deep (KAff <- KEmp <- KLead <- KChairs) where some domain classes skip levels:
# KEmployee has a field for every level, KConsultant only for the two ends (no KEmp field), and the role KChair of a
# KConsultant declares the bottom level only, so its super-properties live in a role taker that skips the middle level.
# "A sub-property implies its super-properties" is stated on the descriptor-class order (strict superclass at ANY distance),
# not on chains of fields that happen to exist in one class.
@dataclass(eq=False)
class KOrg(Symbol):
    name: str


@dataclass(eq=False)
class KEmployee(Symbol):
    name: str
    leads: KOrg = None
    employed_by: TList[KOrg] = field(default_factory=list)
    affiliated_with: TSet[KOrg] = field(default_factory=set)


@dataclass(eq=False)
class KConsultant(Symbol):
    name: str
    leads: TList[KOrg] = field(default_factory=list)
    affiliated_with: TList[KOrg] = field(default_factory=list)


@dataclass(eq=False)
class KChair(Role[KConsultant], Symbol):
    consultant: KConsultant
    chairs: TList[KOrg] = field(default_factory=list)

    def __eq__(self, other):
        return self is other

    def __hash__(self):
        return id(self)


@dataclass
class KAff(PropertyDescriptor): ...


@dataclass
class KEmp(KAff): ...


@dataclass
class KLead(KEmp): ...


@dataclass
class KChairs(KLead): ...


KEmployee.leads = KLead(KEmployee, "leads")
KEmployee.employed_by = KEmp(KEmployee, "employed_by")
KEmployee.affiliated_with = KAff(KEmployee, "affiliated_with")
KConsultant.leads = KLead(KConsultant, "leads")
KConsultant.affiliated_with = KAff(KConsultant, "affiliated_with")
KChair.chairs = KChairs(KChair, "chairs")


# family S: the university model with instances of SUBCLASSES of the classes that declare the descriptors.  The class diagram keys a
# field by (class, dataclass field): for a Student the inherited Person.member_of is a second key (Student, member_of); directly
# asserted relations use the declaring key, inferred ones the key of the instance's class.  The model runs on these keys (as the code
# does), the Spec on the facts (object, public field, object).
def _subclasses_of_the_university_model():
    from test.dataset.university_ontology_like_classes import Company, Person

    @dataclass(eq=False)
    class Student(Person):
        year: int = 1

    @dataclass(eq=False)
    class Startup(Company):
        founded: int = 2000

    Student.__module__ = Startup.__module__ = __name__
    globals()["Student"], globals()["Startup"] = Student, Startup
    return Student, Startup


# family R: a role of a role (Chairman of a CEO of a Person): look-ups through role takers go ONE level deep (known finding C15-g)
def _role_of_a_role():
    from test.dataset.university_ontology_like_classes import Company, CEO, HeadOf
    globals()["Company"], globals()["CEO"] = Company, CEO      # the string annotations below are resolved in this module

    @dataclass
    class Chairman(Role[CEO], Symbol):
        ceo: CEO
        chairs: Company = None

        def __hash__(self):
            return hash(("chairman", self.ceo))

    @dataclass
    class Chairs(HeadOf): ...

    Chairman.__module__ = Chairs.__module__ = __name__
    globals()["Chairman"], globals()["Chairs"] = Chairman, Chairs
    Chairman.chairs = Chairs(Chairman, "chairs")
    return Chairman


@dataclass
class Family:
    key: str
    classes: list                      # instance classes; class id = index
    role_taker: Dict[int, str]         # class id -> attribute holding the role taker (constructor argument)
    extra_range: Dict[Tuple[int, str], List[int]] = field(default_factory=dict)
    max_counts: Tuple[int, ...] = ()

    # ---- derived (filled by analyse) -- read from the Python classes only, not through krrood's lookups
    flds: list = field(default_factory=list)        # (class id, name, descriptor)
    kind: list = field(default_factory=list)        # "list" | "set" | "scalar"
    rng: list = field(default_factory=list)         # class ids accepted as target
    dsc: list = field(default_factory=list)
    dclasses: list = field(default_factory=list)
    sups: dict = field(default_factory=dict)
    rtsups: dict = field(default_factory=dict)
    invs: dict = field(default_factory=dict)
    trans: list = field(default_factory=list)
    canon: list = field(default_factory=list)       # key -> the key of the class that declares the descriptor (the public field)

    def analyse(self):
        self.flds, self.kind, self.rng, self.dsc, self.dclasses = [], [], [], [], []
        for ci, C in enumerate(self.classes):
            hints = typing.get_type_hints(C)
            dcf = {f.name: f for f in dc_fields(C)}
            for name in sorted(dir(C)):
                if name.startswith("_"):
                    continue
                d = C.__dict__.get(name)
                if d is None:
                    for B in C.__mro__[1:]:
                        if name in B.__dict__:
                            d = B.__dict__[name]
                            break
                if not isinstance(d, PropertyDescriptor):
                    continue
                self.flds.append((ci, name, d))
                df = dcf[name]
                k = "list" if df.default_factory is list else "set" if df.default_factory is set else "scalar"
                self.kind.append(k)
                t = hints[name]
                args = typing.get_args(t)
                tc = args[0] if args else t
                r = [j for j, K in enumerate(self.classes) if isinstance(tc, type) and issubclass(K, tc)]
                r += self.extra_range.get((ci, name), [])
                self.rng.append(r)
                D = type(d)
                if D not in self.dclasses:
                    self.dclasses.append(D)
                self.dsc.append(self.dclasses.index(D))
        self.trans = [i for i, D in enumerate(self.dclasses) if issubclass(D, TransitiveProperty)]

        def strict_supers(cj, D):
            return [g for g, (c2, _, d2) in enumerate(self.flds)
                    if c2 == cj and issubclass(D, type(d2)) and type(d2) is not D]

        self.sups, self.rtsups, self.invs = {}, {}, {}
        rtclass = self.rt_class()
        self.canon = []
        for f, (ci, name, d) in enumerate(self.flds):
            decl = [g for g, (c2, n2, _) in enumerate(self.flds) if n2 == name and self.classes[c2] is d.domain]
            self.canon.append(decl[0] if decl else f)
        for f, (ci, name, d) in enumerate(self.flds):
            D = type(d)
            # a relation under key f can have as source an instance of the key's class or of a subclass of it
            for cj, Cj in enumerate(self.classes):
                if not issubclass(Cj, self.classes[ci]):
                    continue
                s = strict_supers(cj, D)
                if s:
                    self.sups[(cj, f)] = s
                if cj in rtclass:
                    s = strict_supers(rtclass[cj], D)
                    if s:
                        self.rtsups[(cj, f)] = s
            if issubclass(D, HasInverseProperty):
                I = D.get_inverse()
                for cj in range(len(self.classes)):
                    own = [g for g, (c2, _, d2) in enumerate(self.flds) if c2 == cj and type(d2) is I]
                    if own:
                        self.invs[(cj, f)] = (False, own[0])
                    elif cj in rtclass:
                        viart = [g for g, (c2, _, d2) in enumerate(self.flds) if c2 == rtclass[cj] and type(d2) is I]
                        if viart:
                            self.invs[(cj, f)] = (True, viart[0])
        return self

    def has_subclass_keys(self) -> bool:
        return any(c != f for f, c in enumerate(self.canon))

    def canonical(self) -> "Family":
        """the same schema on FACTS: every key replaced by the public field it stands for (the Spec's view)"""
        fam = Family(self.key + "c", self.classes, self.role_taker)
        fam.flds, fam.kind, fam.rng, fam.dsc, fam.dclasses, fam.trans = self.flds, self.kind, self.rng, self.dsc, self.dclasses, self.trans
        fam.canon = list(self.canon)
        c = self.canon
        fam.sups = {}
        for (cj, f), v in self.sups.items():
            fam.sups.setdefault((cj, c[f]), [])
            fam.sups[(cj, c[f])] = sorted(set(fam.sups[(cj, c[f])]) | {c[g] for g in v if c[g] != c[f]})
        fam.rtsups = {}
        for (cj, f), v in self.rtsups.items():
            fam.rtsups[(cj, c[f])] = sorted(set(fam.rtsups.get((cj, c[f]), [])) | {c[g] for g in v})
        fam.invs = {(cj, c[f]): (flag, c[g]) for (cj, f), (flag, g) in self.invs.items()}
        return fam

    def rt_class(self) -> Dict[int, int]:
        out = {}
        for ci, attr in self.role_taker.items():
            t = typing.get_type_hints(self.classes[ci])[attr]
            out[ci] = [j for j, K in enumerate(self.classes) if K is t][0]     # the DECLARED class of the role taker
        return out

    def has_inverse(self, f):
        return issubclass(type(self.flds[f][2]), HasInverseProperty)

    # ---- Gallina
    def coq_defs(self) -> str:
        k = self.key
        z = lambda xs: "[" + "; ".join(str(x) for x in xs) + "]"
        sups = "[" + "; ".join(f"({c}, {f}, {z(v)})" for (c, f), v in sorted(self.sups.items())) + "]"
        rts = "[" + "; ".join(f"({c}, {f}, {z(v)})" for (c, f), v in sorted(self.rtsups.items())) + "]"
        invs = "[" + "; ".join(f"({c}, {f}, ({'true' if v[0] else 'false'}, {v[1]}))" for (c, f), v in sorted(self.invs.items())) + "]"
        dscs = "[" + "; ".join(f"({f}, {d})" for f, d in enumerate(self.dsc)) + "]"
        scal = z([f for f, kd in enumerate(self.kind) if kd == "scalar"])
        lst = z([f for f, kd in enumerate(self.kind) if kd == "list"])
        return (f"Definition sups_{k} : list (nat * nat * list nat) := {sups}.\n"
                f"Definition rtsups_{k} : list (nat * nat * list nat) := {rts}.\n"
                f"Definition invs_{k} : list (nat * nat * (bool * nat)) := {invs}.\n"
                f"Definition dscs_{k} : list (nat * nat) := {dscs}.\n"
                f"Definition trans_{k} : list nat := {z(self.trans)}.\n"
                f"Definition sch_{k} (cl rt : list (nat * nat)) : schema := mk_schema cl rt sups_{k} rtsups_{k} invs_{k} dscs_{k} trans_{k}.\n"
                f"Definition scalar_{k} (f : nat) : bool := existsb (Nat.eqb f) {scal}.\n"
                f"Definition islist_{k} (f : nat) : bool := existsb (Nat.eqb f) {lst}.\n")


_FAMS: Dict[str, Family] = {}


def families() -> Dict[str, Family]:
    if not _FAMS:
        from test.dataset.university_ontology_like_classes import Company, Person, CEO
        _FAMS["U"] = Family("U", [Company, Person, CEO], {2: "person"}, extra_range={(0, "members"): [2]},
                            max_counts=(3, 3, 2)).analyse()
        _FAMS["N"] = Family("N", [Node, Boss, Twin], {1: "node"}, max_counts=(4, 2, 2),
                            extra_range={(0, "top"): [2], (0, "a"): [2], (0, "b"): [2], (0, "ab"): [2], (0, "anc"): [1]}).analyse()
        _FAMS["O"] = Family("O", [Org, Dept], {}, max_counts=(4, 2)).analyse()
        Student, Startup = _subclasses_of_the_university_model()
        _FAMS["S"] = Family("S", [Company, Person, CEO, Student, Startup], {2: "person"}, extra_range={(0, "members"): [2], (4, "members"): [2]},
                            max_counts=(2, 2, 2, 2, 2)).analyse()
        Chairman = _role_of_a_role()
        _FAMS["R"] = Family("R", [Company, Person, CEO, Chairman], {2: "person", 3: "ceo"}).analyse()
        _FAMS["K"] = Family("K", [KOrg, KEmployee, KConsultant, KChair], {3: "consultant"}, max_counts=(3, 2, 2, 2)).analyse()
    return _FAMS


# =========================================================================== reference closure in Python
# (used only to steer generation: reject histories that give a single-valued field two values; the Spec the
#  implementation is compared with is the Coq one)
def py_closure(fam: Family, pop, edges) -> set:
    cls = [p[0] for p in pop]
    rt = {i: p[1] for i, p in enumerate(pop) if p[1] is not None}  # noqa
    E = set(map(tuple, edges))
    while True:
        new = set()
        for (s, f, t) in E:
            for g in fam.sups.get((cls[s], f), []):
                new.add((s, g, t))
            if s in rt:
                for g in fam.rtsups.get((cls[s], f), []):
                    new.add((rt[s], g, t))
            iv = fam.invs.get((cls[t], f))
            if iv:
                if not iv[0]:
                    new.add((t, iv[1], s))
                elif t in rt:
                    new.add((rt[t], iv[1], s))
            if fam.dsc[f] in fam.trans:
                for (s2, g, t2) in E:
                    if s2 == t and fam.dsc[g] == fam.dsc[f]:
                        new.add((s, f, t2))
        if new <= E:
            return E
        E |= new


def admissible(fam: Family, pop, edges) -> bool:
    """side conditions of the theorem's field part: single-valued fields get at most one value; every relation whose
    descriptor has an inverse finds the inverse field (the schema is well-formed for this history)."""
    C = py_closure(fam, pop, edges)
    seen = {}
    for (s, f, t) in C:
        if fam.kind[f] == "scalar":
            if seen.setdefault((s, fam.canon[f]), t) != t:
                return False
        if fam.has_inverse(f):
            iv = fam.invs.get((pop[t][0], f))
            if iv is None:
                return False
    return True


# =========================================================================== implementation side
HOWS = {"list": ["append", "insert0", "extend", "iadd", "assign"],
        "set": ["add", "update", "ior", "assign", "assign_set"],
        "scalar": ["set"]}


def pop_ctor(p):
    return (p[2] if len(p) > 2 and p[2] else [])


def pop_key(p):
    return p[3] if len(p) > 3 else None


def ctor_edges(pop) -> List[Tuple[int, int, int]]:
    """facts asserted through constructor arguments, in construction order"""
    return [(i, f, t) for i, p in enumerate(pop) for f, ts in pop_ctor(p) for t in ts]


def twin_classes(pop) -> List[Tuple[int, int]]:
    """(object, representative) for the objects that compare equal to an EARLIER object (class Twin, same key)"""
    first, out = {}, []
    for i, p in enumerate(pop):
        k = pop_key(p)
        if k is None:
            continue
        if k in first:
            out.append((i, first[k]))
        else:
            first[k] = i
    return out


def build_population(fam: Family, pop):
    """a pop entry is [class, role taker, constructor contents [[field, [targets]], ...] or None, Twin key or None]"""
    objs = []
    for i, p in enumerate(pop):
        ci, rti = p[0], p[1]
        C = fam.classes[ci]
        kw = {}
        for f, ts in pop_ctor(p):
            vals = [objs[t] for t in ts]
            kd = fam.kind[f]
            kw[fam.flds[f][1]] = vals[0] if kd == "scalar" else (set(vals) if kd == "set" else list(vals))
        if C is Twin:
            o = C(f"o{i}", key=pop_key(p))
        elif ci in fam.role_taker:
            o = C(objs[rti], **kw)
        else:
            o = C(f"o{i}", **kw)
        objs.append(o)
    return objs


def run_impl(descr) -> Dict[str, Any]:
    fam = families()[descr["fam"]]
    SymbolGraph().clear()
    SymbolGraph()
    pop = descr["pop"]
    try:
        objs = build_population(fam, pop)
    except Exception as e:  # noqa  -- a constructor raised: nothing comparable can be observed
        return {"E": [], "V": [], "exc": f"{type(e).__name__}: {str(e)[:160]}", "build_failed": True}
    exc = None
    try:
        for how, s, f, ts in descr["ops"]:
            name = fam.flds[f][1] if f >= 0 else None
            o = objs[s]
            vals = [objs[t] for t in ts]
            if how == "drop":                  # the object is released and collected; its node stays in the graph until the next sweep
                del o
                objs[s] = None
                gc.collect()
                continue
            if how.startswith("update_from:") or how.startswith("extend_from:"):
                # the argument is ANOTHER object's live managed container (which inference may change during the call)
                other = getattr(objs[int(how.split(":")[1])], name)
                (getattr(o, name).update if how.startswith("update") else getattr(o, name).extend)(other)
                continue
            if how == "set":
                setattr(o, name, vals[0])
            elif how == "append":
                for v in vals:
                    getattr(o, name).append(v)
            elif how == "insert0":
                for v in vals:
                    getattr(o, name).insert(0, v)
            elif how == "extend":
                getattr(o, name).extend(vals)
            elif how == "iadd":
                cur = getattr(o, name)
                cur += vals
                setattr(o, name, cur)          # what `o.name += vals` does
            elif how == "add":
                for v in vals:
                    getattr(o, name).add(v)
            elif how == "update":
                getattr(o, name).update(vals)
            elif how == "ior":
                cur = getattr(o, name)
                cur |= set(vals)
                setattr(o, name, cur)
            elif how in ("assign", "assign_set"):
                cur = getattr(o, name)
                if len(cur) == 0:              # side condition: assignment only onto an empty field
                    setattr(o, name, set(vals) if how == "assign_set" else list(vals))
                elif fam.kind[f] == "list":
                    cur.extend(vals)
                else:
                    cur.update(vals)
            else:
                raise ValueError(how)
    except Exception as e:  # noqa
        exc = f"{type(e).__name__}: {str(e)[:160]}"
    ident = {id(o): i for i, o in enumerate(objs) if o is not None}
    fid = {(fam.classes[ci], name): f for f, (ci, name, _) in enumerate(fam.flds)}
    E = []
    for r in SymbolGraph().relations():
        wf = r.wrapped_field
        E.append([ident.get(id(r.source.instance), -1), fid.get((wf.clazz.clazz, wf.public_name), -1),
                  ident.get(id(r.target.instance), -1)])
    V = []
    for i, o in enumerate(objs):
        if o is None:
            continue
        ci = pop[i][0]
        for f, (cj, name, _) in enumerate(fam.flds):
            if cj != ci:
                continue
            v = getattr(o, name)
            if fam.kind[f] == "scalar":
                if v is not None:
                    V.append([i, f, ident.get(id(v), -1)])
            else:
                for x in v:
                    V.append([i, f, ident.get(id(x), -1)])
    return {"E": sorted(E), "V": sorted(V), "exc": exc}


def snippet(descr) -> str:
    return ("# PYTHONPATH=/repo/src:/repo:/verif PYTHONHASHSEED=0 /venv/bin/python\n"
            f"from harness import c15; print(c15.run_impl({descr!r}))")


def run_workers(descrs: List[dict], nproc: int = 8, per: int = 400) -> List[dict]:
    chunks = [descrs[i:i + per] for i in range(0, len(descrs), per)]

    def one(chunk):
        r = subprocess.run([core.PY, "-m", "harness.c15", "--worker"], input=json.dumps(chunk), cwd=str(core.VERIF),
                           env=dict(core.IMPL_ENV, PYTHONDONTWRITEBYTECODE="1"), stdout=subprocess.PIPE,
                           stderr=subprocess.PIPE, text=True, timeout=1200)
        if r.returncode != 0:
            raise RuntimeError("C15 worker failed:\n" + r.stderr[-2000:])
        return json.loads(r.stdout)

    out: List[dict] = []
    with ThreadPoolExecutor(max_workers=nproc) as ex:
        for res in ex.map(one, chunks):
            out += res
    return out


# =========================================================================== Coq side
HEADER_SPEC_IMPORTS = """From Coq Require Import List ZArith Bool Arith.
From Krrood Require Import Base.Sx Onto.ClosureSpec.
Import ListNotations. Open Scope nat_scope."""
HEADER_MODEL_IMPORTS = """From Coq Require Import List ZArith Bool Arith.
From Krrood Require Import Base.Sx Onto.ClosureSpec Onto.Closure.
Import ListNotations. Open Scope nat_scope."""


def header(model: bool) -> str:
    fams = list(families().values()) + [f.canonical() for f in families().values() if f.has_subclass_keys()]
    return ((HEADER_MODEL_IMPORTS if model else HEADER_SPEC_IMPORTS) + "\n" + "".join(f.coq_defs() for f in fams)
            + "Definition clsf (tw : list (nat * nat)) (o : nat) : nat := odef o (lookup o tw).\n")


def edges_of(descr) -> List[Tuple[int, int, int]]:
    return ctor_edges(descr["pop"]) + [(s, f, t) for how, s, f, ts in descr["ops"] if how != "drop" for t in ts]


def sch_term(descr, canonical: bool = False) -> str:
    k = descr["fam"] + ("c" if canonical and families()[descr["fam"]].has_subclass_keys() else "")
    cl = "[" + "; ".join(f"({i}, {p[0]})" for i, p in enumerate(descr["pop"])) + "]"
    rt = "[" + "; ".join(f"({i}, {p[1]})" for i, p in enumerate(descr["pop"]) if p[1] is not None) + "]"
    return f"(sch_{k} {cl} {rt})"


def edges_term(edges) -> str:
    return "[" + "; ".join(f"({s}, {f}, {t})" for s, f, t in edges) + "]"


def fuel_of(descr) -> int:
    fam = families()[descr["fam"]]
    n = len(descr["pop"])
    return n * n * len(fam.flds) + 2


def model_term(descr) -> str:
    k = descr["fam"]
    tw = "[" + "; ".join(f"({a}, {b})" for a, b in twin_classes(descr["pop"])) + "]"
    return f"model_out (runV {sch_term(descr)} scalar_{k} islist_{k} (clsf {tw}) {fuel_of(descr)} {edges_term(edges_of(descr))})"


def spec_term(descr) -> str:
    """the Spec works on FACTS: keys are replaced by the public field they stand for"""
    c = families()[descr["fam"]].canon
    return f"spec_out {sch_term(descr, canonical=True)} 40 {edges_term(sorted(set((s, c[f], t) for s, f, t in edges_of(descr))))}"


# =========================================================================== generation
def gen_population(fam: Family, rng: core.Rng):
    pop = []
    if fam.key == "U":
        nc, np_ = rng.randint(1, 3), rng.randint(1, 3)
        nceo = rng.randint(0, min(2, np_))
        pop = [[0, None]] * nc + [[1, None]] * np_
        persons = list(range(nc, nc + np_))
        rng.shuffle(persons)
        pop += [[2, persons[i]] for i in range(nceo)]       # each person takes at most one CEO role
    elif fam.key == "N":
        nn = rng.randint(2, 4)
        nb = rng.randint(0, 2)
        pop = [[0, None]] * nn
        nodes = list(range(nn))
        rng.shuffle(nodes)
        pop += [[1, nodes[i]] for i in range(nb)]
        if rng.chance(0.3):                    # two distinct objects that compare and hash equal
            pop = [[2, None, None, 0], [2, None, None, 0]] + [[p[0], None if p[1] is None else p[1] + 2] for p in pop]
    elif fam.key == "S":
        # companies / startups, persons / students, CEOs whose role taker is a person or a student
        nc, np_ = rng.randint(1, 3), rng.randint(1, 3)
        pop = [[rng.choice([0, 4]), None] for _ in range(nc)] + [[rng.choice([1, 3]), None] for _ in range(np_)]
        persons = list(range(nc, nc + np_))
        rng.shuffle(persons)
        pop += [[2, persons[i]] for i in range(rng.randint(0, min(2, np_)))]
    elif fam.key == "K":
        no, ne, nc = rng.randint(1, 3), rng.randint(0, 2), rng.randint(1, 2)
        nch = rng.randint(0, nc)
        pop = [[0, None]] * no + [[1, None]] * ne + [[2, None]] * nc
        cons = list(range(no + ne, no + ne + nc))
        rng.shuffle(cons)
        pop += [[3, cons[i]] for i in range(nch)]
    else:
        no, nd = rng.randint(2, 4), rng.randint(0, 2)
        pop = [[0, None]] * no + [[1, None]] * nd
    pop = [list(p) for p in pop]
    add_ctor_contents(fam, pop, rng)
    return pop


def ctor_safe(fam: Family, f: int, cls_idx: Optional[int] = None) -> bool:
    """may field f be given to the constructor?  Containers only, and every field of the SAME object that inference writes
    (its super-properties in that class) must be declared before f: __init__ assigns the fields in declaration order and
    inference into a field that does not exist yet raises AttributeError (known finding C15-c)."""
    ci, name, _ = fam.flds[f]
    ci = ci if cls_idx is None else cls_idx
    if fam.kind[f] == "scalar":
        return False
    order = [x.name for x in dc_fields(fam.classes[ci])]
    return all(order.index(fam.flds[g][1]) < order.index(name) for g in fam.sups.get((ci, f), []))


def add_ctor_contents(fam: Family, pop, rng: core.Rng):
    """non-empty containers handed to the dataclass constructor (first-assignment path of __set__)"""
    for i, p in enumerate(pop):
        if fam.classes[p[0]] is Twin or not rng.chance(0.25):
            continue
        cands = [f for f, (ci, _, _) in enumerate(fam.flds)
                 if fam.canon[f] == f and issubclass(fam.classes[p[0]], fam.classes[ci]) and ctor_safe(fam, f, p[0])]
        if not cands:
            continue
        f = rng.choice(cands)
        tgts = [j for j in range(i) if pop[j][0] in fam.rng[f]]
        if not tgts:
            continue
        ts = [rng.choice(tgts) for _ in range(rng.randint(1, 2))]
        if fam.kind[f] == "set":
            ts = dedupe_equal(pop, ts)
        if admissible(fam, pop, ctor_edges(pop) + [(i, f, t) for t in ts]):
            while len(p) < 3:
                p.append(None)
            p[2] = [[f, ts]]


def dedupe_equal(pop, ts):
    """what set(...) of these objects keeps: one object per ==-class, the first"""
    rep = dict(twin_classes(pop))
    seen, out = set(), []
    for x in ts:
        c = rep.get(x, x)
        if c not in seen:
            seen.add(c)
            out.append(x)
    return out


def gen_op(fam: Family, pop, rng: core.Rng, single: bool = False):
    for _ in range(20):
        f = rng.randint(0, len(fam.flds) - 1)
        ci = fam.flds[f][0]
        if fam.canon[f] != f:                   # a direct assertion is recorded under the key of the class that declares the descriptor
            continue
        srcs = [i for i, p in enumerate(pop) if issubclass(fam.classes[p[0]], fam.classes[ci])]
        tgts = [i for i, p in enumerate(pop) if p[0] in fam.rng[f]]
        if not srcs or not tgts:
            continue
        kind = fam.kind[f]
        how = rng.choice(HOWS[kind])
        if fam.has_subclass_keys() and how in ("iadd", "ior"):
            # += / |= re-assert every element the field already holds as a DIRECT fact under the declaring key, also the inferred ones
            # stored under the subclass key: facts the history does not list; use the plain forms there
            how = "extend" if how == "iadd" else "update"
        if single:
            how = {"list": "append", "set": "add", "scalar": "set"}[kind]
        k = 1 if (kind == "scalar" or single or how in ("append", "insert0", "add")) else rng.randint(1, 3)
        ts = [rng.choice(tgts) for _ in range(k)]
        if how == "assign_set":                 # the harness builds a Python set of the values
            ts = dedupe_equal(pop, ts)
        if how == "ior":                        # set.__ior__ ignores a value equal to a present one: it is then never asserted
            ts = [x for x in ts if pop_key(pop[x]) is None]
            if not ts:
                continue
        return [how, rng.choice(srcs), f, ts]
    return None


def gen_from_op(fam: Family, pop, ops, rng: core.Rng):
    """a.f.update(b.f) / a.f.extend(b.f): the facts asserted are (a, f, x) for the x that b.f holds at that moment"""
    # set fields only: what a list field holds is known to the generator only as a set (multiplicities depend on the history)
    cands = [f for f, k in enumerate(fam.kind) if k == "set" and fam.canon[f] == f]
    if not cands:
        return None
    f = rng.choice(cands)
    ci = fam.flds[f][0]
    srcs = [i for i, p in enumerate(pop) if fam.classes[p[0]] is fam.classes[ci]]
    if len(srcs) < 2:
        return None
    a, b = rng.sample(srcs, 2)
    C = py_closure(fam, pop, ctor_edges(pop) + [(s, g, t) for _, s, g, ts in ops for t in ts])
    ts = sorted(t for s, g, t in C if s == b and g == f)
    if not ts or any(pop_key(pop[t]) is not None for t in ts):
        return None
    return [("update_from:" if fam.kind[f] == "set" else "extend_from:") + str(b), a, f, ts]


def gen_history(fam: Family, pop, rng: core.Rng, nops: int, single: bool = False):
    ops = []
    for _ in range(nops):
        op = gen_op(fam, pop, rng, single)
        if not single and not fam.has_subclass_keys() and rng.chance(0.12):
            op = gen_from_op(fam, pop, ops, rng) or op
        if op is None:
            continue
        if admissible(fam, pop, ctor_edges(pop) + [(s, f, t) for _, s, f, ts in ops + [op] for t in ts]):
            ops.append(op)
    return ops


def add_drops(fam: Family, pop, ops, rng: core.Rng):
    """release an object in the middle of the history: allowed when no fact of the closure so far has it as target (nobody holds it),
    and nothing asserted later mentions it"""
    if len(ops) < 2:
        return ops
    k = rng.randint(1, len(ops) - 1)
    before = ctor_edges(pop) + [(s, f, t) for _, s, f, ts in ops[:k] for t in ts]
    C = py_closure(fam, pop, before)
    later = {x for _, s, f, ts in ops[k:] for x in [s] + list(ts)}
    roles = {p[1] for p in pop if p[1] is not None}
    cands = [i for i in range(len(pop)) if i not in later and i not in roles and not any(t == i for _, _, t in C)
             and any(s == i for s, _, _ in C)]
    if not cands:
        return ops
    return ops[:k] + [["drop", rng.choice(cands), -1, []]] + ops[k:]


def gen_cases(tier: str, seed: int) -> List[dict]:
    rng = core.Rng(seed * 1000003 + 15)
    fams = families()
    n_random, n_sets, maxperm = (1500, 9, 5) if tier == "quick" else (12000, 60, 6)
    out = []
    keys = ["U", "N", "K", "O", "N", "S"]
    for i in range(n_random):
        fam = fams[keys[i % len(keys)]]
        pop = gen_population(fam, rng)
        ops = gen_history(fam, pop, rng, rng.randint(1, 9))
        if ops and fam.key == "O" and rng.chance(0.5):
            ops = add_drops(fam, pop, ops, rng)
        if ops:
            out.append({"fam": fam.key, "pop": pop, "ops": ops, "group": "random"})
    for i in range(n_sets):
        fam = fams[keys[i % len(keys)]]
        pop = gen_population(fam, rng)
        size = maxperm if i % 3 == 0 else rng.randint(3, maxperm)
        ops = []
        for _ in range(40):
            if len(ops) >= size:
                break
            cand = gen_history(fam, pop, rng, 1, single=True)
            if cand and cand[0] not in ops and admissible(fam, pop, ctor_edges(pop) + [(s, f, t) for _, s, f, ts in ops + cand for t in ts]):
                ops += cand
        for perm in itertools.permutations(ops):
            out.append({"fam": fam.key, "pop": pop, "ops": [list(o) for o in perm], "group": f"perm{i}"})
    return out


# =========================================================================== corpus / findings
def corpus_cases() -> List[Tuple[str, dict]]:
    d = core.VERIF / "corpus" / PROP
    out = []
    for p in sorted(d.glob("*.json")):
        out.append((p.name, json.loads(p.read_text())))
    return out


# =========================================================================== deciding
def norm(edges) -> List[Tuple[int, int, int]]:
    return sorted(tuple(e) for e in edges)


def in_equal_twins_class(descr, spec) -> bool:
    """K_equal_twins: the closure relates one object through one field to two DISTINCT objects that compare equal"""
    if spec == -1:
        return False
    rep_ = dict(twin_classes(descr["pop"]))
    seen = {}
    for s, f, t in norm(spec):
        k = (s, f, rep_.get(t, t))
        if k in seen and seen[k] != t:
            return True
        seen.setdefault(k, t)
    return False


def first_append_duplicated(descr, impl_V_facts):
    """Python semantics of the very first write: objects built without constructor contents, first operation asserts a fact into a LIST
    field once and the history never asserts it again -> the field holds that element exactly once, whatever inference does."""
    fam = families()[descr["fam"]]
    if ctor_edges(descr["pop"]) or not descr["ops"] or descr["ops"][0][0] == "drop":
        return None
    how, s, f, ts = descr["ops"][0]
    all_edges = [(a, fam.canon[b], c) for a, b, c in edges_of(descr)]
    for t_ in ts:
        e = (s, fam.canon[f], t_)
        if fam.kind[f] == "list" and all_edges.count(e) == 1 and list(impl_V_facts).count(e) > 1:
            return e
    return None


def in_subclass_duplicate_class(descr) -> bool:
    """K_subclass_keys: the asserting object is an instance of a SUBCLASS of the class that declares the descriptor"""
    fam = families()[descr["fam"]]
    return any(how != "drop" and fam.classes[descr["pop"][s][0]] is not fam.classes[fam.flds[f][0]] for how, s, f, ts in descr["ops"])


def fields_agree(descr, impl_V, spec_set) -> bool:
    """C15_list_fields_agree / C15_set_fields_agree: list and single-valued fields hold exactly the closure's relations, by identity;
    a set field holds only relations of the closure and, for each of them, an element ==-equal to the target (a Python set cannot
    hold two equal objects)."""
    fam = families()[descr["fam"]]
    rep_ = dict(twin_classes(descr["pop"]))
    V, S = set(impl_V), set(spec_set)
    if not V <= S:
        return False
    cov = {(s, f, rep_.get(t, t)) for s, f, t in V}
    for s, f, t in S:
        if fam.kind[f] == "set":
            if (s, f, rep_.get(t, t)) not in cov:
                return False
        elif (s, f, t) not in V:
            return False
    return True


def decide(rep: core.Report, descr, impl, model, spec, model_ok: bool, stats) -> Optional[dict]:
    """returns a violation record or None"""
    fam = families()[descr["fam"]]
    keyed = fam.has_subclass_keys()
    dead = {s for how, s, f, ts in descr["ops"] if how == "drop"}

    def live(es):          # relations of collected objects stay in the graph until a sweep and the model has no collection:
        return [e for e in es if e[0] not in dead and e[2] not in dead and e[0] >= 0 and e[2] >= 0] if dead else list(es)

    def facts(es):         # a key stands for the public field of the class that declares the descriptor
        return [(s, fam.canon[f] if f >= 0 else f, t) for s, f, t in es]

    impl_E, impl_V = live(norm(impl["E"])), live(norm(impl["V"]))
    spec_set = None if spec == -1 else sorted(set(live(norm(spec))))
    if spec_set is None:
        rep.oblige("spec:fixpoint-reached", False, f"closure_fuel did not reach a fixpoint on {descr}")
        return None
    problems = []
    if impl["exc"]:
        problems.append(f"exception {impl['exc']}")
    if sorted(set(facts(impl_E))) != spec_set:
        problems.append("graph relations differ from the closure of the asserted facts")
    if len(set(impl_E)) != len(impl_E):
        problems.append("a relation is stored twice in the graph")
    if not fields_agree(descr, sorted(set(facts(impl_V))), spec_set):
        problems.append("field contents differ from the closure of the asserted facts (list and single-valued fields object by object, "
                        "set fields up to ==)")
    dup = first_append_duplicated(descr, facts(impl_V))
    if dup:
        problems.append(f"a single append / add of {dup} as the first operation on fresh objects leaves the element more than once in the list field")
    if model_ok:
        if model == -1:
            rep.oblige("model:fuel", False, f"model ran out of fuel on {descr}")
        else:
            mE, mV = live(norm(model[0])), live(norm(model[1]))
            # with subclass keys the graph is compared key by key; the field store of the model is keyed like the graph while the objects'
            # fields go by name (`already there` looks at the one physical list), so the fields are compared with the Spec only
            same = (mE == impl_E) and (keyed or mV == impl_V)
            if not problems and not same:
                stats["model_mismatch"] += 1
                rep.oblige("correspondence:model", False,
                           f"model differs from implementation (which meets the Spec) on {json.dumps(descr)}: "
                           f"model E={mE} V={mV} impl E={impl_E} V={impl_V}")
    if problems:
        return {"kind": "counterexample", "case": descr, "impl": impl, "spec": spec_set,
                "model": None if (not model_ok or model == -1) else {"E": norm(model[0]), "V": norm(model[1])},
                "problems": problems, "python": snippet(descr),
                "explanation": "triples are (object index in pop, field index, object index); fields of family "
                               + descr["fam"] + ": " + ", ".join(f"{i}={families()[descr['fam']].classes[c].__name__}.{n}" for i, (c, n, _) in enumerate(families()[descr["fam"]].flds))}
    return None


def run(tier: str, seed: int, replay=None) -> int:
    rep = core.Report(PROP, tier, seed, "proof")
    rep.trusted = core.COQ_TRUSTED + [
        "hand-written model Onto/Closure.v of PropertyDescriptorRelation.add_to_graph / update_value / MonitoredContainer._add_item, tied by differential execution on every run",
        "harness/c15.py: schema extraction from the Python classes (descriptor class hierarchy, inverse, TransitiveProperty, role taker), case builders through the public API, canonicaliser (objects and fields numbered)",
        "rustworkx PyDiGraph (out_edges/in_edges return snapshots), CPython list/set",
    ]
    rep.trusted.append("source pins pins/onto.json (pin set pins/sets/onto.json): the normalised source of the 64 methods the hand models Onto/Closure.v and Onto/Container.v mirror is compared on every run; an edit reopens the correspondence obligation")
    rep.assume = [
        "single-valued fields receive at most one value in the closure (generator rejects other histories); role takers are fixed at construction",
        "container assignment only onto an empty field (assignment onto a non-empty field is retraction, which the graph does not do)",
        "every descriptor with an inverse finds a field of the inverse descriptor class on the target or its role taker (otherwise ValueError by design)",
        "instances of subclasses of a descriptor-owning class (family S): the class diagram keys an inherited field per class, so one fact can be stored under two keys; the model and the theorems run on keys (compared key by key with the graph), the Spec on facts (object, public field, object); there the field store is compared with the Spec only",
        "objects released in mid-history (family O, sources nobody refers to): their relations stay in the graph until a sweep; graph, fields, model and Spec are compared on the surviving objects",
        "every object of a population stays alive for the whole history (the model has no garbage collection): the guard `if nxt_relation.source.instance is None: continue` of infer_transitive_relations_incoming_to_target (52517d3, C14-b; pinned) is never taken in the modelled histories, where it is the identity",
        "field agreement: list and single-valued fields object by object; set fields up to == (a Python set cannot hold two equal objects: the graph still records the relation to each of them)",
        "constructor arguments: non-empty containers only, and only where every same-object field written by inference is declared earlier (K_ctor_halfbuilt, C15-c, replayed from its witness)",
    ]
    rep.rule = ("random populations whose objects are partly built with NON-EMPTY containers handed to the constructor, in family N partly with two distinct objects that compare and hash equal; random assertion histories (1-9 write operations, among them a.f.update(b.f) / a.f.extend(b.f) with another object's live field as argument: append/insert/extend/+=/assignment, add/update/|=, scalar assignment) "
                "over random populations of the university model and of four harness-defined schemas (diamond of sub-properties + transitive "
                "inverse pair with cycles + role taker; one transitive descriptor on two domain classes + self-inverse relation; a 4-level sub-property chain whose domain classes and role taker skip levels; the university model with instances of subclasses Student(Person) / Startup(Company) as sources, targets and role takers), partly with an object released and collected in mid-history, plus ALL "
                "permutations of fact sets of <= 5 (thorough <= 6) facts; non-trivial = the closure is strictly larger than the asserted set; "
                "distinct = distinct (family, population, history)")
    ok_spec, log = core.coq_make(["Base/Sx.vo", "Onto/ClosureSpec.vo"])
    rep.oblige("build:spec", ok_spec, "" if ok_spec else core.first_error(log))
    model_ok = core.standard_proof_steps(rep, PROP, ["Props/C15.vo"])
    from translator import pins
    pins.oblige(rep, str(core.REPO), "onto", "the hand model Onto/Closure.v (add_to_graph, infer_*, update_value, the write paths and SymbolGraph.add_relation / relation lookups)")
    if not ok_spec:
        return rep.finish()

    findings = core.load_findings(PROP)
    corpus = corpus_cases()
    if replay:
        descrs = [replay["case"]]
        strip = lambda c: {k: v for k, v in c.items() if k not in ("comment", "group")}
        corpus = [(n, c) for n, c in corpus if strip(c) == strip(replay["case"])][:1]   # a replayed witness keeps its finding
        if not corpus:
            corpus = []
    else:
        descrs = [c for _, c in corpus] + gen_cases(tier, seed)
    impls = run_workers(descrs)
    try:
        specs = core.coq_values(PROP, header(False), [spec_term(d) for d in descrs], chunk=250, tag="spec")
    except core.CoqEvalError as e:
        rep.oblige("spec:evaluate", False, str(e)[:600])
        return rep.finish()
    models = [None] * len(descrs)
    if model_ok:
        try:
            models = core.coq_values(PROP, header(True), [model_term(d) for d in descrs], chunk=250, tag="model")
        except core.CoqEvalError as e:
            rep.oblige("model:evaluate", False, str(e)[:600])
            model_ok = False
    else:
        rep.note("model not available; comparing the implementation with the Spec only (search for a failing input)")

    stats = {"model_mismatch": 0}
    dist = {"family": {}, "ops": {}, "how": {}, "closure_size": {}, "group": {}}
    fixed_names = {f.witness.split("/")[-1]: f for f in findings if f.kind == "fixed"}
    open_names = {f.witness.split("/")[-1]: f for f in findings if f.kind == "open"}
    nviol = 0
    kf_instances: Dict[str, int] = {}
    for i, (d, impl, model, spec) in enumerate(zip(descrs, impls, models, specs)):
        cname = corpus[i][0] if i < len(corpus) else None
        asserted = set(edges_of(d))
        nontrivial = spec != -1 and len(spec) > len(asserted)
        rep.count(json.dumps([d["fam"], d["pop"], d["ops"]]), nontrivial)
        dist["family"][d["fam"]] = dist["family"].get(d["fam"], 0) + 1
        dist["ops"][len(d["ops"])] = dist["ops"].get(len(d["ops"]), 0) + 1
        g = d.get("group", "corpus")
        g = "perm" if g.startswith("perm") else g
        dist["group"][g] = dist["group"].get(g, 0) + 1
        for op in d["ops"]:
            dist["how"][op[0]] = dist["how"].get(op[0], 0) + 1
        if ctor_edges(d["pop"]):
            dist["with_constructor_contents"] = dist.get("with_constructor_contents", 0) + 1
        if twin_classes(d["pop"]):
            dist["with_equal_twins"] = dist.get("with_equal_twins", 0) + 1
        if spec != -1:
            b = min(len(spec) // 5 * 5, 40)
            dist["closure_size"][b] = dist["closure_size"].get(b, 0) + 1
        v = decide(rep, d, impl, model, spec, model_ok, stats)
        if v is None:
            if cname in open_names:
                rep.note(f"known finding {open_names[cname].fid}: witness no longer fails")
            continue
        model_same = bool(model_ok and model != -1 and not impl.get("build_failed") and not impl["exc"]
                          and not any(op[0] == "drop" for op in d["ops"])
                          and norm(model[0]) == norm(impl["E"]) and norm(model[1]) == norm(impl["V"]))
        if cname in open_names and model_same:
            rep.known(open_names[cname])
            continue
        if (cname in open_names and open_names[cname].cls == "K_ctor_halfbuilt" and impl.get("build_failed")
                and d.get("expect_exc") and (impl["exc"] or "").startswith(d["expect_exc"])):
            rep.known(open_names[cname])       # the constructor raises exactly the recorded error (no model of __init__ order)
            continue
        keyed_E_same = bool(families()[d["fam"]].has_subclass_keys() and model_ok and model != -1 and not impl["exc"]
                            and not impl.get("build_failed") and norm(model[0]) == norm(impl["E"]))
        only_dup = bool(v["problems"]) and all("more than once in the list field" in x for x in v["problems"])
        if cname in open_names and open_names[cname].cls == "K_subclass_keys" and keyed_E_same and only_dup:
            rep.known(open_names[cname])
            continue
        if (keyed_E_same and only_dup and in_subclass_duplicate_class(d)
                and any(f.cls == "K_subclass_keys" for f in findings if f.kind == "open")):
            kf_instances["K_subclass_keys"] = kf_instances.get("K_subclass_keys", 0) + 1   # C15-e: graph exactly as the key-level model, only the duplicate
            continue
        if (cname in open_names and open_names[cname].cls == "K_role_of_role"
                and (impl["exc"] or "").startswith("ValueError: cannot find a field for the inverse")):
            rep.known(open_names[cname])       # the recorded failure: the inverse lives two role takers below the target
            continue
        if (any(op[0].startswith("update_from:") for op in d["ops"]) and (impl["exc"] or "").startswith("RuntimeError: Set changed size during iteration")
                and any(f.cls == "K_update_live" for f in findings if f.kind == "open")):
            if cname in open_names and open_names[cname].cls == "K_update_live":
                rep.known(open_names[cname])
            else:
                kf_instances["K_update_live"] = kf_instances.get("K_update_live", 0) + 1   # C15-f: the recorded failure, in its class
            continue
        if (model_same and in_equal_twins_class(d, spec) and any(f.cls == "K_equal_twins" for f in findings if f.kind == "open")):
            kf_instances["K_equal_twins"] = kf_instances.get("K_equal_twins", 0) + 1    # instance of C15-b, exactly as the model predicts
            continue
        if cname in fixed_names:
            v["regression_of"] = fixed_names[cname].fid
        nviol += 1
        if nviol <= 5:
            rep.violation(v)
    rep.samples = [{"case": d, "impl": im} for d, im in list(zip(descrs, impls))[:: max(1, len(descrs) // 6)]][:6]
    rep.extra["distribution"] = dist
    rep.extra["model_mismatches"] = stats["model_mismatch"]
    rep.extra["known_finding_instances"] = kf_instances
    return rep.finish()


def _worker():
    cases = json.loads(sys.stdin.read())
    out = [run_impl(c) for c in cases]
    sys.stdout.write(json.dumps(out))


if __name__ == "__main__":
    if "--worker" in sys.argv:
        _worker()
