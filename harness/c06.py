"""C06 -- ORMatic produces a valid, complete SQLAlchemy layer for every supported model.

Tie: (T) translator/t_parsefield.py regenerates coq/Gen/ParseField.v (parse_field dispatch chain, relationship
predicates, name builders, private-field test, mapper-arg conditions) from /repo on every run;
(H) correspondence: random class models are written to work/C06/<case>/, a fresh subprocess per model runs
ClassDiagram -> ORMatic -> make_all_tables -> to_sqlalchemy_file -> import -> configure_mappers -> create_all (SQLite),
then (A) ORMatic's own containers (tables, column constructors, association tables, imports) are compared with the
Gallina model `gen`, and (C) the mapper/table inspection is compared with the model's prediction and with the Spec
(an independent reading of the dataclass annotations).  Determinism: a second fresh process with another
PYTHONHASHSEED must produce the identical file; a third with the classes handed over in shuffled order must produce
the same tables up to emission order.

The implementation side of a case is executed by `python -m harness.c06 --run <dir> <descr.json> <order-variant>`.
"""
from __future__ import annotations

import hashlib
import json
import os
import re
import shutil
import subprocess
import sys
import time
from concurrent.futures import ThreadPoolExecutor
from pathlib import Path
from typing import Any, Dict, List, Optional, Tuple

PROP = "C06"
RUN_TAG = f"run_{os.getpid()}"
BUILTINS = ["int", "float", "str", "bool", "datetime"]
BCODE = {"int": 1, "float": 2, "str": 3, "bool": 4, "datetime": 5}
SHAPES = ["plain", "opt", "list", "set"]

# ------------------------------------------------------------------------------------------------
# a case = a class model
#   {"module": str, "enums": [names], "classes": [ {"name", "base": name|None, "fields": [ {"name","shape","ep":[kind,name],"default":bool} ]} ]
#    (definition order: bases first), "order": [class names as handed to ClassDiagram]}
# ------------------------------------------------------------------------------------------------


def ann_text(f) -> str:
    kind, name = f["ep"]
    inner = name
    if f["shape"] == "opt" and f.get("pep604"):
        return f"{inner} | None"            # PEP 604 spelling of Optional (recognised since 2a64235)
    return {"plain": inner, "opt": f"Optional[{inner}]", "list": f"List[{inner}]", "set": f"Set[{inner}]"}[f["shape"]]


def default_text(f) -> str:
    kind, name = f["ep"]
    if f["shape"] == "opt":
        return "None"
    if f["shape"] == "list":
        return "field(default_factory=list)"
    if f["shape"] == "set":
        return "field(default_factory=set)"
    if kind == "b":
        return {"int": "0", "float": "0.5", "str": "''", "bool": "False", "datetime": "datetime(2020, 1, 1)"}[name]
    if kind == "e":
        return f"{name}.R"
    return "None"


def render_source(d) -> Tuple[str, str]:
    """-> (source of the enum module, source of the class module)"""
    emod = d["module"] + "_e"
    esrc = ["import enum", ""]
    for e in d["enums"]:
        if e in d.get("str_enums", []):     # an Enum that mixes in str (class Mode(str, Enum)): still an Enum column
            esrc += [f"class {e}(str, enum.Enum):", "    R = 'r'", "    G = 'g'", ""]
        else:
            esrc += [f"class {e}(enum.Enum):", "    R = 1", "    G = 2", ""]
    lines = ["from __future__ import annotations", "from dataclasses import dataclass, field", "from datetime import datetime",
             "from typing import List, Optional, Set"]
    if d["enums"]:
        lines.append(f"from {emod} import " + ", ".join(d["enums"]))
    lines.append("")
    for c in d["classes"]:
        lines.append("@dataclass(eq=False, kw_only=True)")
        lines.append(f"class {c['name']}({c['base']}):" if c["base"] else f"class {c['name']}:")
        body = []
        for f in c["fields"]:
            if f.get("default", True):
                body.append(f"    {f['name']}: {ann_text(f)} = {default_text(f)}")
            else:
                body.append(f"    {f['name']}: {ann_text(f)}")
        lines += body or ["    pass"]
        lines.append("")
    return "\n".join(esrc) + "\n", "\n".join(lines) + "\n"


def case_key(d) -> str:
    return json.dumps({k: d.get(k) for k in ("enums", "str_enums", "classes", "order")}, sort_keys=True)


def case_dir(d) -> Path:
    from . import core
    # the module name is part of the directory name: two generated models with the same content (e.g. a single field-less
    # class) but different module names must not share their scratch files
    h = hashlib.sha1((d["module"] + "|" + case_key(d)).encode()).hexdigest()[:12]
    return core.WORK / PROP / RUN_TAG / f"m_{h}"     # per-process scratch: concurrent runs of this check do not share files


# ------------------------------------------------------------------------------------------------
# implementation side (runs in a fresh subprocess)
# ------------------------------------------------------------------------------------------------
TYPECODE = {"Integer": 1, "Float": 2, "String": 3, "Boolean": 4, "DateTime": 5, "Enum": 6, "JSON": 7}


def _mods_of(text: str) -> List[str]:
    """modules mentioned in an emitted annotation / constructor: dotted prefixes of qualified names"""
    out = []
    for m in re.finditer(r"[A-Za-z_][A-Za-z_0-9]*(?:\.[A-Za-z_][A-Za-z_0-9]*)+", text):
        out.append(m.group(0).rsplit(".", 1)[0])
    return out


def _col(cc) -> list:
    ty = cc.type
    assert ty.startswith("Mapped[") and ty.endswith("]"), ty
    inner = ty[len("Mapped["):-1]
    opt = inner.startswith("typing.Optional[")
    if opt:
        inner = inner[len("typing.Optional["):-1]
    ctor = cc.constructor or ""
    if "JSON" in ctor:
        sql = 2
    elif "String(255), nullable=False" in ctor:
        sql = 3
    elif "String(255)" in ctor:
        sql = 1
    elif ctor == "mapped_column(use_existing_column=True)":
        sql = 0
    else:
        sql = 9
    nullable_arg = 1 if "nullable=True" in ctor else 0
    return [cc.name, int(opt), inner, sql, nullable_arg, sorted(set(_mods_of(ty)))]


def _fk(cc) -> list:
    m = re.search(r"ForeignKey\('([^']+)'", cc.constructor)
    opt = cc.type.startswith("Mapped[typing.Optional[")
    return [cc.name, m.group(1) if m else "?", int(opt), sorted(set(_mods_of(cc.type)))]


def _rel(cc) -> list:
    c = cc.constructor
    tgt = re.search(r"relationship\('([^']+)'", c)
    fks = re.search(r"foreign_keys=\[([^\]]*)\]", c)
    sec = re.search(r"secondary='([^']+)'", c)
    uselist = 0 if "uselist=False" in c else 1
    ann_t = re.search(r"\[([A-Za-z_0-9]+)\]+$", cc.type)
    rem = re.search(r"remote_side='([^']+)'", c)
    joins = re.search(r"secondary='[^']+'(.*), cascade=", c)
    return [cc.name, tgt.group(1) if tgt else "?", uselist, fks.group(1) if fks else "", sec.group(1) if sec else "",
            ann_t.group(1) if ann_t else "?", sorted(set(_mods_of(cc.type))), rem.group(1) if rem else "",
            joins.group(1) if joins else ""]


def inspect_ormatic(o) -> dict:
    tables = []
    for wc, t in o.wrapped_tables.items():
        pk = t.primary_key
        m = re.search(r"ForeignKey\(([^)]+)\)", pk.constructor)
        tables.append({
            "cls": t.wrapped_clazz.clazz.__name__, "module": t.wrapped_clazz.clazz.__module__,
            "tablename": t.tablename, "base": t.base_class_name,
            "pk": [pk.name, m.group(1) if m else "", sorted(set(_mods_of(pk.type)))],
            "builtin": [_col(c) for c in t.builtin_columns], "custom": [_col(c) for c in t.custom_columns],
            "fks": [_fk(c) for c in t.foreign_keys], "rels": [_rel(c) for c in t.relationships],
            "mapper": [[k, v] for k, v in t.mapper_args.items()],
        })
    assoc = [[a.name, a.left_foreign_key, a.left_primary_key, a.right_foreign_key, a.right_primary_key,
              a.left_table_name, a.right_table_name] for a in o.association_tables]
    return {"tables": tables, "assoc": assoc, "imports": list(o.imported_modules)}


def _rel_fk_cols(r, tab) -> List[str]:
    """foreign-key columns of `tab` that the relationship synchronises (whatever direction SQLAlchemy chose)"""
    out = set()
    for a, b in r.local_remote_pairs:
        for c in (a, b):
            if c.table is tab and c.foreign_keys and not c.primary_key:
                out.add(c.name)
    return sorted(out)


def inspect_mappers(im, classes_by_name) -> list:
    """canonical observation of what SQLAlchemy made of the generated module"""
    from sqlalchemy import inspect as sa_inspect
    Base = im.Base
    mappers = list(Base.registry.mappers)
    by_table = {m.local_table.name: m for m in mappers}
    dao_to_cls = {}
    for m in mappers:
        oc = m.class_.original_class()
        dao_to_cls[m.class_.__name__] = oc.__module__ + "." + oc.__name__ if oc.__name__ not in classes_by_name or classes_by_name[oc.__name__] is not oc else oc.__name__
    mapped_tables = {m.local_table.name for m in mappers}
    assoc = {n: t for n, t in Base.metadata.tables.items() if n not in mapped_tables}
    out = []
    for m in mappers:
        tab = m.local_table
        parent = m.inherits
        disc = m.polymorphic_on.name if m.polymorphic_on is not None else ""
        fkcols = {}
        for c in tab.columns:
            for fk in c.foreign_keys:
                fkcols[c.name] = fk.target_fullname
        cols = []
        for c in tab.columns:
            if c.primary_key or c.name in fkcols:
                continue
            if c.name == disc and parent is None:
                continue
            tn = type(c.type).__name__
            en = c.type.enum_class.__name__ if tn == "Enum" and c.type.enum_class is not None else ""
            cols.append([c.name, TYPECODE.get(tn, 99), en, int(bool(c.nullable))])
        refs, colls = [], []
        for r in m.relationships:
            if r.parent is not m:
                continue
            tgt = dao_to_cls.get(r.mapper.class_.__name__, "?" + r.mapper.class_.__name__)
            if r.secondary is not None:
                sec = r.secondary
                tg = sorted(fk.target_fullname for c in sec.columns for fk in c.foreign_keys)
                want = sorted([f"{tab.name}.database_id", f"{r.mapper.local_table.name}.database_id"])
                ok = int(sec.name in assoc and tg == want and len(sec.columns) == 2 and bool(r.uselist))
                colls.append([r.key, tgt, ok])
            else:
                loc = _rel_fk_cols(r, tab)
                ok = int((not r.uselist) and len(loc) == 1 and fkcols.get(loc[0]) == f"{r.mapper.local_table.name}.database_id"
                         and bool(tab.columns[loc[0]].nullable))
                refs.append([r.key, tgt, ok])
        # foreign-key columns not used by a relationship of this class (other than the inheritance key)
        used = {n for r in m.relationships if r.parent is m and r.secondary is None for n in _rel_fk_cols(r, tab)}
        stray = sorted(n for n in fkcols if n not in used and not tab.columns[n].primary_key)
        # attributes under which SQLAlchemy silently combines a column of this table with a column of an ancestor's table
        # (other than the shared key): a write to one field then also writes the other
        for prop in m.column_attrs:
            if len(prop.columns) > 1 and prop.key != "database_id" and any(c.table is tab for c in prop.columns) \
                    and any(c.table is not tab for c in prop.columns):
                stray.append("&" + prop.key)
        stray = sorted(stray)
        pkcols = [c.name for c in tab.primary_key.columns]
        inh_ok = 1
        if parent is not None:
            pkfk = [fk.target_fullname for c in tab.primary_key.columns for fk in c.foreign_keys]
            inh_ok = int(pkfk == [f"{parent.local_table.name}.database_id"])
        out.append([dao_to_cls[m.class_.__name__], m.class_.__name__, tab.name,
                    dao_to_cls[parent.class_.__name__] if parent is not None else "",
                    int(disc != ""), int(m.polymorphic_identity == tab.name) if m.polymorphic_identity is not None else 2,
                    int(pkcols == ["database_id"]) * inh_ok,
                    sorted(cols), sorted(refs), sorted(colls), stray])
    out.sort()
    unused_assoc = sorted(n for n in assoc if not any(r.secondary is assoc[n] for m in mappers for r in m.relationships))
    return [out, unused_assoc]


def runner_main(argv) -> int:
    """python -m harness.c06 --run <dir> <variant>   (variant: 'a' = order as given, 's' = shuffled order of the descr)"""
    import importlib
    d_dir, variant = argv[0], argv[1]
    sys.path.insert(0, d_dir)
    d = json.load(open(os.path.join(d_dir, "descr.json")))
    out: Dict[str, Any] = {"stage": "start"}
    try:
        from krrood.class_diagrams.class_diagram import ClassDiagram
        from krrood.ormatic.ormatic import ORMatic
        m = importlib.import_module(d["module"])
        order = d["order"] if variant != "s" else d["order_shuffled"]
        classes = [getattr(m, n) for n in order]
        by_name = {n: getattr(m, n) for n in d["order"]}
        out["stage"] = "diagram"
        cd = ClassDiagram(classes)
        out["stage"] = "ormatic"
        o = ORMatic(cd)
        o.make_all_tables()
        out["gen"] = inspect_ormatic(o)
        out["stage"] = "render"
        path = os.path.join(d_dir, f"{d['module']}_iface_{variant}.py")
        with open(path, "w") as f:
            o.to_sqlalchemy_file(f)
        text = open(path).read()
        out["text_sha"] = hashlib.sha1(text.encode()).hexdigest()
        if variant == "h":      # determinism run: only the file text matters
            out["stage"] = "ok"
        else:
            out["stage"] = "import"
            im = importlib.import_module(f"{d['module']}_iface_{variant}")
            from sqlalchemy.orm import configure_mappers
            out["stage"] = "configure"
            configure_mappers()
            from sqlalchemy import create_engine
            out["stage"] = "create_all"
            e = create_engine("sqlite:///:memory:")
            im.Base.metadata.create_all(e)
            out["stage"] = "inspect"
            out["obs"] = inspect_mappers(im, by_name)
            out["stage"] = "ok"
    except BaseException as ex:  # noqa
        out["error"] = type(ex).__name__ + ": " + str(ex)[:300].replace("\n", " ")
    # ---- purity of generation: further generations IN THIS INTERPRETER over the same class objects must reproduce the
    # first one exactly (byte-identical file, identical containers), whatever was generated before in the process
    if "text_sha" in out and variant == "a":
        reps = []

        def again(tag, cls_list, diagram=None):
            from krrood.class_diagrams.class_diagram import ClassDiagram
            from krrood.ormatic.ormatic import ORMatic
            rec = {"step": tag}
            try:
                o2 = ORMatic(diagram if diagram is not None else ClassDiagram(list(cls_list)))
                o2.make_all_tables()
                g2 = inspect_ormatic(o2)
                p2 = os.path.join(d_dir, f"{d['module']}_iface_{variant}_{tag}.py")
                with open(p2, "w") as f:
                    o2.to_sqlalchemy_file(f)
                rec["text_sha"] = hashlib.sha1(open(p2).read().encode()).hexdigest()
                rec["gen"] = g2
            except BaseException as ex:  # noqa
                rec["error"] = type(ex).__name__ + ": " + str(ex)[:200].replace("\n", " ")
            return rec
        plan = ["instance"] + [x for x in d.get("repeat", ["same", "shared"]) if x != "instance"]
        try:
            for k, step in enumerate(plan):
                if step == "same":          # fresh ClassDiagram + fresh ORMatic, same classes, same order
                    r2 = again(f"r{k}", classes)
                    same = r2.get("text_sha") == out["text_sha"] and r2.get("gen") == out["gen"]
                    reps.append({"step": step, "same": same, "text_sha": r2.get("text_sha"), "error": r2.get("error"),
                                 "gen": None if same else r2.get("gen")})
                elif step == "instance":    # the SAME ORMatic instance: make_all_tables() and to_sqlalchemy_file() once more
                    rec2 = {}
                    try:
                        o.make_all_tables()
                        g2 = inspect_ormatic(o)
                        p2 = os.path.join(d_dir, f"{d['module']}_iface_{variant}_i{k}.py")
                        with open(p2, "w") as f:
                            o.to_sqlalchemy_file(f)
                        rec2["text_sha"] = hashlib.sha1(open(p2).read().encode()).hexdigest()
                        rec2["gen"] = g2
                    except BaseException as ex:  # noqa
                        rec2["error"] = type(ex).__name__ + ": " + str(ex)[:200].replace("\n", " ")
                    same = rec2.get("text_sha") == out["text_sha"] and rec2.get("gen") == out["gen"]
                    reps.append({"step": step, "same": same, "text_sha": rec2.get("text_sha"), "error": rec2.get("error"),
                                 "gen": None if same else rec2.get("gen")})
                elif step == "shared":      # a second ORMatic over the SAME ClassDiagram instance
                    r2 = again(f"s{k}", classes, diagram=cd)
                    same = r2.get("text_sha") == out["text_sha"] and r2.get("gen") == out["gen"]
                    reps.append({"step": step, "same": same, "text_sha": r2.get("text_sha"), "error": r2.get("error"),
                                 "gen": None if same else r2.get("gen")})
                elif step == "other":       # a DIFFERENT model in between: other classes first, these classes reversed
                    om = importlib.import_module("c06_other")
                    r2 = again(f"o{k}", [om.Qq, om.Pp] + list(reversed(classes)))
                    reps.append({"step": step, "same": True, "text_sha": r2.get("text_sha"), "error": None})
        except BaseException as ex:  # noqa
            reps.append({"step": "?", "same": False, "error": type(ex).__name__ + ": " + str(ex)[:200]})
        out["repeat"] = reps
    print("RESULT " + json.dumps(out))
    return 0


# ------------------------------------------------------------------------------------------------
# case -> Gallina, outcomes -> canonical nested ints
# ------------------------------------------------------------------------------------------------
HEADER = """From Coq Require Import List String ZArith.
From Krrood Require Import Base.Sx Orm.SchemaStr Orm.SchemaSpec Gen.ParseField Orm.Schema Orm.SchemaProofs.
Import ListNotations. Open Scope string_scope."""
HEADER_SPEC = """From Coq Require Import List String ZArith.
From Krrood Require Import Base.Sx Orm.SchemaStr Orm.SchemaSpec.
Import ListNotations. Open Scope string_scope."""


def gstr(s: str) -> str:
    assert all(32 <= ord(ch) < 127 and ch != '"' for ch in s), s
    return '"' + s + '"'


def gstrs(xs) -> str:
    return "[" + "; ".join(gstr(x) for x in xs) + "]"


def ep_term(d, ep) -> str:
    kind, name = ep
    if kind == "b":
        return "EB " + {"int": "BInt", "float": "BFloat", "str": "BStr", "bool": "BBool", "datetime": "BDatetime"}[name]
    if kind == "e":
        return f"EEnum {gstr(d['module'] + '_e')} {gstr(name)}"
    return f"ECls {gstr(name)}"


def model_term(d) -> str:
    by = {c["name"]: c for c in d["classes"]}
    cs = []
    for n in d["order"]:
        c = by[n]
        fs = []
        for f in c["fields"]:
            sh = {"plain": "SPlain", "opt": "SOpt", "list": "SList", "set": "SSet"}[f["shape"]]
            fs.append(f"{{| f_name := {gstr(f['name'])}; f_shape := {sh}; f_ep := {ep_term(d, f['ep'])}; "
                      f"f_default := {'true' if f.get('default', True) else 'false'} |}}")
        cs.append(f"{{| c_name := {gstr(n)}; c_module := {gstr(d['module'])}; c_bases := {gstrs(chain(d, n))}; "
                  f"c_fields := [{'; '.join(fs)}] |}}")
    return "[" + ";\n   ".join(cs) + "]"


def E(s: str) -> list:
    return [ord(ch) for ch in s]


def Eset(xs) -> list:
    return [list(t) for t in sorted({tuple(E(x)) for x in xs})]


def enc_gen(g) -> list:
    def col(c):
        return [E(c[0]), c[1], E(c[2]), c[3], c[4], Eset(c[5])]
    tabs = []
    for t in g["tables"]:
        tabs.append([E(t["cls"]), E(t["module"]), E(t["tablename"]), E(t["base"]),
                     [E(t["pk"][0]), E(t["pk"][1]), Eset(t["pk"][2])],
                     [col(c) for c in t["builtin"]], [col(c) for c in t["custom"]],
                     [[E(k[0]), E(k[1]), k[2], Eset(k[3])] for k in t["fks"]],
                     [[E(r[0]), E(r[1]), r[2], E(r[3]), E(r[4]), E(r[5]), Eset(r[6]), E(r[7]), E(r[8])] for r in t["rels"]],
                     [[E(k), E(v)] for k, v in t["mapper"]]])
    return [0, Eset(g["imports"]), [[E(x) for x in a] for a in g["assoc"]], tabs]


def canon_gen(enc) -> list:
    """order-insensitive form of (A): tables and association tables sorted"""
    return [enc[0], enc[1], sorted(enc[2]), sorted(enc[3])]


def enc_obs(res) -> list:
    if res.get("stage") == "ormatic" and (res.get("error") or "").startswith("ValueError:"):
        return [2]          # refused at generation with an error naming the clash (bd9b8e0)
    if res.get("stage") != "ok" or "obs" not in res:
        return [0]
    classes, unused = res["obs"]
    out = []
    for (cls, dao, tab, parent, disc, ident, pkok, cols, refs, colls, stray) in classes:
        out.append([E(cls), E(parent), disc, ident, pkok,
                    sorted([E(c[0]), c[1], E(c[2]), c[3]] for c in cols),
                    sorted([E(r[0]), E(r[1]), r[2]] for r in refs),
                    sorted([E(r[0]), E(r[1]), r[2]] for r in colls),
                    sorted(E(x) for x in stray)])
    return [1, sorted(out), sorted(E(x) for x in unused)]


def D(x):
    """decode char-code lists back to strings for display"""
    if isinstance(x, list):
        if x and all(isinstance(i, int) and not isinstance(i, bool) and 32 <= i < 127 for i in x):
            return "".join(chr(i) for i in x)
        return [D(i) for i in x]
    return x


# ------------------------------------------------------------------------------------------------
# input classes (mirrors of the Coq predicates, used only to label cases / pick known-finding classes)
# ------------------------------------------------------------------------------------------------
def chain(d, name) -> List[str]:
    by = {c["name"]: c for c in d["classes"]}
    out = []
    b = by[name]["base"]
    while b:
        out.append(b)
        b = by[b]["base"]
    return out


def is_mapped_cls(c) -> bool:
    return c.get("mapped", True)


def mapped_parent(d, name) -> Optional[str]:
    """first mapped class on the MRO (what WrappedTable.parent_table resolves to)"""
    by = {c["name"]: c for c in d["classes"]}
    for a in chain(d, name):
        if is_mapped_cls(by[a]):
            return a
    return None


def has_unmapped_intermediate(d) -> bool:
    by = {c["name"]: c for c in d["classes"]}
    return any(is_mapped_cls(c) and c["base"] and not is_mapped_cls(by[c["base"]]) and mapped_parent(d, c["name"]) for c in d["classes"])


def parents_first(d, order) -> bool:
    seen = set()
    for n in order:
        p = mapped_parent(d, n)
        if p and p not in seen:
            return False
        seen.add(n)
    return True


def own_public(d, c) -> list:
    by = {x["name"]: x for x in d["classes"]}
    inh = {f["name"] for a in chain(d, c["name"]) for f in by[a]["fields"]}
    return [f for f in c["fields"] if f["name"] not in inh and not f["name"].startswith("_")]


def features(d) -> Dict[str, bool]:
    mapped = [c for c in d["classes"] if is_mapped_cls(c)]
    names = {c["name"] for c in mapped}
    ft = {k: False for k in ("K_selfcoll", "K_nobuiltin", "K_fkalias", "K_reserved", "K_pkname", "K_discname", "K_casefold", "K_assocname", "K_inhfkalias", "K_inhrelalias")}
    has_child = {mapped_parent(d, c["name"]) for c in mapped}
    tnames = [(c["name"] + "DAO").lower() for c in mapped]
    any_builtin = False
    for c in mapped:
        own = own_public(d, c)
        onames = [f["name"] for f in own]
        for f in own:
            k, n = f["ep"]
            if k == "b" and n != "datetime" and f["shape"] in ("plain", "opt"):
                any_builtin = True
            if k == "c" and f["shape"] in ("list", "set") and n.lower() == c["name"].lower():
                ft["K_selfcoll"] = True
            if k == "c" and f["shape"] in ("plain", "opt") and n in names and (f["name"] + "_id") in onames:
                ft["K_fkalias"] = True
            if k == "c" and f["shape"] in ("list", "set") and n in names:
                tnames.append(f"{(c['name'] + 'DAO').lower()}_{f['name']}_association".lower())
            if f["name"] == "metadata":
                ft["K_reserved"] = True
            if f["name"] == "database_id":
                ft["K_pkname"] = True
            if f["name"] == "polymorphic_type" and mapped_parent(d, c["name"]) is None and c["name"] in has_child:
                ft["K_discname"] = True
    by = {c["name"]: c for c in d["classes"]}

    def colnames(c):
        out = set()
        for f in own_public(d, c):
            k, n = f["ep"]
            if k == "c" and n in names and f["shape"] in ("plain", "opt"):
                out.add(f["name"] + "_id")
            elif k in ("b", "e"):
                out.add(f["name"])
        return out
    for c in mapped:
        anc = [by[a] for a in chain(d, c["name"]) if is_mapped_cls(by[a])]
        if colnames(c) & set().union(*[colnames(a) for a in anc]) if anc else False:
            ft["K_inhfkalias"] = True
        relnames = {f["name"] for a in anc for f in own_public(d, a) if f["ep"][0] == "c" and f["ep"][1] in names}
        if colnames(c) & relnames:
            ft["K_inhrelalias"] = True      # C06-p: a column / FK column named like a relationship of an ancestor
    low = [c["name"].lower() for c in mapped]
    ft["K_casefold"] = len(set(low)) != len(low)
    ft["K_nobuiltin"] = not any_builtin
    ft["K_assocname"] = (not ft["K_casefold"]) and len(set(tnames)) != len(tnames)
    return ft


def shape_stats(d) -> Dict[str, int]:
    st: Dict[str, int] = {}

    def inc(k):
        st[k] = st.get(k, 0) + 1
    depth = max(len(chain(d, c["name"])) for c in d["classes"])
    inc(f"depth{depth}")
    inc(f"classes{len(d['classes'])}")
    if d["order"] != [c["name"] for c in d["classes"] if is_mapped_cls(c)]:
        inc("order_not_definition")
    if has_unmapped_intermediate(d):
        inc("unmapped_intermediate")
    per_target: Dict[Tuple[str, str], int] = {}
    for c in d["classes"]:
        anc = chain(d, c["name"])
        for f in c["fields"]:
            k, n = f["ep"]
            if f.get("pep604"):
                inc("pep604_optional")
            if f["name"].startswith("_"):
                inc("private")
            elif k == "b":
                inc({"plain": "scalar", "opt": "opt_scalar", "list": "json_list", "set": "json_set"}[f["shape"]] + ("_datetime" if n == "datetime" else ""))
            elif k == "e":
                inc("enum" if f["shape"] == "plain" else "opt_enum")
                if n in d.get("str_enums", []):
                    inc("str_mixin_enum")
            else:
                if f["shape"] in ("list", "set"):
                    inc("coll")
                    per_target[(c["name"], n)] = per_target.get((c["name"], n), 0) + 1
                    if n == c["name"]:
                        inc("coll_self")
                    elif n in anc or c["name"] in chain(d, n):
                        inc("coll_own_hierarchy")
                else:
                    inc("ref" if f["shape"] == "plain" else "opt_ref")
                    if n == c["name"]:
                        inc("ref_self")
                    elif n in anc or c["name"] in chain(d, n):
                        inc("ref_own_hierarchy")
            if any(f["name"] == g["name"] for a in anc for g in next(x for x in d["classes"] if x["name"] == a)["fields"]):
                inc("redeclared_inherited")
    if any(v > 1 for v in per_target.values()):
        inc("several_colls_one_target")
    refs = {(c["name"], f["ep"][1]) for c in d["classes"] for f in c["fields"] if f["ep"][0] == "c"}
    if any((b, a) in refs and a != b for (a, b) in refs):
        inc("mutual")
    if features(d)["K_nobuiltin"]:
        inc("no_builtin_scalar")
    return st


# ------------------------------------------------------------------------------------------------
# generator
# ------------------------------------------------------------------------------------------------
CLASSNAMES = ["Aa", "Bq", "Cart", "Dx", "Eel", "Fig"]
FIELDNAMES = ["a", "b1", "c_x", "dd", "e", "f0", "g_id", "g", "h", "items", "name", "k_", "val"]


def gen_model(rng, idx: int, allow_k: bool) -> dict:
    ncls = rng.choice([1, 2, 2, 3, 3, 3, 4, 4, 5])
    names = rng.sample(CLASSNAMES, ncls)
    enums = ["Col", "Mode"][: rng.randint(0, 2)]
    base: Dict[str, Optional[str]] = {}
    deep = rng.chance(0.5)
    for i, n in enumerate(names):
        if i > 0 and rng.chance(0.55 if deep else 0.25):
            base[n] = names[i - 1] if deep and rng.chance(0.6) else rng.choice(names[:i])
        else:
            base[n] = None
    classes = []
    for n in names:
        nf = rng.randint(0, 5)
        fs = []
        used = set()
        anc_fields = []
        b = base[n]
        while b:
            anc_fields += [f for c in classes if c["name"] == b for f in c["fields"]]
            b = base[b]
        for j in range(nf):
            fname = rng.choice(FIELDNAMES)
            if fname in used:
                continue
            if anc_fields and rng.chance(0.12):
                g = rng.choice(anc_fields)          # redeclare an inherited field (same annotation, as Python requires in practice)
                if g["name"] not in used:
                    used.add(g["name"])
                    fs.append(dict(g))
                continue
            used.add(fname)
            r = rng.random()
            dflt = rng.chance(0.8)
            if r < 0.30:
                f = {"name": fname, "shape": "opt" if rng.chance(0.35) else "plain", "ep": ["b", rng.choice(BUILTINS)]}
            elif r < 0.40 and enums:
                f = {"name": fname, "shape": "opt" if rng.chance(0.4) else "plain", "ep": ["e", rng.choice(enums)]}
            elif r < 0.50:
                f = {"name": fname, "shape": "set" if rng.chance(0.2) else "list", "ep": ["b", rng.choice(["int", "str", "float", "bool"])]}
            elif r < 0.56:
                f = {"name": "_" + fname, "shape": "plain", "ep": ["b", rng.choice(BUILTINS)]}
            elif r < 0.80:
                f = {"name": fname, "shape": "opt" if rng.chance(0.6) else "plain", "ep": ["c", rng.choice(names)]}
                dflt = True if f["shape"] == "opt" else dflt
            else:
                cands = names if allow_k else [x for x in names if x != n]
                if not cands:
                    continue
                f = {"name": fname, "shape": "set" if rng.chance(0.15) else "list", "ep": ["c", rng.choice(cands)]}
                if rng.chance(0.3):                 # several collections of one target
                    f2 = dict(f, name=fname + "2", default=True)
                    if f2["name"] not in used:
                        used.add(f2["name"])
                        fs.append(f2)
            f["default"] = dflt
            if f["shape"] == "opt" and rng.chance(0.3):
                f["pep604"] = True
            fs.append(f)
        classes.append({"name": n, "base": base[n], "fields": fs})
    # an unmapped (not handed to ClassDiagram), field-less dataclass between a class and its base
    if rng.chance(0.3):
        cands = [c for c in classes if c["base"]]
        if cands:
            c = rng.choice(cands)
            mix = {"name": "Mix" + c["name"], "base": c["base"], "fields": [], "mapped": False}
            c["base"] = mix["name"]
            classes.insert(classes.index(c), mix)
    d = {"module": f"c06m_{idx}", "enums": enums, "classes": classes}
    if "Mode" in enums and rng.chance(0.6):
        d["str_enums"] = ["Mode"]
    if not allow_k:
        # keep the model inside F: no x/x_id aliasing (models without any builtin scalar are inside F since b804898)
        for c in classes:
            fnames = {f["name"] for f in c["fields"]}
            c["fields"] = [f for f in c["fields"] if not (f["ep"][0] == "c" and f["shape"] in ("plain", "opt") and f["name"] + "_id" in fnames)]
    order = list(names)
    if rng.chance(0.7):
        rng.shuffle(order)
    d["order"] = order
    sh = list(names)
    rng.shuffle(sh)
    d["order_shuffled"] = sh
    # generations repeated in the same interpreter: always one more; for some models a third one, also after another model
    d["repeat"] = rng.choice([["same", "shared"], ["shared", "same"], ["shared"], ["same", "same"], ["other", "same", "shared"],
                              ["same", "other", "shared"], ["shared", "other", "same"]])
    return d


# ------------------------------------------------------------------------------------------------
# running cases
# ------------------------------------------------------------------------------------------------
OTHER_SOURCE = """from __future__ import annotations
from dataclasses import dataclass, field
from typing import List, Optional


@dataclass(eq=False, kw_only=True)
class Pp:
    n: int = 0
    q: Optional[Qq] = None


@dataclass(eq=False, kw_only=True)
class Qq:
    s: str = ''
    ps: List[Pp] = field(default_factory=list)
"""


def prepare(d) -> Path:
    cd = case_dir(d)
    if cd.exists():
        shutil.rmtree(cd)
    cd.mkdir(parents=True)
    es, cs = render_source(d)
    (cd / f"{d['module']}_e.py").write_text(es)
    (cd / f"{d['module']}.py").write_text(cs)
    (cd / "descr.json").write_text(json.dumps(d))
    (cd / "c06_other.py").write_text(OTHER_SOURCE)
    return cd


def run_variant(args) -> dict:
    from . import core
    cd, variant, hashseed = args
    env = dict(core.IMPL_ENV, PYTHONHASHSEED=str(hashseed), PYTHONDONTWRITEBYTECODE="1")
    try:
        p = subprocess.run([core.PY, "-m", "harness.c06", "--run", str(cd), variant], stdout=subprocess.PIPE, stderr=subprocess.PIPE,
                           text=True, env=env, timeout=300, cwd=str(core.VERIF))
    except subprocess.TimeoutExpired:
        return {"stage": "timeout", "error": "timeout"}
    lines = [l for l in p.stdout.splitlines() if l.startswith("RESULT ")]
    if not lines:
        return {"stage": "crash", "error": (p.stderr or p.stdout)[-400:]}
    return json.loads(lines[-1][7:])


def snippet(d) -> str:
    return (f"# from /verif:  PYTHONPATH=/repo/src:/repo:/verif PYTHONHASHSEED=0 /venv/bin/python - <<'EOF'\n"
            f"from harness import c06; import json\nd = json.loads({json.dumps(json.dumps(d))})\n"
            f"cd = c06.prepare(d); print(c06.run_variant((cd, 'a', 0)))\nEOF")


def evaluate(rep, descrs: List[dict], model_ok: bool, label: str, det_fraction: float, rng) -> List[dict]:
    """run implementation + model + spec on the given models; returns one record per case"""
    from . import core
    jobs = []
    dirs = []
    for i, d in enumerate(descrs):
        cd = prepare(d)
        dirs.append(cd)
        jobs.append((cd, "a", 0))
    det = [i for i in range(len(descrs)) if rng.chance(det_fraction)]
    for i in det:
        jobs.append((dirs[i], "h", 1000 + rng.randint(1, 10 ** 6)))
        jobs.append((dirs[i], "s", 2000 + rng.randint(1, 10 ** 6)))
    with ThreadPoolExecutor(max_workers=14) as ex:
        results = list(ex.map(run_variant, jobs))
    main_res = results[:len(descrs)]
    det_res = {}
    k = len(descrs)
    for i in det:
        det_res[i] = (results[k], results[k + 1])
        k += 2
    # model / spec
    exprs = []
    for d, r in zip(descrs, main_res):
        order = [t["cls"] for t in r["gen"]["tables"]] if "gen" in r else [c["name"] for c in d["classes"] if is_mapped_cls(c)]
        if model_ok:
            exprs.append(f"let M := {model_term(d)} in let o := {gstrs(order)} in\n"
                         f"   SL [case_gen M o; case_obs M o; case_spec M; case_info M o]")
        else:
            exprs.append(f"let M := {model_term(d)} in SL [SL []; SL []; spec_obs_r (fun n => n ++ \"DAO\")%string (fun t f => py_lower t ++ \"_\" ++ f ++ \"_association\")%string M; SL []]")
    vals = core.coq_values(PROP, HEADER if model_ok else HEADER_SPEC, exprs, chunk=max(1, (len(exprs) + 15) // 16), tag=f"{label}_{RUN_TAG}")
    recs = []
    for i, (d, r, v) in enumerate(zip(descrs, main_res, vals)):
        recs.append({"d": d, "res": r, "model_gen": v[0], "model_obs": v[1], "spec_obs": v[2], "info": v[3],
                     "det": det_res.get(i)})
    return recs


def classify(impl, model, spec) -> int:
    if impl == spec:
        return 0 if model == spec else 1
    return 2 if impl == model else 3


KCLASS_ORDER = ["K_casefold"]   # the only open class inside the Coq grammar; a, c, d, e, f, h are repaired (c757abc, bd9b8e0), b (b804898), i (280300b)


MAX_REPLAYS = 6


def judge(rep, rec, model_ok: bool, findings_seen: Dict[str, int], quiet_known=False) -> str:
    """decide one case; returns a label (at most MAX_REPLAYS replays are written per run, further failures are counted)"""
    if len(rep.violations) >= MAX_REPLAYS:
        class Quiet:
            obligations = rep.obligations

            def violation(self, *a, **k):
                rep.extra["further_failing_cases"] = rep.extra.get("further_failing_cases", 0) + 1

            def oblige(self, *a, **k):
                pass
        return _judge(Quiet(), rec, model_ok, findings_seen)
    return _judge(rep, rec, model_ok, findings_seen)


def _judge(rep, rec, model_ok: bool, findings_seen: Dict[str, int]) -> str:
    d, r = rec["d"], rec["res"]
    ft = features(d)
    kclasses = [k for k in KCLASS_ORDER if ft[k]]
    impl_obs = enc_obs(r)
    spec = rec["spec_obs"]
    base = {"case": d, "impl_stage": r.get("stage"), "impl_error": r.get("error"), "python": snippet(d),
            "classes_outside_F": kclasses}
    if r.get("stage") in ("crash", "timeout", "start", "diagram", "ormatic") and not kclasses and impl_obs != [2]:
        rep.violation(dict(base, kind="counterexample", explanation="generation itself failed on a model of the supported grammar"))
        return "violation"
    stale = False
    if model_ok:
        wf_m, topo_ok, schema_ok = rec["info"]
        if "gen" in r:
            impl_gen = enc_gen(r["gen"])
            if impl_gen != rec["model_gen"]:
                # the Gallina model no longer describes the generator; fall back to implementation vs Spec for this case
                stale = True
                base["generator_vs_model"] = {"impl": D(impl_gen), "model": D(rec["model_gen"])}
                if not any(o.name == "correspondence:model" and not o.ok for o in rep.obligations):
                    rep.oblige("correspondence:model", False, f"ORMatic's tables/columns/association tables/imports differ from the Gallina model, first on {d['module']}")
            elif not topo_ok:
                rep.violation(dict(base, kind="counterexample", impl=D(impl_gen),
                                   explanation="tables are not one per class in a topological order of the inheritance graph (direct mapped base and first mapped class of the MRO before the class)"))
                return "violation"
    if model_ok and not stale:
        code = classify(impl_obs, rec["model_obs"], spec)
    else:
        code = 0 if impl_obs == spec else 3
    if code == 0:
        if stale:
            return "stale-model"
        if model_ok and not kclasses and not (wf_m and schema_ok):
            rep.oblige("correspondence:wf", False, f"{d['module']}: impl=spec but wfM={wf_m} schema_wf={schema_ok}")
        return "ok"
    if code == 1:
        rep.oblige("correspondence:model", False, f"model prediction of the mapped layer differs from impl=spec on {d['module']}")
        rep.violation(dict(base, kind="model-mismatch", impl=D(impl_obs), model=D(rec["model_obs"]), spec=D(spec)))
        return "violation"
    if code == 2 and kclasses:
        findings_seen[kclasses[0]] = findings_seen.get(kclasses[0], 0) + 1
        return "known:" + kclasses[0]
    rep.violation(dict(base, kind="counterexample", impl=D(impl_obs), model=D(rec["model_obs"]) if model_ok else None, spec=D(spec),
                       explanation="the mapped layer SQLAlchemy builds from the generated module differs from what the annotations call for "
                                   "([0] = import/configure_mappers/create_all failed, [2] = refused at generation with a ValueError naming a name clash). entry: [class, parent, discriminator, identity, pk ok, "
                                   "columns[name,type code,enum,nullable], references[name,target,ok], collections[name,target,ok], stray fk columns]"))
    return "violation"


def judge_determinism(rep, rec, findings_seen=None) -> bool:
    if not rec["det"]:
        return True
    if len(rep.violations) >= MAX_REPLAYS:
        return True
    d, r = rec["d"], rec["res"]
    h, s = rec["det"]
    ok = True
    if "text_sha" in r and h.get("text_sha") != r.get("text_sha"):
        rep.violation({"kind": "counterexample", "case": d, "python": snippet(d),
                       "explanation": f"non-deterministic generation: file text differs between two fresh processes with different PYTHONHASHSEED "
                                      f"({r.get('text_sha')} vs {h.get('text_sha')}, second stage={h.get('stage')} {h.get('error')})"})
        ok = False
    if "gen" in r and ("gen" not in s or canon_gen(enc_gen(s["gen"])) != canon_gen(enc_gen(r["gen"])) or enc_obs(s) != enc_obs(r)):
        rep.violation({"kind": "counterexample", "case": d, "python": snippet(d),
                       "explanation": "generation depends on the order in which the classes are handed to ClassDiagram: tables / mapped layer differ "
                                      f"for order {d['order']} and {d['order_shuffled']}"})
        ok = False
    return ok


def judge_repeat(rep, rec) -> bool:
    """generation is a function of the classes: every further generation in the same interpreter reproduces the first"""
    d, r = rec["d"], rec["res"]
    reps = r.get("repeat")
    if reps is None:
        return True
    rep.extra["same_process_regenerations"] = rep.extra.get("same_process_regenerations", 0) + len([x for x in reps if x["step"] in ("same", "shared", "instance")])
    bad = [x for x in reps if not x.get("same")]
    if not bad:
        return True
    if len(rep.violations) >= MAX_REPLAYS:
        rep.extra["further_failing_cases"] = rep.extra.get("further_failing_cases", 0) + 1
        return False
    b = bad[0]
    diff = None
    if b.get("gen") and "gen" in r:
        first = {t["cls"]: t for t in r["gen"]["tables"]}
        diff = [{"class": t["cls"], "first": {k: first[t["cls"]][k] for k in ("builtin", "custom", "fks", "rels", "mapper")},
                 "again": {k: t[k] for k in ("builtin", "custom", "fks", "rels", "mapper")}}
                for t in b["gen"]["tables"] if t["cls"] in first and t != first[t["cls"]]][:3]
    rep.violation({"kind": "counterexample", "case": d, "python": snippet(d), "repeat_plan": ["instance"] + d.get("repeat", ["same", "shared"]),
                   "steps": [{k: v for k, v in x.items() if k != "gen"} for x in reps], "first_text_sha": r.get("text_sha"),
                   "tables_that_differ": diff,
                   "explanation": "generation is not a function of the model: a further generation in the SAME interpreter ('instance' = make_all_tables() "
                                  "and to_sqlalchemy_file() again on the same ORMatic instance, 'same' = fresh ClassDiagram and fresh ORMatic over the same class "
                                  "objects, 'shared' = a second ORMatic over the same ClassDiagram; step '%s' of the plan) does not reproduce the first one "
                                  "(file text and/or ORMatic containers differ; error=%s)" % (b.get("step"), b.get("error"))})
    return False


def load_corpus() -> List[Tuple[str, dict]]:
    from . import core
    out = []
    cdir = core.VERIF / "corpus" / PROP
    if cdir.is_dir():
        for f in sorted(cdir.glob("*.json")):
            j = json.loads(f.read_text())
            if "scenario" not in j:
                out.append((f.name, j))
    return out


# ------------------------------------------------------------------------------------------------
# free-form scenarios: model shapes outside the Coq grammar (nested classes, namesake classes in two modules, PEP 604
# optionals, inheritance_strategy=SINGLE).  A scenario carries its source files; the implementation is run on it in a
# fresh subprocess and the outcome is compared with an independent reading of the dataclasses (one DAO per class, an
# attribute for every own public field).  For an open finding the recorded defect behaviour (stage, error type) must match.
# ------------------------------------------------------------------------------------------------
def load_scenarios() -> List[Tuple[str, dict]]:
    from . import core
    out = []
    cdir = core.VERIF / "corpus" / PROP
    if cdir.is_dir():
        for f in sorted(cdir.glob("*.json")):
            j = json.loads(f.read_text())
            if "scenario" in j:
                out.append((f.name, j))
    return out


def scenario_main(argv) -> int:
    """python -m harness.c06 --scenario <dir>"""
    import importlib
    import dataclasses
    import typing
    d_dir = argv[0]
    sys.path.insert(0, d_dir)
    sc = json.load(open(os.path.join(d_dir, "scenario.json")))
    out: Dict[str, Any] = {"stage": "start"}
    try:
        from krrood.class_diagrams.class_diagram import ClassDiagram
        from krrood.ormatic.ormatic import ORMatic
        from krrood.ormatic.utils import InheritanceStrategy
        classes = []
        for q in sc["classes"]:
            mod, *path = q.split(".")
            obj = importlib.import_module(mod)
            for part in path:
                obj = getattr(obj, part)
            classes.append(obj)
        out["stage"] = "diagram"
        if sc.get("introspector"):      # a user supplied AttributeIntrospector (public API of krrood.class_diagrams)
            imod, iname = sc["introspector"].rsplit(".", 1)
            cd = ClassDiagram(list(classes), introspector=getattr(importlib.import_module(imod), iname)())
        else:
            cd = ClassDiagram(list(classes))
        out["stage"] = "ormatic"
        o = ORMatic(cd, inheritance_strategy=getattr(InheritanceStrategy, sc.get("strategy", "JOINED")))
        o.make_all_tables()
        out["stage"] = "render"
        path = os.path.join(d_dir, "scn_iface.py")
        with open(path, "w") as f:
            o.to_sqlalchemy_file(f)
        out["stage"] = "import"
        im = importlib.import_module("scn_iface")
        from sqlalchemy.orm import configure_mappers
        out["stage"] = "configure"
        configure_mappers()
        from sqlalchemy import create_engine
        out["stage"] = "create_all"
        im.Base.metadata.create_all(create_engine("sqlite:///:memory:"))
        out["stage"] = "inspect"
        # independent reading: one DAO per distinct class; every own public field has a mapped attribute on it
        problems = []
        mappers = list(im.Base.registry.mappers)
        by_cls = {}
        for m in mappers:
            by_cls.setdefault(m.class_.original_class(), []).append(m)
        for c in dict.fromkeys(classes):
            ms = by_cls.get(c, [])
            if len(ms) != 1:
                problems.append(f"{c.__module__}.{c.__qualname__}: {len(ms)} DAO classes")
                continue
            inherited = {f.name for b in c.__mro__[1:] if dataclasses.is_dataclass(b) for f in dataclasses.fields(b)}
            for f in dataclasses.fields(c):
                if f.name.startswith("_") or f.name in inherited:
                    continue
                if f.name not in ms[0].attrs.keys():
                    problems.append(f"{c.__qualname__}.{f.name}: no mapped attribute")
        # nothing for fields starting with an underscore
        for m in mappers:
            for k in m.attrs.keys():
                if k.startswith("_"):
                    problems.append(f"{m.class_.__name__}.{k}: mapped attribute for an underscore field")
        mapped_tables = {m.local_table.name for m in mappers}
        for n in im.Base.metadata.tables:
            if n not in mapped_tables and "__" in n:
                problems.append(f"association table {n} for an underscore field")
        out["problems"] = problems
        out["stage"] = "ok"
    except BaseException as ex:  # noqa
        out["error_type"] = type(ex).__name__
        out["error"] = str(ex)[:300].replace("\n", " ")
    print("RESULT " + json.dumps(out))
    return 0


def run_scenario(name: str, sc: dict) -> dict:
    from . import core
    cd = core.WORK / PROP / RUN_TAG / ("scn_" + name.replace(".json", ""))
    if cd.exists():
        shutil.rmtree(cd)
    cd.mkdir(parents=True)
    for fn, text in sc["files"].items():
        (cd / fn).write_text(text)
    (cd / "scenario.json").write_text(json.dumps(sc))
    env = dict(core.IMPL_ENV, PYTHONDONTWRITEBYTECODE="1")
    try:
        p = subprocess.run([core.PY, "-m", "harness.c06", "--scenario", str(cd)], stdout=subprocess.PIPE, stderr=subprocess.PIPE,
                           text=True, env=env, timeout=300, cwd=str(core.VERIF))
    except subprocess.TimeoutExpired:
        return {"stage": "timeout"}
    lines = [l for l in p.stdout.splitlines() if l.startswith("RESULT ")]
    return json.loads(lines[-1][7:]) if lines else {"stage": "crash", "error": (p.stderr or p.stdout)[-300:]}


def judge_scenarios(rep, findings) -> None:
    for name, sc in load_scenarios():
        res = run_scenario(name, sc)
        rep.count("scenario:" + name, True)
        if sc.get("expect_refused"):    # a name clash: the repaired behaviour is a ValueError at generation naming it
            good = res.get("stage") == "ormatic" and res.get("error_type") == "ValueError"
        else:
            good = res.get("stage") == "ok" and not res.get("problems")
        fnd = [f for f in findings if f.witness.endswith("/" + name)]
        if fnd and fnd[0].kind == "open":
            exp = sc.get("recorded", {})
            if good:
                rep.note(f"known finding {fnd[0].fid} no longer reproduces on its witness {name}")
            elif res.get("stage") == exp.get("stage") and res.get("error_type") == exp.get("error_type"):
                rep.known(fnd[0])
            else:
                rep.violation({"kind": "counterexample", "scenario": name, "case": sc, "impl": res, "recorded": exp,
                               "python": f"from harness import c06, json; print(c06.run_scenario({name!r}, json.load(open('/verif/corpus/C06/{name}'))))",
                               "explanation": "the scenario fails differently from the recorded defect behaviour of its known finding"})
        elif not good:
            rep.violation({"kind": "counterexample", "scenario": name, "case": sc, "impl": res,
                           "python": f"from harness import c06, json; print(c06.run_scenario({name!r}, json.load(open('/verif/corpus/C06/{name}'))))",
                           "explanation": "expected: the generated layer imports, configures, creates its schema, has exactly one DAO per class and a "
                                          "mapped attribute for every own public field (or, for a scenario marked expect_refused, a ValueError at generation)"})


def run(tier: str, seed: int, replay=None) -> int:
    from . import core
    from translator import t_parsefield
    rep = core.Report(PROP, tier, seed, "other")
    rep.trusted = core.COQ_TRUSTED + [
        "translator/t_parsefield.py (fail-closed ast translator: parse_field chain, relationship predicates, name builders, mapper-arg conditions -> Gen/ParseField.v)",
        "Orm/SchemaStr.v py_lower/py_startswith as the meaning of str.lower()/str.startswith() on ASCII identifiers",
        "hand-written parts of Orm/Schema.v (facts of an annotation, dataclass field inheritance, constructor contents), tied by comparing ORMatic's containers with `gen` on every generated model",
        "source pins pins/ormatic.json (set pins/sets/ormatic.json, 54 methods of ormatic.py / wrapped_table.py / sqlalchemy_generator.py / class_diagram.py / "
        "wrapped_field.py that Orm/Schema.v mirrors and t_parsefield does not regenerate, incl. the absence of a hand-written WrappedTable.__eq__): an edit reopens the correspondence obligation",
        "harness/c06.py: source renderer, regex reading of ColumnConstructor strings, mapper inspection and its canonical encoding",
        "SQLAlchemy / SQLite accept a layer that is statically well-formed: compared on every case, not proved (level: partial)",
    ]
    rep.extra["purity"] = ("C06_generation_is_a_function: in the model `gen` is a Gallina function (same class model and order => same schema, no hidden "
                           "state). The implementation is compared against exactly this: in every per-model worker the layer is generated again "
                           "(first by calling make_all_tables() and to_sqlalchemy_file() once more on the same ORMatic instance, then - for some models "
                           "twice more, and after generating a different model in between - in the SAME interpreter from a fresh ClassDiagram and a fresh ORMatic over "
                           "the same class objects, or from a second ORMatic over the same ClassDiagram); every such generation must give a byte-identical file and "
                           "identical ORMatic containers. Across processes: other PYTHONHASHSEED (byte-identical) and shuffled hand-over order (same tables).")
    rep.assume = ["class and field names are ASCII identifiers; every class is a dataclass with at most one base, bases belong to the model",
                  "rustworkx.topological_sort returns a topological order of the graph it is given: the emission order handed to the model is the observed one and is checked on every case to be a topological order of ORMatic's inheritance graph (impl_order); that every such order is parents-first is C06_impl_order_is_topo"]
    rep.rule = ("random class models (1-5 classes, 0-6 fields each over scalars/Optional/enums/datetime/JSON lists/references/Optional references/"
                "collections/private fields/redeclared inherited fields, inheritance depth 0-3, self and mutual references, several collections of one "
                "target, shuffled hand-over order); one fresh subprocess per model, in which the layer is generated 3-5 times (steps: instance = make_all_tables + to_sqlalchemy_file again on the same ORMatic instance, always; same = fresh ClassDiagram+ORMatic, shared = second ORMatic on the same ClassDiagram, other = a different model in between); distinct = distinct model text; non-trivial = at least one table "
                "with a relationship or inheritance")
    ok_spec, log = core.coq_make(["Base/Sx.vo", "Orm/SchemaSpec.vo"])
    rep.oblige("build:spec", ok_spec, "" if ok_spec else core.first_error(log))
    model_ok = core.standard_proof_steps(
        rep, PROP, ["Props/C06.vo"],
        regen=[("Gen/ParseField.v", lambda: t_parsefield.translate(str(core.REPO)), core.COQ / "Gen" / "ParseField.v")])
    if not model_ok:
        rep.note("model not available; comparing the implementation with the Spec only (search for a failing input)")
    from translator import pins
    pins.oblige(rep, str(core.REPO), "ormatic", "the hand-written generator model Orm/Schema.v (gen, table_of, table_fields, parse_one, facts_of)")
    rng = core.Rng(seed)
    findings_seen: Dict[str, int] = {}
    findings = core.load_findings(PROP)
    t0 = time.time()
    if replay is not None and "scenario" in replay.get("case", {}):
        res = run_scenario(replay.get("scenario", "replay.json"), replay["case"])
        rep.count("scenario-replay", True)
        exp = replay["case"].get("recorded")
        if (res.get("stage") == "ormatic" and res.get("error_type") == "ValueError") if replay["case"].get("expect_refused") \
                else (res.get("stage") == "ok" and not res.get("problems")):
            rep.note("replay: ok")
        elif exp and res.get("stage") == exp.get("stage") and res.get("error_type") == exp.get("error_type") and \
                any(f.kind == "open" and f.witness.endswith("/" + replay.get("scenario", "")) for f in findings):
            for f in findings:
                if f.kind == "open" and f.witness.endswith("/" + replay.get("scenario", "")):
                    rep.known(f)
        else:
            rep.violation({"kind": "counterexample", "scenario": replay.get("scenario"), "case": replay["case"], "impl": res})
        return rep.finish()
    if replay is not None:
        recs = evaluate(rep, [replay["case"]], model_ok, "replay", 1.0, rng.fork(9))
        lab = judge(rep, recs[0], model_ok, findings_seen)
        judge_determinism(rep, recs[0])
        judge_repeat(rep, recs[0])
        rep.count(case_key(recs[0]["d"]), True)
        rep.note(f"replay: {lab}")
        for f in findings:
            if f.kind == "open" and lab == "known:" + f.cls:
                rep.known(f)
        return rep.finish()
    # 1. corpus (witnesses of known findings and of past disagreements)
    corpus = load_corpus()
    by_file = {name: d for name, d in corpus}
    if corpus:
        recs = evaluate(rep, [d for _, d in corpus], model_ok, "corpus", 0.0, rng.fork(1))
        for (name, d), rec in zip(corpus, recs):
            fnd = [f for f in findings if f.witness.endswith("/" + name)]
            seen: Dict[str, int] = {}
            if fnd and fnd[0].kind == "open":
                lab = judge(rep, rec, model_ok, seen)
                if lab == "known:" + fnd[0].cls:
                    rep.known(fnd[0])
                elif lab == "ok":
                    rep.note(f"known finding {fnd[0].fid} no longer reproduces on its witness {name}")
                elif lab.startswith("known:"):
                    rep.note(f"witness {name} of {fnd[0].fid} now falls in class {lab}")
            else:
                lab = judge(rep, rec, model_ok, seen)   # fixed: entries and past disagreements must pass
                if lab.startswith("known:"):
                    rep.violation({"kind": "counterexample", "case": d, "python": snippet(d),
                                   "explanation": f"corpus case {name} is expected to pass but fails ({lab})"})
            judge_repeat(rep, rec)
            rep.count(case_key(d), True)
    judge_scenarios(rep, findings)
    # 2. generated models
    n = {"quick": 56, "thorough": 640}[tier]
    n_k = max(4, n // 8)
    descrs = []
    for i in range(n):
        descrs.append(gen_model(rng.fork(100 + i), i, allow_k=(i < n_k)))
    dist: Dict[str, int] = {}
    labels: Dict[str, int] = {}
    batch = 160
    for k in range(0, len(descrs), batch):
        recs = evaluate(rep, descrs[k:k + batch], model_ok, f"gen{k // batch}", 0.5 if tier == "quick" else 0.25, rng.fork(7 + k))
        for rec in recs:
            d = rec["d"]
            lab = judge(rep, rec, model_ok, findings_seen)
            judge_determinism(rep, rec, findings_seen)
            if not judge_repeat(rep, rec):
                lab = "not-reproducible"
            labels[lab] = labels.get(lab, 0) + 1
            st = shape_stats(d)
            for kk, vv in st.items():
                dist[kk] = dist.get(kk, 0) + 1
            nontrivial = any(f["ep"][0] == "c" for c in d["classes"] for f in c["fields"]) or any(c["base"] for c in d["classes"])
            rep.count(case_key(d), nontrivial)
            if len(rep.samples) < 4 and lab == "ok" and nontrivial:
                rep.samples.append({"case": d, "impl_obs": D(enc_obs(rec["res"]))})
    for f in findings:
        if f.kind == "open" and findings_seen.get(f.cls):
            rep.note(f"{findings_seen[f.cls]} generated model(s) in class {f.cls} ({f.fid}) failed exactly as the model predicts")
    unlisted = [k for k in findings_seen if k not in {f.cls for f in findings if f.kind == "open"}]
    for k in unlisted:
        rep.violation({"kind": "counterexample", "explanation": f"models of class {k} fail and no known finding lists that class"})
    rep.extra["distribution"] = {"models_with_feature": dist, "outcomes": labels, "models": len(descrs)}
    rep.extra["impl_seconds"] = round(time.time() - t0, 1)
    if not rep.violations:
        shutil.rmtree(core.WORK / PROP / RUN_TAG, ignore_errors=True)
    return rep.finish()


if __name__ == "__main__" and len(sys.argv) > 1 and sys.argv[1] == "--run":
    sys.exit(runner_main(sys.argv[2:]))
if __name__ == "__main__" and len(sys.argv) > 1 and sys.argv[1] == "--scenario":
    sys.exit(scenario_main(sys.argv[2:]))
