"""C05 -- persisting to SQL and reloading in a fresh session restores the object graph.

Tie (H): random object graphs over the repository's dataset classes (generator, builder, heap dump and the
identity-tracking bisimulation are those of harness/c04.py) are converted with the real to_dao, added to a Session on
a fresh in-memory SQLite engine made by krrood's create_engine, committed; then loaded with Session.get in a NEW
Session through every DAO class of the root's inheritance chain and converted back with the real from_dao.
Compared: (a) canonical form of the reloaded graph vs. input graph (Spec) vs. model (to_dao; flush; load; from_dao,
Orm/Rows.v + Orm/Persist.v); (b) rows per table and per association table vs. the model's flush; (c) one root row
per object; (d) the results through the different classes of the chain are isomorphic to each other.
The schema handed to the model (parent tables, own data columns, relationship order, which single references SQLAlchemy
inferred as ONETOMANY) is read from the real mappers on every run.
"""
from __future__ import annotations

import json
import os
from typing import Any, Dict, List, Optional, Tuple

from . import core, c04
from .core import Report

PROP = "C05"
HEADER = """From Coq Require Import List ZArith Bool.
From Krrood Require Import Base.Sx Orm.ObjGraph Orm.Iso Orm.ObjGraphWalk Orm.IsoCanon Orm.ToDao Orm.FromDao Orm.RoundTrip Orm.Rows Orm.Persist.
Import ListNotations."""
HEADER_SPEC = c04.HEADER_SPEC
SYMBOL_ID = 999

_SCHEMA: Dict[str, Any] = {}

# The DAO layer is regenerated from the working tree on every run (what test/conftest.py does before the test session),
# so that wrapped_table.py / ormatic.py / the Jinja template are inside the compared behaviour, not only dao.py.
_GEN_SCRIPT = r"""
import sys, uuid
import sqlalchemy
from dataclasses import is_dataclass
from types import FunctionType
from sqlalchemy import JSON
import test.conftest as c
import krrood.entity_query_language.symbol_graph
from krrood.ormatic.dao import AlternativeMapping
symbol_graph = c.SymbolGraph()
all_classes = {x.clazz for x in symbol_graph._class_diagram.wrapped_classes}
all_classes |= {am.original_class() for am in c.recursive_subclasses(AlternativeMapping)}
all_classes |= set(c.classes_of_module(krrood.entity_query_language.symbol_graph))
all_classes |= set(c.classes_of_module(c.example_classes))
all_classes |= {c.Symbol}
all_classes -= {c.HasType, c.HasTypes, c.ContainsType}
all_classes -= {c.NotMappedParent, c.ChildNotMapped, c.JSONSerializableClass}
all_classes = {x for x in all_classes if is_dataclass(x) and not issubclass(x, AlternativeMapping)}
all_classes |= {FunctionType}
diagram = c.ClassDiagram(list(sorted(all_classes, key=lambda x: x.__name__, reverse=True)))
instance = c.ORMatic(class_dependency_graph=diagram,
                     type_mappings={c.PhysicalObject: c.ConceptType, uuid.UUID: sqlalchemy.UUID, c.JSONSerializableClass: JSON},
                     alternative_mappings=c.recursive_subclasses(AlternativeMapping))
instance.make_all_tables()
with open(sys.argv[1], "w") as f:
    instance.to_sqlalchemy_file(f)
"""


def regen_interface() -> str:
    """Generate the SQLAlchemy layer of the dataset with the working tree's ORMatic into work/C05/ and make it the
    DAO layer of this process.  Returns a short description; raises if generation or import fails."""
    import importlib.util
    import sys
    d = core.WORK / PROP
    d.mkdir(parents=True, exist_ok=True)
    out = d / "verif_gen_ormatic_interface.py"
    script = d / "gen_interface.py"
    script.write_text(_GEN_SCRIPT)
    if out.exists():
        out.unlink()
    rc, log = core.sh([core.PY, str(script), str(out)], cwd=str(core.VERIF), timeout=600, env=core.IMPL_ENV)
    if rc != 0 or not out.exists():
        raise RuntimeError("ORMatic could not generate the dataset layer: " + log.strip()[-400:])
    spec = importlib.util.spec_from_file_location("verif_gen_ormatic_interface", out)
    mod = importlib.util.module_from_spec(spec)
    sys.modules["verif_gen_ormatic_interface"] = mod
    spec.loader.exec_module(mod)
    c04.INTERFACE_MODULE = "verif_gen_ormatic_interface"
    committed = core.REPO / "test" / "dataset" / "ormatic_interface.py"
    same = committed.exists() and committed.read_text() == out.read_text()
    return f"{out.relative_to(core.VERIF)} ({'identical to' if same else 'DIFFERS from'} the committed test/dataset/ormatic_interface.py)"


def tag5(t: int) -> int:
    """C05 tag of a C04 tag: 2*t (+1 for a collection) -- Rows.is_coll is Z.odd."""
    inv = {v: k for k, v in c04.TAGS.t.items()}
    return 2 * t + (1 if inv[t][1] == "many" else 0)


def dao_level_id(cn: str) -> int:
    return SYMBOL_ID if cn == "Symbol" else c04.CLASS_ID[c04.ALT.get(cn, cn)]


def read_schema() -> Dict[str, Any]:
    """Schema of the generated DAO layer as the real mappers have it (the tie for Orm/Rows.v's parameters)."""
    if _SCHEMA:
        return _SCHEMA
    import sqlalchemy
    from krrood.ormatic.dao import get_dao_class, is_data_column
    from test.dataset import example_classes as ex
    c04.setup_impl()
    Base = c04.interface().Base
    parent, ncols, fields, selfref, tables, assoc = {}, {}, {}, set(), {}, {}
    todo = [cn for cn in c04.SCAL if cn not in c04.ALT.values() and not cn.startswith("_")]
    seen = set()
    for cn in todo:
        dao = get_dao_class(c04.class_of(cn))
        chain = [c for c in dao.__mro__ if isinstance(c, type) and issubclass(c, Base) and c is not Base]
        for i, c in enumerate(chain):
            oc = c.original_class().__name__
            cid = SYMBOL_ID if oc == "Symbol" else c04.CLASS_ID.get(oc)
            if cid is None:
                raise RuntimeError(f"DAO {c.__name__} in the chain of {cn} wraps {oc}, unknown to the class table")
            if cid in seen:
                continue
            seen.add(cid)
            tables[cid] = c.__tablename__
            ncols[cid] = len([col for col in c.__table__.columns if is_data_column(col)])
            if i + 1 < len(chain):
                poc = chain[i + 1].original_class().__name__
                parent[cid] = SYMBOL_ID if poc == "Symbol" else c04.CLASS_ID[poc]
        m = sqlalchemy.inspect(dao)
        known = {c04.DAOKEY.get((cn, f), f.lstrip("_")): (f, kind) for f, kind, _t, _o in c04.REFS.get(cn, [])}
        tags = []
        for r in m.relationships:
            if r.key not in known:
                raise RuntimeError(f"{dao.__name__}.{r.key}: relationship unknown to the class table of harness/c04.py")
            f, kind = known[r.key]
            t = tag5(c04.ref_tag(cn, f, kind, c04.CONTAINER.get((cn, f), "list")))
            tags.append(t)
            if kind == "many":
                if r.secondary is None:
                    raise RuntimeError(f"{dao.__name__}.{r.key}: collection without association table")
                assoc[t] = r.secondary.name
            elif r.direction.name == "ONETOMANY":     # what SQLAlchemy inferred for a single-valued reference
                selfref.add(t)
            elif r.direction.name != "MANYTOONE":
                raise RuntimeError(f"{dao.__name__}.{r.key}: direction {r.direction.name}")
        fields[dao_level_id(cn)] = tags
        want = sum(ncols[x] for x in _chain_ids(dao_level_id(cn), parent))
        if want != len(c04.SCAL[cn]):
            raise RuntimeError(f"{cn}: class table has {len(c04.SCAL[cn])} scalar fields, the tables of its chain have {want} data columns")
    _SCHEMA.update(parent=parent, ncols=ncols, fields=fields, selfref=sorted(selfref), tables=tables, assoc=assoc)
    return _SCHEMA


def _chain_ids(cid, parent):
    out = [cid]
    while out[-1] in parent:
        out.append(parent[out[-1]])
    return out


def schema_term(sc) -> str:
    z = lambda v: f"{v}%Z"
    par = "; ".join(f"({z(k)}, {z(v)})" for k, v in sorted(sc["parent"].items()))
    nc = "; ".join(f"({z(k)}, {v}%nat)" for k, v in sorted(sc["ncols"].items()))
    fl = "; ".join(f"({z(k)}, [{'; '.join(z(t) for t in v)}])" for k, v in sorted(sc["fields"].items()))
    sr = "; ".join(z(t) for t in sc["selfref"])
    return f"(mkSchema [{par}] [{nc}] [{fl}] [{sr}])"


def heap5(heap):
    return [(a, c, scal, [(tag5(t), ks) for t, ks in flds]) for a, c, scal, flds in heap]


# ----------------------------------------------------------------------------- generator: C04's, fewer repeated elements
def gen_graph(rng: core.Rng, max_objs: int) -> dict:
    d = c04.gen_graph(rng, max_objs)
    if rng.chance(0.8):
        for o in d["objs"]:
            for f, kind, _t, _o in c04.REFS.get(o["c"], []):
                if kind == "many":
                    seen: List[int] = []
                    for k in o["r"].get(f, []):
                        if k not in seen:
                            seen.append(k)
                    o["r"][f] = seen
        d = c04.prune(d)
    return d


def features(d: dict) -> Dict[str, Any]:
    ft = c04.features(d)
    objs = d["objs"]
    sc = read_schema()
    inv = {v: k for k, v in c04.TAGS.t.items()}
    self_fields = {inv[t // 2][0] for t in sc["selfref"]}      # single references the real mapper reads as ONETOMANY (none since 22a99b9)
    srcs: Dict[Tuple[str, int], set] = {}
    own: Dict[Tuple[str, int], set] = {}
    nself = nown = 0
    for i, o in enumerate(objs):
        for f, kind, t, _o in c04.REFS.get(o["c"], []):
            if kind == "one" and o["r"].get(f):
                k = o["r"][f][0]
                if f in self_fields:
                    nself += 1
                    srcs.setdefault((f, k), set()).add(i)
                if o["c"] in c04.subs(t) or objs[k]["c"] == o["c"]:     # a reference into the own table or to a subclass of it
                    nown += 1
                    own.setdefault((f, k), set()).add(i)
    ft["selfref_values"] = nself
    ft["selfref_shared"] = sum(1 for s in srcs.values() if len(s) >= 2)
    ft["ownhier_single_refs"] = nown
    ft["ownhier_shared_target"] = sum(1 for s in own.values() if len(s) >= 2)
    return ft


# ----------------------------------------------------------------------------- implementation
def run_impl(descr) -> Dict[str, Any]:
    from sqlalchemy import text
    from sqlalchemy.orm import Session
    from krrood.ormatic.dao import to_dao
    from krrood.ormatic.utils import create_engine
    sc = read_schema()
    Base = c04.interface().Base
    objs = c04.build(descr)
    root = objs[descr["root"]]
    engine = create_engine("sqlite:///:memory:")
    out: Dict[str, Any] = {}
    try:
        Base.metadata.create_all(engine)
        multi = isinstance(root, c04._Holder)
        if multi:
            # several roots persisted through ONE ToDAOState, reloaded in a new Session and converted with ONE explicitly
            # created, still empty FromDAOState (the holder is a harness object and is not persisted)
            from krrood.ormatic.dao import ToDAOState, FromDAOState
            with Session(engine) as s1:
                ts = ToDAOState()
                daos = [to_dao(o, ts) for o in root.items]
                s1.add_all(daos)
                s1.commit()
                keys = [(type(d), d.database_id) for d in daos]
        else:
            with Session(engine) as s1:
                d = to_dao(root)
                s1.add(d)
                s1.commit()
                pk = d.database_id
                dao_cls = type(d)
        with engine.connect() as con:
            out["table_counts"] = {cid: con.execute(text(f'SELECT count(*) FROM "{tn}"')).scalar() for cid, tn in sc["tables"].items()}
            out["assoc_counts"] = {t: con.execute(text(f'SELECT count(*) FROM "{tn}"')).scalar() for t, tn in sc["assoc"].items()}
        backs = []
        if multi:
            def chain_of(c):
                return [x for x in c.__mro__ if isinstance(x, type) and issubclass(x, Base) and x is not Base]
            for name, pick in (("own classes", lambda c: c), ("root classes of the hierarchies", lambda c: chain_of(c)[-1])):
                with Session(engine) as s2:   # a NEW session; its identity map makes one row one DAO, also across the roots
                    rows = [s2.get(pick(c), k) for c, k in keys]
                    if any(r is None for r in rows):
                        out["exc"] = f"Session.get returned None for a root ({name})"
                        return out
                    fs = FromDAOState()
                    backs.append((name, c04._Holder([r.from_dao(fs) for r in rows])))
        else:
            chain = [c for c in dao_cls.__mro__ if isinstance(c, type) and issubclass(c, Base) and c is not Base]
            for cls in chain:
                with Session(engine) as s2:       # a NEW session: nothing comes from an identity map
                    row = s2.get(cls, pk)
                    if row is None:
                        out["exc"] = f"Session.get({cls.__name__}, {pk}) returned None"
                        return out
                    backs.append((cls.__name__, row.from_dao()))
        own = backs[0][1]
        heap, r, anomalies = c04.dump(own, reverse=True)
        out.update(heap=heap, root=r, anomalies=anomalies, py_iso=c04.py_iso(root, own), via=[n for n, _ in backs], _back=own)
        out["chain_disagree"] = [f"{n}: {c04.py_iso(own, b)}" for n, b in backs[1:] if c04.py_iso(own, b) is not None]
        out["_root"], out["_backs"] = root, [b for _n, b in backs]
    except RecursionError:
        out["exc"] = "RecursionError"
    except Exception as e:  # noqa
        out["exc"] = f"{type(e).__name__}: {str(e)[:160]}"
    finally:
        engine.dispose()
    return out


def todao_state_db_scenario(n: int = 300) -> Dict[str, Any]:
    """One explicitly created ToDAOState for many to_dao calls on short-lived objects, every DAO added to one Session and
    committed; reloaded in a new Session.  ToDAOState.keep_alive must pin every converted object, otherwise a later object can get
    the id() of a dead one and is handed the dead one's DAO: fewer rows, wrong values."""
    from sqlalchemy import select
    from sqlalchemy.orm import Session
    from krrood.ormatic.dao import to_dao, ToDAOState
    from krrood.ormatic.utils import create_engine
    from test.dataset.example_classes import Position
    read_schema()
    itf = c04.interface()
    engine = create_engine("sqlite:///:memory:")
    try:
        itf.Base.metadata.create_all(engine)
        with Session(engine) as s1:
            ts = ToDAOState()
            for i in range(n):
                p = Position(i, i, i)
                s1.add(to_dao(p, ts))
                del p
            s1.commit()
        with Session(engine) as s2:
            rows = s2.scalars(select(itf.PositionDAO).order_by(itf.PositionDAO.database_id)).all()
            xs = [r.from_dao().x for r in rows]
    finally:
        engine.dispose()
    ok = xs == [float(i) for i in range(n)] or xs == list(range(n))
    return {"ok": ok, "objects": n, "rows": len(xs), "first_wrong": next((i for i, x in enumerate(xs) if x != i), None)}


def explain(descr) -> str:
    res = run_impl(descr)
    return json.dumps({"impl": res.get("exc") or res.get("py_iso") or "isomorphic", "chain_disagree": res.get("chain_disagree"),
                       "table_counts": {k: v for k, v in (res.get("table_counts") or {}).items() if v},
                       "assoc_counts": {k: v for k, v in (res.get("assoc_counts") or {}).items() if v}}, default=str)


# ----------------------------------------------------------------------------- freshly generated class models
def gen_model(rng: core.Rng, idx: int) -> Dict[str, Any]:
    """A random class model inside the documented grammar: 2..5 dataclasses, single inheritance up to depth 3, per class an
    int column plus 0..2 further scalar fields, 0..2 Optional single references and 0..2 List collections to any class
    of the model (own class and own hierarchy included for single references).  Excluded (C06's known generator defects):
    models without a builtin column (C06-b), x / x_id name pairs, reserved names.  (List of the own class is included since c757abc.)"""
    # every third model: names[0] is ALTERNATIVELY MAPPED (a generated AlternativeMapping with a renamed column), names[1] derives
    # from it (a DAO below an alternatively mapped DAO) and refers to names[2], which refers back: a cycle through the subclass
    altm = idx % 3 == 1
    ncls = rng.randint(3 if altm else 2, 5)
    names = [f"G{idx}c{i}" for i in range(ncls)]
    base: Dict[str, Any] = {}
    depth: Dict[str, int] = {}
    # every other model is forced to contain `names[0] <- (unmapped intermediate) <- names[1]` with names[0] having no other
    # direct mapped subclass: the mapped base then learns about its child only through WrappedTable.parent_table's MRO walk
    forced = idx % 2 == 0
    umid: Dict[str, Any] = {}
    for i, n in enumerate(names):
        cands = [m for m in names[(1 if forced and i >= 2 else 0):i] if depth[m] < 2]
        base[n] = rng.choice(cands) if cands and rng.chance(0.45) else None
        if (forced or altm) and i == 1:
            base[n] = names[0]
        if altm and i == 2:
            base[n] = None
        depth[n] = 0 if base[n] is None else depth[base[n]] + 1
        if base[n] is not None and not altm and ((forced and i == 1) or rng.chance(0.3)):
            # an UNMAPPED class between n and its mapped base (not handed to ORMatic); may carry a column of its own
            umid[n] = {"name": f"U{idx}c{i}", "fields": [[f"u{i}", "scalar", "int"]] if rng.chance(0.5) else []}
    own: Dict[str, List[Tuple[str, str, str]]] = {}
    required: List[str] = []
    falsy: Dict[str, Any] = {}
    noinit: List[str] = []
    tuples: List[str] = []

    def mro_of(x):
        return (mro_of(base[x]) if base[x] else []) + [x]
    for i, n in enumerate(names):
        fl = [(f"a{i}", "scalar", "int")]
        for j in range(rng.randint(0, 2)):
            # (Tuple[int, ...] columns are outside what the generator claims: ORMatic raises on the Ellipsis.  Models with an alternative
            #  mapping carry no datetimes, so that the open finding C04-a does not combine with the python-level rule of C05-c.)
            fl.append((f"s{i}_{j}", "scalar", rng.choice(["int", "float", "str", "bool", "Optional[float]", "Optional[int]", "List[str]"] +
                                                         ([] if (altm and i == 0) else ["Set[int]"]) + ([] if altm else ["Optional[datetime]"]))))
        outside = [m for m in names if m not in mro_of(n) and n not in mro_of(m)]
        for j in range(rng.randint(0, 2)):
            fl.append((f"r{i}_{j}", "one", rng.choice(outside) if outside and rng.chance(0.75) else rng.choice(names)))
            if rng.chance(0.4):
                required.append(f"r{i}_{j}")          # annotated T (not Optional[T]), default None -- as the dataset's Backreference.reference
        for j in range(rng.randint(0, 2)):
            tg = [m for m in names if m != n]
            # a collection of the class's OWN type (List[Self]) generates since repo commit c757abc (source_/target_ association columns)
            own_typed = not (altm and i == 0) and rng.chance(0.3)
            fl.append((f"l{i}_{j}", "many", n if own_typed else rng.choice(tg)))
            if not (altm and i == 0) and rng.chance(0.25):
                tuples.append(f"l{i}_{j}")             # declared Tuple[T, ...]
        if not (altm and i == 0):
            if rng.chance(0.3):
                fl.append((f"n{i}", "scalar", "int"))
                noinit.append(f"n{i}")                 # field(default=0, init=False): mapped, but no constructor argument
            if rng.chance(0.2):
                fl.append((f"rn{i}", "one", rng.choice(names)))
                noinit.append(f"rn{i}")
        if altm and i == 0 and not any(k != "scalar" for _f, k, _t in fl):
            fl.append(("lalt", "many", names[2]))      # the alternatively mapped class has at least one relationship (renamed by its mapping)
        if altm and i == 1:
            fl.append(("rsub", "one", names[2]))       # relationship declared on the subclass of the alternatively mapped class
        if altm and i == 2:
            fl.append(("rback", "one", names[1]))      # ... and the way back
        own[n] = fl
        # object truthiness: container-like classes (__len__ over a collection / JSON list) and classes with __bool__ over a scalar
        if rng.chance(0.6):
            lens = [f for f, k, t in fl if k == "many" or t == "List[str]"]
            bools = [f for f, k, t in fl if k == "scalar" and t in ("int", "bool", "float")]
            if lens and rng.chance(0.6):
                falsy[n] = ["len", rng.choice(lens)]
            else:
                falsy[n] = ["bool", rng.choice(bools)]
    # frozen dataclasses: a whole hierarchy at a time (dataclasses forbid mixing), not the alternatively mapped one
    def root_of(x):
        return root_of(base[x]) if base[x] else x
    frozen_roots = {n for n in names if base[n] is None and not (altm and n == names[0]) and rng.chance(0.3)}
    frozen = [n for n in names if root_of(n) in frozen_roots]
    # classes with a __new__ of their own (instance counting): inspect.signature(cls) is then (*args, **kwargs), not __init__'s
    own_new = [n for n in names if rng.chance(0.25)]
    order = list(names)
    rng.shuffle(order)      # the order in which the classes are handed to ClassDiagram / ORMatic: any order (280300b orders the output)
    return {"idx": idx, "names": names, "base": base, "own": own, "required": required, "falsy": falsy, "umid": umid, "order": order,
            "alt": names[0] if altm else None, "frozen": frozen, "own_new": own_new, "noinit": noinit, "tuples": tuples}


def model_source(md) -> str:
    dflt = {"int": "0", "float": "0.0", "str": "''", "bool": "False", "Optional[float]": "None", "Optional[int]": "None",
            "List[str]": "field(default_factory=list)", "Set[int]": "field(default_factory=set)",
            "Tuple[int, ...]": "field(default_factory=tuple)", "Optional[datetime]": "None"}
    noinit, tuples = md.get("noinit", []), md.get("tuples", [])
    out = ["from __future__ import annotations", "from dataclasses import dataclass, field", "from datetime import datetime",
           "from typing import List, Optional, Set, Tuple",
           "from krrood.ormatic.dao import AlternativeMapping", "", "COUNTS = {}", "", ""]
    for n in md["names"]:
        parent = md["base"][n]
        u = md.get("umid", {}).get(n)
        deco = "@dataclass(eq=False, frozen=True)" if n in md.get("frozen", []) else "@dataclass(eq=False)"
        if u:
            out.append(deco)
            out.append(f"class {u['name']}({parent}):        # NOT mapped: never handed to ORMatic")
            for f, _k, t in u["fields"]:
                out.append(f"    {f}: {t} = {dflt[t]}")
            if not u["fields"]:
                out.append("    pass")
            out += ["", ""]
            parent = u["name"]
        out.append(deco)
        out.append(f"class {n}({parent}):" if parent else f"class {n}:")
        for f, kind, t in md["own"][n]:
            if kind == "scalar" and f in noinit:
                out.append(f"    {f}: {t} = field(default={dflt[t]}, init=False)")
            elif kind == "scalar":
                out.append(f"    {f}: {t} = {dflt[t]}")
            elif kind == "one" and f in noinit:
                out.append(f"    {f}: Optional[{t}] = field(default=None, init=False)")
            elif kind == "one":
                out.append(f"    {f}: {t} = None" if f in md.get("required", []) else f"    {f}: Optional[{t}] = None")
            elif f in tuples:
                out.append(f"    {f}: Tuple[{t}, ...] = field(default_factory=tuple)")
            else:
                out.append(f"    {f}: List[{t}] = field(default_factory=list)")
        if n in md.get("own_new", []):
            out += ["", "    def __new__(cls, *args, **kwargs):", "        COUNTS[cls.__name__] = COUNTS.get(cls.__name__, 0) + 1",
                    "        return super().__new__(cls)"]
        if n in md.get("falsy", {}):
            how, f = md["falsy"][n]
            out += ["", f"    def __len__(self):", f"        return len(self.{f})"] if how == "len" else ["", f"    def __bool__(self):", f"        return bool(self.{f})"]
        out += ["", ""]
    if md.get("alt"):
        a = md["alt"]
        fl = [tuple(x) for x in md["own"][a]]
        out.append("@dataclass")
        out.append(f"class {a}Mapping(AlternativeMapping[{a}]):")
        first_rel = next((f for f, k, _t in fl if k != "scalar"), None)
        def mname(j, f):
            return ("stored_" + f) if (j == 0 or f == first_rel) else f    # the first column and the first relationship are renamed
        for j, (f, kind, t) in enumerate(fl):
            mf = mname(j, f)
            if kind == "scalar":
                out.append(f"    {mf}: {t}")
            elif kind == "one":
                out.append(f"    {mf}: {t}" if f in md.get("required", []) else f"    {mf}: Optional[{t}]")
            else:
                out.append(f"    {mf}: List[{t}]")
        args = ", ".join(f"obj.{f}" for f, _k, _t in fl)
        back = ", ".join(f"self.{mname(j, f)}" for j, (f, _k, _t) in enumerate(fl))
        out += ["", "    @classmethod", "    def create_instance(cls, obj):", f"        return cls({args})", "",
                "    def create_from_dao(self):", f"        return {a}({back})", "", ""]
    return "\n".join(out)


def install_model(md, workdir) -> None:
    """Worker side: write the model, let the working tree's ORMatic generate its layer, import both, and make the model
    the class table of harness/c04.py (relationship order taken from the real mappers)."""
    import importlib
    import sys
    import sqlalchemy
    from sqlalchemy.orm import configure_mappers
    from krrood.class_diagrams.class_diagram import ClassDiagram
    from krrood.ormatic.ormatic import ORMatic
    from krrood.ormatic.dao import get_dao_class
    modname = f"verif_gm_{md['idx']}"
    (workdir / f"{modname}.py").write_text(model_source(md))
    sys.path.insert(0, str(workdir))
    mod = importlib.import_module(modname)
    classes = [getattr(mod, n) for n in md["names"]]
    # classes are handed over in the (random) order stored with the model; since repo commit 280300b the generated module is
    # ordered by the first MAPPED class of each MRO, also across an unmapped intermediate class
    by_name = {c.__name__: c for c in classes}
    alt = md.get("alt")
    mappings = [getattr(mod, alt + "Mapping")] if alt else []
    o = ORMatic(ClassDiagram([by_name[n] for n in md.get("order", md["names"])]), alternative_mappings=mappings) if alt else \
        ORMatic(ClassDiagram([by_name[n] for n in md.get("order", md["names"])]))
    o.make_all_tables()
    with open(workdir / f"{modname}_dao.py", "w") as f:
        o.to_sqlalchemy_file(f)
    importlib.import_module(modname + "_dao")
    configure_mappers()
    names, base, own = md["names"], md["base"], md["own"]

    def mro(n):
        return (mro(base[n]) if base[n] else []) + [n]
    subs_of = {n: [m for m in names if n in mro(m)] for n in names}
    c04.MODEL_MODULE, c04.INTERFACE_MODULE = modname, modname + "_dao"
    alt = md.get("alt")
    c04.ALT = {alt: alt + "Mapping"} if alt else {}
    c04.ALTBASE = {n for n in names if alt and n != alt and alt in mro(n)}
    # (finding C04-d, fixed by 96f6440: from_dao used to consult only the immediate base DAO, so for a class two or more levels below the
    # alternatively mapped class the renamed column came back as the constructor default; the model's lost-column table stays empty now)
    c04.ALTGC = {}
    c04.SUB = subs_of
    umid = md.get("umid", {})

    def decl(c):          # fields declared between c's mapped base and c (unmapped intermediate first), dataclass order
        return [tuple(x) for x in umid.get(c, {}).get("fields", [])] + [tuple(x) for x in own[c]]
    c04.SCAL = {n: [f for c in mro(n) for f, k, _t in decl(c) if k == "scalar"] for n in names}
    c04.SCAL_TYPES = {n: {f: t for c in mro(n) for f, k, t in decl(c) if k == "scalar"} for n in names}
    info = {n: {f: (k, t) for c in mro(n) for f, k, t in own[c] if k != "scalar"} for n in names}
    alt0 = md.get("alt")
    first_rel = next((f for f, k, _t in own[alt0] if k != "scalar"), None) if alt0 else None
    c04.DAOKEY = {(n, first_rel): "stored_" + first_rel for n in names if alt0 and first_rel and alt0 in mro(n)}
    c04.REFS = {}
    for n in names:
        keys = [r.key for r in sqlalchemy.inspect(get_dao_class(getattr(mod, n))).relationships]
        back = {c04.DAOKEY.get((n, f), f): f for f in info[n]}           # DAO relationship key -> object field
        missing = set(back) - set(keys)
        if missing:
            raise RuntimeError(f"{n}: no relationship generated for reference fields {sorted(missing)}")
        c04.REFS[n] = [(back[k], info[n][back[k]][0], info[n][back[k]][1], True) for k in keys if k in back]
    c04.SCAL["_Holder"], c04.REFS["_Holder"] = [], [("items", "many", "_Holder", False)]
    extra = []
    if alt:      # the mapping object can show up in a result (finding C04-a): same columns (first one renamed), same relationships
        sc = list(c04.SCAL[alt])
        c04.SCAL[alt + "Mapping"] = ["stored_" + sc[0]] + sc[1:]
        c04.REFS[alt + "Mapping"] = [(c04.DAOKEY.get((alt, f), f), k, t, o) for f, k, t, o in c04.REFS[alt]]
        c04.TAGNAME = {(alt + "Mapping", c04.DAOKEY.get((alt, f), f)): f for f, _k, _t, _o in c04.REFS[alt]}
        extra = [alt + "Mapping"]
    c04.CLASS_ID = {n: i + 1 for i, n in enumerate(names + extra + ["_Holder"])}
    c04.ROOT_KINDS = list(names)
    c04.FROZEN = set(md.get("frozen", []))
    c04.NOINIT = {n: {f for c in mro(n) for f, _k, _t in own[c] if f in md.get("noinit", [])} for n in names}
    c04.CONTAINER = {(n, f): "tuple" for n in names for c in mro(n) for f, _k, _t in own[c] if f in md.get("tuples", [])}
    # truthiness is inherited: a class is falsy-capable through the nearest definition on its MRO
    c04.FALSY_FIELDS = {}
    for n in names:
        for c in reversed(mro(n)):
            if c in md.get("falsy", {}):
                c04.FALSY_FIELDS[n] = tuple(md["falsy"][c])
                break


def prepare_case04(d: dict, org: str, model_ok: bool, keep: Optional[Dict[str, Any]] = None) -> Dict[str, Any]:
    """C04 on a generated model: real to_dao -> from_dao, no database."""
    ft = c04.features(d)
    res = c04.run_impl(d)
    pair = res.pop("_objs", None)
    if keep is not None:
        keep["b"] = pair[1] if pair else None
    heap, r, anom = c04.input_heap(d)
    m = {"descr": d, "origin": org, "ft": ft, "res": res, "anomalies": anom, "heap": heap, "root": r, "expr": None,
         "in_f": False, "alts": c04.alts_ab(), "renamed_rel": bool(c04.DAOKEY), "root_class": d["objs"][d["root"]]["c"]}
    if "exc" not in res:
        args = f"{c04.heap_term(heap)} {r}%nat {c04.heap_term(res['heap'])} {res['root']}%nat"
        fn = c04.code_fns(d, model_ok)[0]
        m["expr"] = f"{fn} {c04.alts_ab()} {args}" if model_ok else f"{fn} {args}"
    return m


def spawn_worker(prop: str, seed: int, idx: int, ncases: int, model_ok: bool, outf, replay_file=None):
    import subprocess
    if outf.exists():
        outf.unlink()
    cmd = [core.PY, "-m", "harness.c05", "--worker", prop, str(seed), str(idx), str(ncases), "1" if model_ok else "0", str(outf)]
    if replay_file:
        cmd.append(str(replay_file))
    env = dict(core.IMPL_ENV, VERIF_OPEN_RULES=",".join(sorted(OPEN_RULES)))
    return subprocess.Popen(cmd, cwd=str(core.VERIF), env=env, stdout=subprocess.DEVNULL, stderr=subprocess.PIPE, text=True)


def collect_worker(rep: Report, j, outf, pr):
    """-> parsed worker output or None (obligation recorded)"""
    import subprocess
    try:
        _, err = pr.communicate(timeout=900)
    except subprocess.TimeoutExpired:
        pr.kill()
        err = "timeout"
    if not outf.exists():
        rep.oblige(f"genmodel:{j}", False, f"worker produced no output: {(err or '')[-300:]}")
        return None
    return json.loads(outf.read_text())


def _worker_main(argv) -> int:
    """python -m harness.c05 --worker <C04|C05> <seed> <idx> <ncases> <model_ok> <outfile> [<replay file>]:
    one generated class model (or the model stored in a replay), its graphs (or the replay's case), one record per case."""
    prop, seed, idx, ncases, model_ok, outfile = argv[0], int(argv[1]), int(argv[2]), int(argv[3]), argv[4] == "1", argv[5]
    replay = json.load(open(argv[6])) if len(argv) > 6 else None
    d = core.WORK / prop / "genmodels"
    d.mkdir(parents=True, exist_ok=True)
    rng = core.Rng(seed).fork(1000 + idx)
    md = replay["class_model"] if replay else gen_model(rng.fork(0), idx)
    out = {"model": md, "cases": []}
    try:
        install_model(md, d)
        sc = read_schema()
        out["schema"] = {"tables": len(sc["tables"]), "assoc": len(sc["assoc"]), "selfref": len(sc["selfref"]),
                         "depth": max(len(_chain_ids(c, sc["parent"])) for c in sc["tables"]), "falsy_classes": len(c04.FALSY_FIELDS)}
    except Exception as e:  # noqa
        out["setup_error"] = f"{type(e).__name__}: {str(e)[:300]}"
        open(outfile, "w").write(json.dumps(out, default=str))
        return 0

    back_objs: Dict[str, Any] = {}

    def one(dsc, org):
        if prop == "C04":
            m = prepare_case04(dsc, org, model_ok, back_objs)
        else:
            m = prepare_case(dsc, org, sc, model_ok)
            back_objs["b"] = m["res"].pop("_back", None)
        m["ft"].update(c04.falsy_features(dsc))
        m["ft"].update(shape_features(dsc))
        back = back_objs.pop("b", None)
        m["is_db"] = prop == "C05"
        # (the view also carries C05-b's normalisation: needed for C05-b combined with C04-a, whatever generator-level rules are open)
        if (OPEN_RULES or (prop == "C05" and m["ft"]["repeated_elems"])) and back is not None and m["res"].get("py_iso") is not None:
            try:
                m["defect_view_diff"] = c04.py_iso(defect_view(dsc, prop == "C05"), back)     # first difference left after the recorded defects
                m["defect_view_ok"] = m["defect_view_diff"] is None
            except Exception:  # noqa
                m["defect_view_ok"] = False
        return m

    def failing(m):
        res = m["res"]
        if "exc" in res:
            return True
        if res.get("py_iso") is None:
            return False
        if m.get("defect_view_ok"):
            return False
        return prop == "C04" or not m["ft"]["repeated_elems"]

    shrunk = 0
    todo = [(replay["case"], replay.get("_origin", "replay"))] if replay else [(None, f"model{idx}:gen:{i}") for i in range(ncases)]
    for i, (dsc, org) in enumerate(todo):
        if dsc is None:
            dsc = c04.gen_graph(rng.fork(i + 1), 10) if prop == "C04" else gen_graph(rng.fork(i + 1), 10)
            if i % 4 == 3:     # several roots converted (C05: persisted, reloaded and converted) with shared states
                dsc = c04.make_multi(rng.fork(5000 + i), dsc)
        m = one(dsc, org)
        if failing(m) and shrunk < 3 and not replay:
            shrunk += 1
            exc0 = "exc" in m["res"]

            def fails(x, exc0=exc0):
                mm = one(x, org)
                return ("exc" in mm["res"]) if exc0 else failing(mm) and "exc" not in mm["res"]
            small = c04.shrink(dsc, fails, budget=60 if prop == "C05" else 150)
            if small != dsc:
                m = one(small, org + " (shrunk)")
        m["generated"] = True
        out["cases"].append(m)
    out["source"] = model_source(md)
    open(outfile, "w").write(json.dumps(out, default=str))
    return 0


# ----------------------------------------------------------------------------- recorded defect behaviour of open generator-level findings
OPEN_RULES = set(os.environ.get("VERIF_OPEN_RULES", "").split(",")) - {""}     # set by the parent check from its findings file
RULE_FINDING = {"initfalse": "C04-g", "containers": "C04-h", "tz": "C05-c"}


def shape_features(d: dict) -> Dict[str, int]:
    objs = d["objs"]
    ft = {"noinit_objs": 0, "tuple_fields": 0, "json_containers": 0, "tz_values": 0}
    for o in objs:
        cn = o["c"]
        ni = c04.NOINIT.get(cn, set())
        ft["noinit_objs"] += 1 if any((f in o["s"] and o["s"][f] not in (0, None)) or o["r"].get(f) for f in ni) else 0
        ft["tuple_fields"] += sum(1 for (c, f) in c04.CONTAINER if c == cn)
        for f, v in o["s"].items():
            if isinstance(v, dict) and ("set" in v or "tuple" in v):
                ft["json_containers"] += 1
            if isinstance(v, dict) and "dt" in v and ("+" in v["dt"][10:]):
                ft["tz_values"] += 1
    return ft


def defect_view(d: dict, db: bool):
    """The input graph as the recorded defects of the OPEN findings leave it: init=False fields at their defaults (C04-g), declared
    tuple collections as lists and -- after a reload -- JSON sets / tuples as lists (C04-h), aware datetimes naive after a reload (C05-c)."""
    import datetime as _dt
    objs = c04.build(d)
    for o, po in zip(d["objs"], objs):
        cn = o["c"]
        if "initfalse" in OPEN_RULES:
            for f in c04.NOINIT.get(cn, ()):
                kind = next((k for g, k, _t, _o in c04.REFS.get(cn, []) if g == f), None)
                object.__setattr__(po, f, None if kind == "one" else [] if kind == "many" else 0)
        if "containers" in OPEN_RULES:
            for (c, f) in c04.CONTAINER:
                if c == cn:
                    object.__setattr__(po, f, list(getattr(po, f)))
            if db:
                for f in c04.SCAL.get(cn, []):
                    v = getattr(po, f, None)
                    if isinstance(v, (set, frozenset)):
                        object.__setattr__(po, f, sorted(v))
                    elif isinstance(v, tuple):
                        object.__setattr__(po, f, list(v))
        if db and cn != "_Holder":      # open finding C05-b: a reloaded collection holds first occurrences only
            for f, kind, _t, _o in c04.REFS.get(cn, []):
                if kind == "many":
                    first: List[Any] = []
                    for e in getattr(po, f):
                        if not any(e is z for z in first):
                            first.append(e)
                    object.__setattr__(po, f, type(getattr(po, f))(first) if isinstance(getattr(po, f), (list, tuple)) else first)
        if "tz" in OPEN_RULES and db:
            for f in c04.SCAL.get(cn, []):
                v = getattr(po, f, None)
                if isinstance(v, _dt.datetime) and v.tzinfo is not None:
                    object.__setattr__(po, f, v.replace(tzinfo=None))
    return objs[d["root"]]


def rule_instances(m) -> List[str]:
    """open generator-level findings a failing case is an exact instance of (its result equals the recorded defect behaviour)"""
    if not m.get("defect_view_ok"):
        return []
    ft = m["ft"]
    present = {"initfalse": ft.get("noinit_objs"), "containers": ft.get("tuple_fields") or ft.get("json_containers"), "tz": ft.get("tz_values")}
    out = [RULE_FINDING[r] for r in sorted(OPEN_RULES) if present.get(r)]
    return out + (["C05-b"] if out and ft.get("repeated_elems") and "frag" in m.get("kind5", "frag") and m.get("is_db") else [])


# ----------------------------------------------------------------------------- fixed scenarios (run in a fresh interpreter)
SCENARIO_FINDING = {"names_coincide": "C04-f", "nested_function": "C04-i", "nested_type": "C04-i", "negative_cache": "C04-j",
                    "deep_chain": "C04-k", "postinit_cycle": "C04-l", "set_cycle": "C04-m", "mapping_hierarchy": "C04-n",
                    "flag_enum": "C05-d"}
SCENARIO_PROPS = {"C04": ["negative_cache", "nested_function", "names_coincide", "deep_chain", "postinit_cycle", "set_cycle", "mapping_hierarchy"],
                  "C05": ["negative_cache", "nested_function", "nested_type", "names_coincide", "deep_chain", "postinit_cycle", "set_cycle",
                          "mapping_hierarchy", "flag_enum"]}
# the recorded defect behaviour of the open findings (narrow match)
SCENARIO_SIG = {"names_coincide": "angle 180.0", "nested_function": "Outer.method", "nested_type": "module-level Inner",
                "negative_cache": "NoDAOFoundError after the layer was imported", "deep_chain": "RecursionError",
                "postinit_cycle": "__post_init__ read the uninitialised partner",
                "set_cycle": "AttributeError: the set hashed an element that is allocated but not initialised",
                "mapping_hierarchy": "child of a mapping hierarchy decoded twice: name 'cba'",
                "flag_enum": "LookupError at commit for READ|WRITE"}

_SCN_NESTED = """
class Inner:            # a module-level namesake of the nested class
    pass


class Outer:
    class Inner:
        def method(self):
            return "inner"

    def method(self):
        return "outer"
"""

_SCN_ROT = """
from __future__ import annotations
import math
from dataclasses import dataclass
from krrood.ormatic.dao import AlternativeMapping


@dataclass
class Rot:
    angle: float = 0.0          # radians


@dataclass
class RotMapping(AlternativeMapping[Rot]):
    angle: float                # degrees: the same NAME as in Rot, another content

    @classmethod
    def create_instance(cls, obj):
        return cls(math.degrees(obj.angle))

    def create_from_dao(self):
        return Rot(math.radians(self.angle))


@dataclass
class NamedRot(Rot):
    name: str = ""
"""

_SCN_DEPT = """
from __future__ import annotations
from dataclasses import dataclass
from typing import Optional


@dataclass(eq=False)
class Dept:
    name: str = ""
    head: Optional[Person] = None
    head_name: str = ""

    def __post_init__(self):
        if self.head is not None:
            self.head_name = self.head.name       # reads the partner


@dataclass(eq=False)
class Person:
    name: str = ""
    dept: Optional[Dept] = None
"""

_SCN_CLUB = """
from __future__ import annotations
from dataclasses import dataclass, field
from typing import Optional, Set


@dataclass
class Club:
    name: str
    members: Set[Member] = field(default_factory=set)

    def __hash__(self):
        return hash(self.name)


@dataclass
class Member:                   # hashed by VALUE, as Person in test/dataset/university_ontology_like_classes.py
    name: str
    club: Optional[Club] = None

    def __hash__(self):
        return hash(self.name)
"""

_SCN_ENC = """
from __future__ import annotations
from dataclasses import dataclass
from krrood.ormatic.dao import AlternativeMapping


@dataclass
class EncParent:
    name: str = ""


@dataclass
class EncChild(EncParent):
    extra: int = 0


@dataclass
class EncParentMapping(AlternativeMapping[EncParent]):
    name: str                   # stored reversed: the same NAME, another content

    @classmethod
    def create_instance(cls, obj):
        return cls(obj.name[::-1])

    def create_from_dao(self):
        return EncParent(self.name[::-1])


@dataclass
class EncChildMapping(EncParentMapping, AlternativeMapping[EncChild]):      # the pattern of ParentBaseMapping / ChildBaseMapping
    extra: int = 0

    @classmethod
    def create_instance(cls, obj):
        return cls(obj.name[::-1], obj.extra)

    def create_from_dao(self):
        return EncChild(self.name[::-1], self.extra)
"""

_SCN_FLAG = """
from __future__ import annotations
import enum
from dataclasses import dataclass


class Permission(enum.Flag):
    READ = 1
    WRITE = 2


@dataclass
class Document:
    permission: Permission = Permission.READ
"""


def _scenario_main(argv) -> int:
    """python -m harness.c05 --scenarios <C04|C05> <outfile>: fixed scenarios in a fresh interpreter (order matters for the first)."""
    import importlib
    import math
    import sys
    prop, outfile = argv[0], argv[1]
    d = core.WORK / prop / "scenarios"
    d.mkdir(parents=True, exist_ok=True)
    sys.path.insert(0, str(d))
    out: Dict[str, Any] = {}

    def scenario(name):
        def deco(fn):
            if name in SCENARIO_PROPS[prop]:
                try:
                    sig = fn()
                    out[name] = {"ok": sig is None, "sig": sig}
                except Exception as e:  # noqa
                    out[name] = {"ok": False, "sig": f"unexpected {type(e).__name__}: {str(e)[:120]}"}
            return fn
        return deco

    from krrood.ormatic.dao import to_dao, NoDAOFoundError
    from test.dataset.example_classes import Position, Node, CallableWrapper, PositionTypeWrapper

    @scenario("negative_cache")
    def _():
        # order of ordinary operations: a conversion attempted before the generated layer is imported fails (rightly) ...
        try:
            to_dao(Position(1, 2, 3))
            return "to_dao worked without a layer"
        except NoDAOFoundError:
            pass
        importlib.import_module(c04.INTERFACE_MODULE)
        try:                                      # ... and must work once the layer is there
            to_dao(Position(1, 2, 3))
        except NoDAOFoundError:
            return "NoDAOFoundError after the layer was imported"
        return None

    c04.setup_impl()
    (d / "scn_nested.py").write_text(_SCN_NESTED)
    nested = importlib.import_module("scn_nested")

    @scenario("nested_function")
    def _():
        w = CallableWrapper(nested.Outer.Inner.method)
        back = to_dao(w).from_dao()
        if back.func is nested.Outer.Inner.method:
            return None
        return "Outer.method" if back.func is nested.Outer.method else f"another function {back.func!r:.60}"

    @scenario("nested_type")
    def _():
        from sqlalchemy.orm import Session
        from krrood.ormatic.utils import create_engine
        itf = c04.interface()
        engine = create_engine("sqlite:///:memory:")
        itf.Base.metadata.create_all(engine)
        with Session(engine) as s1:
            dao = to_dao(PositionTypeWrapper(nested.Outer.Inner))
            s1.add(dao)
            s1.commit()
            pk = dao.database_id
        with Session(engine) as s2:
            back = s2.get(type(dao), pk).from_dao()
        engine.dispose()
        if back.position_type is nested.Outer.Inner:
            return None
        return "module-level Inner" if back.position_type is nested.Inner else f"another class {back.position_type!r:.60}"

    @scenario("deep_chain")
    def _():
        n = None
        for _i in range(300):
            n = Node(n)
        try:
            back = to_dao(n).from_dao()
        except RecursionError:
            return "RecursionError"
        depth = 0
        while back is not None:
            back, depth = back.parent, depth + 1
        return None if depth == 300 else f"depth {depth}"

    def generate(modname, source, class_names, mapping_names=()):
        from sqlalchemy.orm import configure_mappers
        from krrood.class_diagrams.class_diagram import ClassDiagram
        from krrood.ormatic.ormatic import ORMatic
        (d / f"{modname}.py").write_text(source)
        mod = importlib.import_module(modname)
        classes = [getattr(mod, n) for n in class_names]
        o = ORMatic(ClassDiagram(classes), alternative_mappings=[getattr(mod, n) for n in mapping_names]) if mapping_names \
            else ORMatic(ClassDiagram(classes))
        o.make_all_tables()
        with open(d / f"{modname}_dao.py", "w") as f:
            o.to_sqlalchemy_file(f)
        importlib.import_module(modname + "_dao")
        configure_mappers()
        return mod

    @scenario("names_coincide")
    def _():
        mod = generate("scn_rot", _SCN_ROT, ["Rot", "NamedRot"], ["RotMapping"])
        plain = to_dao(mod.Rot(math.pi)).from_dao()
        if abs(plain.angle - math.pi) > 1e-9:
            return f"Rot itself: angle {plain.angle}"
        back = to_dao(mod.NamedRot(math.pi, "n")).from_dao()
        if type(back) is mod.NamedRot and abs(back.angle - math.pi) < 1e-9 and back.name == "n":
            return None
        return f"angle {round(back.angle, 6)}"

    @scenario("postinit_cycle")
    def _():
        mod = generate("scn_dept", _SCN_DEPT, ["Dept", "Person"])
        p = mod.Person("ann")
        dept = mod.Dept("r&d", p)
        p.dept = dept
        from_dept = to_dao(dept).from_dao()
        if from_dept.head.dept is not from_dept or from_dept.head_name != "ann":
            return "entered at Dept: wrong graph"
        try:
            from_person = to_dao(p).from_dao()
        except AttributeError:
            return "__post_init__ read the uninitialised partner"
        if from_person.dept.head is from_person and from_person.dept.head_name == "":
            return "__post_init__ read the uninitialised partner"      # the placeholder showed the class-level default
        ok = from_person.dept.head is from_person and from_person.dept.head_name == "ann"
        return None if ok else "entered at Person: wrong graph"

    @scenario("set_cycle")
    def _():
        mod = generate("scn_club", _SCN_CLUB, ["Club", "Member"])
        club = mod.Club("c")
        m1, m2 = mod.Member("m1", club), mod.Member("m2", club)
        club.members = {m1, m2}

        def good(c, entry=None):
            return (type(c.members) is set and sorted(m.name for m in c.members) == ["m1", "m2"] and all(m.club is c and m in c.members for m in c.members)
                    and (entry is None or any(m is entry for m in c.members)))
        if not good(to_dao(club).from_dao()):
            return "entered at the Club: wrong graph"
        try:
            back = to_dao(m1).from_dao()
        except AttributeError:
            return "AttributeError: the set hashed an element that is allocated but not initialised"
        return None if back.name == "m1" and good(back.club, back) else "entered at a Member: wrong graph"

    @scenario("mapping_hierarchy")
    def _():
        mod = generate("scn_enc", _SCN_ENC, ["EncParent", "EncChild"], ["EncParentMapping", "EncChildMapping"])
        dao = to_dao(mod.EncChild("abc", 7))
        if dao.name != "cba":
            return f"the DAO column holds {dao.name!r}"
        plain = to_dao(mod.EncParent("abc")).from_dao()
        if type(plain) is not mod.EncParent or plain.name != "abc":
            return f"EncParent itself: name {plain.name!r}"
        back = dao.from_dao()
        if type(back) is mod.EncChild and back.name == "abc" and back.extra == 7:
            return None
        return f"child of a mapping hierarchy decoded twice: name {back.name!r}" if type(back) is mod.EncChild and back.extra == 7 \
            else f"wrong object {back!r:.60}"

    @scenario("flag_enum")
    def _():
        from sqlalchemy.exc import StatementError
        from sqlalchemy.orm import Session
        from krrood.ormatic.utils import create_engine
        mod = generate("scn_flag", _SCN_FLAG, ["Document"])
        daos = importlib.import_module("scn_flag_dao")
        engine = create_engine("sqlite:///:memory:")
        daos.Base.metadata.create_all(engine)
        for value in (mod.Permission.READ, mod.Permission.READ | mod.Permission.WRITE):
            try:
                with Session(engine) as s1:
                    dao = to_dao(mod.Document(value))
                    s1.add(dao)
                    s1.commit()
                    pk = dao.database_id
            except StatementError as e:
                engine.dispose()
                return "LookupError at commit for READ|WRITE" if isinstance(e.orig, LookupError) and value is not mod.Permission.READ \
                    else f"StatementError for {value!r}: {str(e.orig)[:60]}"
            with Session(engine) as s2:
                back = s2.get(daos.DocumentDAO, pk).from_dao()
            if back.permission != value or type(back.permission) is not mod.Permission:
                engine.dispose()
                return f"{value!r} restored as {back.permission!r}"
        engine.dispose()
        return None

    open(outfile, "w").write(json.dumps(out))
    return 0


def run_scenarios(rep: Report, prop: str, findings) -> Dict[str, Any]:
    """Run the fixed scenarios in a fresh interpreter and judge them against the findings file of the property."""
    outf = core.WORK / prop / "scenarios_out.json"
    if outf.exists():
        outf.unlink()
    rc, log = core.sh([core.PY, "-m", "harness.c05", "--scenarios", prop, str(outf)], cwd=str(core.VERIF), env=core.IMPL_ENV, timeout=600)
    if not outf.exists():
        rep.oblige("scenarios", False, f"the scenario runner produced no output: {log[-300:]}")
        return {}
    obs = json.loads(outf.read_text())
    by_id = {}
    for f in findings:
        by_id.setdefault(f.fid, f)
    reported = set()
    for name in SCENARIO_PROPS[prop]:
        o = obs.get(name)
        rep.count("scenario:" + name, True)
        if o is None:
            rep.oblige("scenario:" + name, False, "scenario did not run")
            continue
        f = by_id.get(SCENARIO_FINDING[name])
        if o["ok"]:
            if f is not None and f.kind == "open" and all(obs.get(n2, {}).get("ok") for n2 in SCENARIO_PROPS[prop] if SCENARIO_FINDING[n2] == f.fid):
                if f.fid not in reported:
                    rep.note(f"known finding {f.fid}: its scenario no longer fails (finding appears repaired)")
                    reported.add(f.fid)
            continue
        if f is not None and f.kind == "open" and o["sig"] == SCENARIO_SIG[name]:
            if f.fid not in reported:
                rep.known(f)
                reported.add(f.fid)
            continue
        rep.violation({"kind": "counterexample", "case": {"scenario": name}, "impl": o,
                       "spec": "the scenario's object (graph) is converted / restored unchanged",
                       "python": f"python -m harness.c05 --scenarios {prop} /tmp/out.json   # runs all fixed scenarios of {prop}; see harness/c05.py _scenario_main"})
    return obs


# ----------------------------------------------------------------------------- the check
def prepare_case(d: dict, org: str, sc, model_ok: bool) -> Dict[str, Any]:
    tables, tags = sorted(sc["tables"]), sorted(sc["assoc"])
    zl = lambda xs: "[" + "; ".join(f"{x}%Z" for x in xs) + "]"
    ft = features(d)
    res = run_impl(d)
    heap, r, anom = c04.input_heap(d)
    m = {"descr": d, "origin": org, "ft": ft, "res": res, "anomalies": anom, "expr": None,
         "nroot": None if "exc" in res else sum(v for t, v in res["table_counts"].items() if t not in sc["parent"]),
         "root_class": d["objs"][d["root"]]["c"], "nobj": ft["n"] - (1 if c04.is_multi(d) else 0)}
    if "exc" not in res and ft["altbase_objs"] >= 2 and (res["chain_disagree"] or res["py_iso"] is not None):
        # matcher of finding C04-c: every loaded graph equals the input up to parent-provided scalars of ALTBASE objects
        m["altbase_relaxed_ok"] = all(c04.py_iso(res["_root"], b, relax_altbase=True) is None for b in res["_backs"])
    res.pop("_root", None)
    res.pop("_backs", None)
    if "exc" not in res:
        counts = core.sx([[res["table_counts"][t] for t in tables], [res["assoc_counts"][t] for t in tags]])
        a_in = f"{c04.heap_term(heap5(heap))} {r}%nat"
        a_out = f"{c04.heap_term(heap5(res['heap']))} {res['root']}%nat"
        fn5 = "case_code5_multi" if c04.is_multi(d) else "case_code5"
        m["expr"] = (f"{fn5} {schema_term(sc)} {c04.alts_ab()} {zl(tables)} {zl(tags)} {a_in} {a_out} ({counts})" if model_ok
                     else f"case_code_spec {a_in} {a_out}")
        m["table_counts_nz"] = {str(k): v for k, v in res["table_counts"].items() if v}
    return m


def decide(rep: Report, m: Dict[str, Any], v, model_ok: bool, inst: Dict[str, int], tallies: Dict[str, int], bad: list) -> None:
    res, ft = m["res"], m["ft"]
    if "exc" in res:
        bad.append((m, f"exception {res['exc']}"))
        return
    code, frag, wf = v[0], v[1], v[2]
    rows_ok = v[3] if len(v) > 3 else 1
    m["code"] = code
    in_f = model_ok and frag == 7
    tallies["in_F"] += 1 if in_f else 0
    if wf != 1:
        rep.oblige("harness:wf", False, f"{m['origin']}: dumped heap is not closed")
        return
    if model_ok and not (frag & 2):
        rep.oblige("harness:schema", False, f"{m['origin']}: the DAO graph of the model does not fit the schema read from the mappers (wf_dao false)")
    if (code in (0, 1)) != (res["py_iso"] is None):
        rep.oblige("harness:comparators", False, f"{m['origin']}: canon says {'equal' if code in (0, 1) else 'different'}, python bisimulation says {res['py_iso']}")
    # (c) exactly one root row per object
    if m["nroot"] != m.get("nobj", ft["n"]):
        bad.append((m, f"{m['nroot']} rows in the root tables for {m.get('nobj', ft['n'])} objects"))
        return
    # (d) loading through the other classes of the chain
    if res["chain_disagree"]:
        if m.get("altbase_relaxed_ok") and inst.get("_c04c_open"):
            inst["C04-c"] += 1
            return
        bad.append((m, f"loading through a base DAO class gives a different graph: {res['chain_disagree']}"))
        return
    # (b) rows per table
    if model_ok and rows_ok != 1:
        # flush is exact wherever to_dao is modelled (no alternatively mapped objects) and the DAO graph fits the schema:
        # repeated elements and self-referential values change the reload, not the rows written
        if in_f or (frag & 3) == 3:
            bad.append((m, "rows per table / association table differ from the model's flush (one row per object and per collection element)"))
            return
        rep.note(f"{m['origin']}: rows per table differ from the model's flush (graph with alternatively mapped objects)")
    if code == 0:
        return
    if code == 1:
        if in_f:
            rep.oblige("correspondence:model", False, f"{m['origin']}: impl = spec but the model differs inside the fragment (contradicts C05_reload)")
        else:
            tallies["stale"] += 1
        return
    if code != 0 and rule_instances(m):
        for fid in rule_instances(m):
            inst[fid] = inst.get(fid, 0) + 1
        return
    if code in (2, 3) and not in_f and m.get("altbase_relaxed_ok") and inst.get("_c04c_open"):
        inst["C04-c"] += 1
        return
    if code in (2, 3) and not in_f:
        altc = ft["altcycle"] and not (frag & 1)
        # exact instance: the implementation fails exactly as the faithful model predicts
        # (C05-a is fixed by 22a99b9: a lost self-referential link is a VIOLATION again, not an instance)
        if code == 2 and not ft["selfref_shared"] and (ft["repeated_elems"] or altc):
            for k, on in (("C05-b", ft["repeated_elems"]), ("C04-a", altc)):
                inst[k] += 1 if on else 0
            return
        if altc and "Mapping" in (res["py_iso"] or "") and not ft["selfref_shared"]:
            inst["C04-a"] += 1     # combined with another class: the difference found is the mapping object of C04-a
            return
        # C05-b and C04-a at once, in the subclass of C04-a where the model's single field order is inexact (code 3): the input is in BOTH
        # decidable classes (a repeated collection element; a cycle first entered at an alternatively mapped object), the first difference is
        # C05-b's shorter collection, and once the input is normalised as C05-b records (first occurrences only) the difference left is the
        # mapping object of C04-a
        left = m.get("defect_view_diff") or ""
        if (code == 3 and altc and ft["repeated_elems"] and m.get("is_db") and not ft["selfref_shared"]
                and "collection length" in (res["py_iso"] or "") and ": class " in left and left.endswith("Mapping")):
            inst["C05-b"] += 1
            inst["C04-a"] += 1
            tallies["combined_b_a"] = tallies.get("combined_b_a", 0) + 1
            return
    bad.append((m, f"code {code} frag {frag}: {res['py_iso']}"))


DIST_KEYS = (("ownhier_single_refs>0", "ownhier_single_refs"), ("ownhier_shared_target>0", "ownhier_shared_target"), ("shared>0", "shared"), ("cyclic>0", "cyclic_objs"), ("none>0", "none_refs"), ("empty_coll>0", "empty_colls"),
             ("repeated_elem>0", "repeated_elems"), ("subclass_in_base_field>0", "subclass_in_base_field"), ("alt>0", "alt_objs"),
             ("altbase>0", "altbase_objs"), ("selfref_values>0", "selfref_values"), ("selfref_shared>0", "selfref_shared"))


def tally(dist, m):
    ft = m["ft"]
    dist["multi_root"] = dist.get("multi_root", 0) + (1 if m["root_class"] == "_Holder" else 0)
    dist["n"][ft["n"]] = dist["n"].get(ft["n"], 0) + 1
    dist["root_class"][m["root_class"]] = dist["root_class"].get(m["root_class"], 0) + 1
    for k, key in DIST_KEYS:
        dist[k] += 1 if ft[key] else 0
    dist["altcycle"] += 1 if ft["altcycle"] else 0
    if "via" in m["res"]:
        n = len(m["res"]["via"])
        dist["chain_len"][n] = dist["chain_len"].get(n, 0) + 1


def new_dist():
    d = {"n": {}, "root_class": {}, "chain_len": {}, "altcycle": 0}
    d.update({k: 0 for k, _ in DIST_KEYS})
    return d


def run(tier: str, seed: int, replay=None) -> int:
    rep = Report(PROP, tier, seed, "other")
    rep.trusted = core.COQ_TRUSTED + [
        "MODELLED, compared per run, not proved: SQLAlchemy 2.0 (declarative joined-table inheritance, flush with post_update, "
        "relationship direction inference, secondary tables, uniquing of collection loads, polymorphic load through any class of the chain, "
        "lazy loading) and SQLite; type coercion of Float/String/JSON/Enum/DateTime/custom TypeDecorator columns",
        "hand-written models Orm/ObjGraphWalk.v (to_dao/from_dao) and Orm/Rows.v (schema, flush, load); the schema parameter "
        "(parent tables, own data columns, relationship order, ONETOMANY single references) is read from the real mappers on every run",
        "source pins pins/ormrt.json (41 methods of dao.py, alternative_mappings.py, custom_types.py, wrapped_table.py, utils.create_engine that the hand "
        "models mirror; a changed method reopens the correspondence obligation)",
        "harness/c04.py (class table, builder, heap dump, scalar interning with numbers by value, python bisimulation) and harness/c05.py "
        "(incl. the generator of class models)",
        "user code of the dataset (alternative mappings, ConceptType decorator, __post_init__) is run, not modelled",
    ]
    rep.assume = ["primary keys: any assignment injective per hierarchy (theorem); the run uses SQLite's rowids",
                  "collections are compared in order; the statement only asks for the same elements, but no order difference has ever been observed"]
    rep.rule = ("(1) dataset: C04's generator (rooted graphs over 24 dataset classes, 1..10 objects, sharing, cycles, None, empty collections, subclass "
                "instances in base-typed fields, alt-mapped objects, TypeType / ConceptType / JSON / enum / datetime columns) with repeated collection "
                "elements removed in 80% of the cases; (2) freshly generated class models (2..5 classes, inheritance depth <= 3, scalar/Optional/JSON-list "
                "columns, single references and collections into any class incl. the own hierarchy), one subprocess per model: ORMatic generates the layer, "
                "same graph generator.  Every case: fresh in-memory SQLite engine from krrood's create_engine, commit in session 1, Session.get in a new "
                "session through EVERY DAO class of the root's chain.  distinct = distinct graph descriptions; non-trivial = at least 2 objects")
    ok_spec, log = core.coq_make(["Base/Sx.vo", "Orm/IsoCanon.vo"])
    rep.oblige("build:spec", ok_spec, "" if ok_spec else core.first_error(log))
    model_ok = core.standard_proof_steps(rep, PROP, ["Props/C05.vo"])
    from translator import pins
    pins.oblige(rep, str(core.REPO), "ormrt", "Orm/ObjGraphWalk.v + ToDao.v + FromDao.v + Rows.v (hand models of to_dao/from_dao and of the relational layer)")
    try:
        rep.oblige("regen:dataset-layer", True, regen_interface())
    except Exception as e:  # noqa
        rep.oblige("regen:dataset-layer", False, f"{type(e).__name__}: {str(e)[:400]}")
        rep.note("falling back to the committed test/dataset/ormatic_interface.py to search for a failing input")
    try:
        sc = read_schema()
        rep.oblige("impl:dataset-layer", True, f"{len(sc['tables'])} tables, {len(sc['assoc'])} association tables, ONETOMANY single references: {sc['selfref']}")
    except Exception as e:  # noqa
        rep.oblige("impl:dataset-layer", False, f"{type(e).__name__}: {e}")
        return rep.finish()

    findings = core.load_findings(PROP)
    OPEN_RULES.clear()
    OPEN_RULES.update(rule for rule, fid in RULE_FINDING.items() if any(f.fid == fid and f.kind == "open" for f in findings))
    descrs: List[dict] = []
    origin: List[str] = []
    corpus_models: List[Any] = []
    nmodels, per_model = 0, 0
    if replay is None or (isinstance(replay.get("case"), dict) and replay["case"].get("scenario") == "todao_state_db"):
        try:
            obs = todao_state_db_scenario()
        except Exception as e:  # noqa
            obs = {"ok": False, "exc": f"{type(e).__name__}: {str(e)[:200]}"}
        rep.count("todao_state_db", True)
        rep.extra["todao_state_db"] = obs
        if not obs["ok"]:
            rep.violation({"kind": "counterexample", "case": {"scenario": "todao_state_db"}, "impl": obs,
                           "spec": "300 short-lived Position(i,i,i) converted with ONE ToDAOState, added to one Session and committed: 300 rows, "
                                   "row i reloads with x = i",
                           "python": "from harness import c05; print(c05.todao_state_db_scenario())"})
        if replay is not None:
            return rep.finish()
    if replay is None:
        rep.extra["scenarios"] = run_scenarios(rep, PROP, findings)
    replay_model = replay is not None and "class_model" in replay
    if replay_model:
        pass      # a case over a generated class model: re-run by a worker that re-installs the stored model
    elif replay is not None:
        descrs, origin = [replay["case"]], ["replay"]
    else:
        cdir = core.VERIF / "corpus" / PROP
        for f in sorted(cdir.glob("*.json")) if cdir.is_dir() else []:
            w = json.loads(f.read_text())
            c = w["case"]
            if "class_model" in w:
                corpus_models.append(f)
            elif isinstance(c, dict) and "objs" in c:
                descrs.append(c)
                origin.append(f"corpus/{PROP}/{f.name}")
        rng = core.Rng(seed).fork(5)
        ncases = 300 if tier == "quick" else 4000
        nmodels, per_model = (6, 30) if tier == "quick" else (24, 120)
        for i in range(ncases):
            g = gen_graph(rng.fork(i), 10 if tier == "quick" or i % 4 else 16)
            if i % 5 == 4:     # several roots, ONE ToDAOState, reloaded and converted with ONE explicitly created FromDAOState
                g = c04.make_multi(rng.fork(1000000 + i), g)
            descrs.append(g)
            origin.append(f"gen:{i}")

    # generated models: workers run while the dataset cases are executed here
    procs = []
    gdir = core.WORK / PROP / "genmodels"
    gdir.mkdir(parents=True, exist_ok=True)
    if replay_model:
        rf = gdir / "replay_in.json"
        rf.write_text(json.dumps(replay))
        procs.append(("replay", gdir / "out_replay.json", spawn_worker(PROP, seed, int(replay["class_model"]["idx"]), 1, model_ok, gdir / "out_replay.json", rf)))
    for f in corpus_models:       # witnesses over generated class models: re-installed and run by a worker
        w = json.loads(f.read_text())
        outw = gdir / f"out_corpus_{f.stem}.json"
        procs.append((f"corpus:{f.name}", outw, spawn_worker(PROP, seed, int(w["class_model"]["idx"]), 1, model_ok, outw, f)))
    for j in range(nmodels):
        outf = gdir / f"out_{j}.json"
        procs.append((j, outf, spawn_worker(PROP, seed, j, per_model, model_ok, outf)))

    dist = new_dist()
    metas: List[Dict[str, Any]] = []
    for d, org in zip(descrs, origin):
        m = prepare_case(d, org, sc, model_ok)
        if m["anomalies"]:
            rep.oblige("harness:dump", False, f"{org}: {m['anomalies']}")
        rep.count(json.dumps(d, sort_keys=True), m["ft"]["n"] >= 2)
        tally(dist, m)
        metas.append(m)

    gdist = new_dist()
    gen_info = {"models": 0, "setup_errors": [], "schemas": []}
    for j, outf, pr in procs:
        o = collect_worker(rep, j, outf, pr)
        if o is None:
            continue
        if "setup_error" in o:
            # a model inside the documented grammar that ORMatic cannot turn into a working layer is C06's concern; recorded, not judged here
            gen_info["setup_errors"].append({"model": j, "error": o["setup_error"]})
            continue
        gen_info["models"] += 1
        gen_info["schemas"].append(o["schema"])
        for m in o["cases"]:
            m["generated"] = True
            m["model"], m["source"] = o["model"], o.get("source")
            for k in ("falsy_objs", "falsy_behind_single_ref", "falsy_in_collection"):
                gdist[k + ">0"] = gdist.get(k + ">0", 0) + (1 if m["ft"].get(k) else 0)
            rep.count(m["origin"] + json.dumps(m["descr"], sort_keys=True), m["ft"]["n"] >= 2)
            tally(gdist, m)
            metas.append(m)

    if not model_ok:
        rep.note("model not available; comparing the implementation with the Spec only (search for a failing input)")
    idx = [i for i, m in enumerate(metas) if m["expr"]]
    try:
        vals = core.coq_values(PROP, HEADER if model_ok else HEADER_SPEC, [metas[i]["expr"] for i in idx], chunk=40)
    except core.CoqEvalError as e:
        rep.oblige("correspondence:evaluate", False, str(e)[:400])
        return rep.finish()
    codes = dict(zip(idx, vals))

    inst = {"C05-b": 0, "C04-a": 0, "C04-c": 0,
            "_c04c_open": any(f.fid == "C04-c" and f.kind == "open" for f in findings)}
    tallies = {"in_F": 0, "stale": 0}
    bad: List[Tuple[dict, str]] = []
    for i, m in enumerate(metas):
        decide(rep, m, codes.get(i), model_ok, inst, tallies, bad)
    if tallies["stale"]:
        rep.note(f"{tallies['stale']} cases outside the fragment where impl = spec but the model predicts a failure (model inexact there / finding repaired)")
    dist["in_F"] = tallies["in_F"]
    rep.extra["inexact_model_instances"] = {"C05-b+C04-a": tallies.get("combined_b_a", 0)}
    rep.extra["distribution"] = {"dataset": dist, "generated_models": gdist, "generated_model_info": gen_info}
    inst.pop("_c04c_open", None)
    rep.extra["known_finding_instances"] = inst
    rep.extra["schema"] = {"tables": len(sc["tables"]), "association_tables": len(sc["assoc"]), "selfref_tags": sc["selfref"]}
    rep.samples = [{"case": m["descr"], "features": m["ft"], "loaded_via": m["res"].get("via"), "origin": m["origin"]} for m in metas[:: max(1, len(metas) // 5)]][:5]
    for m, why in bad[:5]:
        res0 = m["res"]
        if not m.get("generated"):
            def fails(d, res0=res0):
                res = run_impl(d)
                if "exc" in res0:
                    return "exc" in res
                if res0.get("py_iso") is None:
                    return False          # row-count / chain failures are not shrunk
                return "exc" not in res and res.get("py_iso") is not None and not features(d)["repeated_elems"]
            small = c04.shrink(m["descr"], fails, budget=60)
            if small != m["descr"]:
                r2 = run_impl(small)
                m = {"descr": small, "origin": m["origin"] + " (shrunk)", "ft": features(small), "res": r2}
                why = "exception " + r2["exc"] if "exc" in r2 else f"shrunk: {r2.get('py_iso')}"
        rec = {"kind": "counterexample", "case": m["descr"], "origin": m["origin"], "features": m["ft"], "why": why,
               "impl_result_heap": m["res"].get("heap"), "table_counts": m.get("table_counts_nz"),
               "python": f"from harness import c05; print(c05.explain({m['descr']!r}))",
               "explanation": "the graph is built through the class constructors, to_dao, Session.add/commit on a fresh in-memory engine, "
                              "Session.get in a new Session, from_dao; compared with the input by canonical form and by python bisimulation"}
        if m.get("generated"):
            rec["model_source"] = m.get("source")
            rec["class_model"] = m.get("model")     # ./check C05 --replay <this file> re-installs the model in a worker and re-runs the case
            rec["python"] = ("# generated class model: save model_source as a module, generate its layer with ORMatic(ClassDiagram(classes)), "
                             "then build the graph in 'case' (objs[i].c = class, s = scalar kwargs, r = reference fields by object index), "
                             "to_dao -> add/commit -> new Session.get -> from_dao")
        rep.violation(rec)
    if replay is None:
        for f in findings:
            w = json.loads((core.VERIF / f.witness).read_text())
            if f.cls.startswith("K_scn"):
                continue          # judged by run_scenarios
            if f.cls == "K_altbase_tmp":
                obs = c04.altbase_tmp_observe()
                rep.extra["altbase_tmp"] = obs
                if obs["wrong"] and obs["as_predicted"] and f.kind == "open":
                    rep.known(f)
                elif obs["wrong"]:
                    rep.violation({"kind": "counterexample", "case": {"scenario": "altbase_tmp"}, "impl": obs,
                                   "python": "from harness import c04; print(c04.altbase_tmp_scenario())"})
                elif f.kind == "open":
                    rep.note("known finding C04-c: the scenario no longer yields a wrong object (repaired, or the address was not reused)")
                continue
            still = any(m["origin"] == f.witness and (m.get("code") == 2 or "exc" in m["res"] or f.fid in rule_instances(m))
                        for m in metas)
            if f.kind == "open":
                if still:
                    rep.known(f)
                else:
                    rep.note(f"known finding {f.fid}: witness {f.witness} no longer fails as recorded (finding appears repaired or changed)")
            elif any(m["origin"] == f.witness and (m.get("code") != 0 or "exc" in m["res"]) for m in metas):
                rep.violation({"kind": "counterexample", "case": w["case"], "why": f"regression of fixed finding {f.fid}",
                               "python": f"from harness import c05; print(c05.explain({w['case']!r}))"})
    return rep.finish()


if __name__ == "__main__":
    import sys
    if len(sys.argv) > 1 and sys.argv[1] == "--worker":
        sys.exit(_worker_main(sys.argv[2:]))
    if len(sys.argv) > 1 and sys.argv[1] == "--scenarios":
        sys.exit(_scenario_main(sys.argv[2:]))
