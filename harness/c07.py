"""C07 -- an EQL query translated to SQL selects the same entities as in-memory evaluation.

Tie: correspondence (H).  Objects of the dataset classes are persisted into in-memory SQLite through the public
to_dao path; random queries are built through the public EQL API; for each case four outcomes are compared:
  mem   query.evaluate()                               (implementation, in memory)
  sql   eql_to_sql(query, session).evaluate()          (implementation, translated)
  model sem (translate q) (encode world)               (Coq: Orm/EqlToSql.v over Orm/SqlAlg.v)
  spec  answers q world                                (Coq: Orm/EqlToSqlSpec.v)
The property is mem == sql (or sql rejected with EQLTranslationError).  Inside F07 (decided in Coq by `f07`) the
theorem C07_agree gives model == spec, so any difference is a VIOLATION; outside, a difference is an instance of a
listed known finding only if it falls in the listed class and the implementation did exactly what the faithful
model predicts."""
from __future__ import annotations

import json
import warnings
from typing import Any, Dict, List, Optional, Tuple

from . import core
from .core import Report

PROP = "C07"
HEADER_BASE = """From Coq Require Import List ZArith.
From Krrood Require Import Base.Sx Orm.EqlToSqlSpec Orm.SqlAlg Orm.EqlToSql.
Import ListNotations. Open Scope Z_scope.
"""
HEADER_SPEC_BASE = """From Coq Require Import List ZArith.
From Krrood Require Import Base.Sx Orm.EqlToSqlSpec.
Import ListNotations. Open Scope Z_scope.
"""

# ------------------------------------------------------------------ schema (mirrors test/dataset classes)
CLS = {"Position": 1, "Position4D": 2, "Orientation": 3, "Pose": 4, "Body": 5, "Handle": 6, "Container": 7,
       "Connection": 8, "FixedConnection": 9, "PrismaticConnection": 10, "World": 11, "WorldEntity": 12, "Atom": 13,
       "OriginalSimulatedObject": 14, "EntityAssociation": 15, "int": 100}
ATTR = {"name": 1, "id_": 2, "x": 3, "y": 4, "z": 5, "w": 6, "position": 7, "orientation": 8, "size": 9,
        "parent": 10, "child": 11, "world": 12, "id": 13, "element": 14, "type": 15, "charge": 16,
        "bodies": 17, "concept": 18, "placeholder": 19, "a": 20}  # bodies: a collection relationship, deliberately in no class's FIELDS
# a: the list-valued (JSON column) attribute of EntityAssociation, in no FIELDS either: not a column the translator may use (was C07-ad)
PARENT = {"Position4D": "Position", "Handle": "Body", "Container": "Body", "FixedConnection": "Connection",
          "PrismaticConnection": "Connection", "Body": "WorldEntity", "Connection": "WorldEntity"}
# field -> "int" | "str" | ("rel", target)         (all mapped to-one fields, inherited ones included)
_POS = {"x": "int", "y": "int", "z": "int"}
_BODY = {"name": "str", "size": "int", "world": ("rel", "World")}
_CONN = {"parent": ("rel", "Body"), "child": ("rel", "Body"), "world": ("rel", "World")}
FIELDS: Dict[str, Dict[str, Any]] = {
    "Position": _POS, "Position4D": dict(_POS, w="int"), "Orientation": dict(_POS, w="int"),
    "Pose": {"position": ("rel", "Position"), "orientation": ("rel", "Orientation")},
    "Body": _BODY, "Handle": _BODY, "Container": _BODY,
    "Connection": _CONN, "FixedConnection": _CONN, "PrismaticConnection": _CONN,
    "World": {"id": "int"}, "WorldEntity": {"world": ("rel", "World")},
    "Atom": {"element": "enum", "type": "int", "charge": "int"},       # element: Enum column (a String subclass in SQLAlchemy)
    "OriginalSimulatedObject": {"concept": "deco", "placeholder": "int"},   # concept: TypeDecorator over text (an object or None in memory)
    "EntityAssociation": {},                                            # only its JSON attribute `a` is used, as a bare condition (rejected)
    "int": {},                                                          # pseudo class of plain-valued variables: let(int, [...])
}
NULLABLE = {("Orientation", "w"), ("Body", "world"), ("Handle", "world"), ("Container", "world"),
            ("Connection", "world"), ("FixedConnection", "world"), ("PrismaticConnection", "world")}


def ancestors(c: str) -> List[str]:
    out = [c]
    while c in PARENT:
        c = PARENT[c]
        out.append(c)
    return out


def is_sub(c: str, a: str) -> bool:
    return a in ancestors(c)


def schema_term() -> str:
    fs = []
    for c, fields in FIELDS.items():
        items = []
        for a, k in fields.items():
            kind = "FScalar" if isinstance(k, str) else f"FRel {CLS[k[1]]}"
            items.append(f"({ATTR[a]}, {kind})")
        fs.append(f"({CLS[c]}, [{'; '.join(items)}])")
    sub = [f"({CLS[c]}, {CLS[a]})" for c in CLS for a in ancestors(c)]
    def cols(kind):
        return "; ".join(f"({CLS[c]}, {ATTR[a]})" for c, fields in FIELDS.items() for a, k in fields.items() if k == kind)
    return ("{| sc_fields := [" + "; ".join(fs) + "]; sc_sub := [" + "; ".join(sub) + "]; sc_enums := [" + cols("enum") +
            "]; sc_nums := [" + cols("int") + "]; sc_texts := [" + cols("str") + "] |}")


# ------------------------------------------------------------------ worlds
# a world is a JSON list of objects: {"k": local index, "c": class, "f": {field: int | str | None | {"ref": index}}}
STRS = ["Body1", "body1", "Bo", "B%", "a_c", "abc", "", "ABC", "b"]


def gen_world(rng: core.Rng, nulls: bool, prismatic: bool = True) -> List[dict]:
    objs: List[dict] = []

    def add(c, f):
        objs.append({"k": len(objs), "c": c, "f": f})
        return len(objs) - 1

    npos = rng.randint(2, 5)
    pos = [add("Position", {a: rng.randint(0, 3) for a in "xyz"}) for _ in range(npos)]
    if rng.chance(0.7):
        pos += [add("Position4D", {a: rng.randint(0, 3) for a in "xyzw"}) for _ in range(rng.randint(1, 2))]
    ori = [add("Orientation", dict({a: rng.randint(0, 3) for a in "xyz"},
                                   w=(None if nulls and rng.chance(0.35) else rng.randint(0, 3))))
           for _ in range(rng.randint(2, 4))]
    for _ in range(rng.randint(2, 5)):
        add("Pose", {"position": {"ref": rng.choice(pos)}, "orientation": {"ref": rng.choice(ori)}})
    for _ in range(rng.randint(2, 3)):
        add("OriginalSimulatedObject", {"concept": rng.choice([{"obj": "Cup"}, {"obj": "Bowl"}]), "placeholder": rng.randint(0, 3)})
    for _ in range(rng.randint(2, 4)):
        add("Atom", {"element": {"enum": rng.choice(["C", "H"])}, "type": rng.randint(0, 3), "charge": rng.randint(0, 3)})
    worlds = [add("World", {"id": rng.randint(0, 3)}) for _ in range(rng.randint(1, 2))]
    bodies = []
    for _ in range(rng.randint(2, 5)):
        c = rng.choice(["Body", "Body", "Handle", "Container"])
        wref = None if nulls and rng.chance(0.3) else {"ref": rng.choice(worlds)}
        bodies.append(add(c, {"name": rng.choice(STRS), "size": rng.randint(0, 3), "world": wref}))
        if rng.chance(0.3):                                   # a second body equal to it by value
            bodies.append(add(c, dict(objs[-1]["f"])))
    for _ in range(rng.randint(2, 5)):
        c = rng.choice(["FixedConnection", "PrismaticConnection", "Connection"] if prismatic else ["FixedConnection", "Connection"])
        wref = None if nulls and rng.chance(0.3) else {"ref": rng.choice(worlds)}
        add(c, {"parent": {"ref": rng.choice(bodies)}, "child": {"ref": rng.choice(bodies)}, "world": wref})
    # equality-join structure: Fixed(Y->U) has two prismatic partners ending in Y, Fixed(U->X) has none, Fixed(Z->U) has one
    wj = {"ref": worlds[0]}
    X, Y, Z, U = (add("Body", {"name": n, "size": sz, "world": wj}) for n, sz in (("jx", 6), ("jy", 5), ("jz", 4), ("ju", 7)))
    for c, a, b in (("PrismaticConnection", X, Y), ("PrismaticConnection", Z, Y), ("FixedConnection", Y, U),
                    ("FixedConnection", U, X), ("PrismaticConnection", U, Z), ("FixedConnection", Z, U)):
        if c == "PrismaticConnection" and not prismatic:
            continue                                          # a world in which the other table of the joins is empty
        add(c, {"parent": {"ref": a}, "child": {"ref": b}, "world": wj})
    for lst in (["x"], [], None, ["y", "z"]):                 # list-valued attribute: non-empty, empty, absent
        add("EntityAssociation", {})
        objs[-1]["x"] = lst
    return objs


def extra_queries() -> List[dict]:
    """shapes repaired in round 8, fixed per world: a JSON attribute as a bare condition, a one-shot iterator as container,
    a text attribute against a numeric attribute of the same entity (directly and through a reference)"""
    out = []
    ja = ["truth", ["attr", "ea", ["a"]]]
    for c in (ja, ["not", ja], ["and", ja, ja], ["or", ja, ["not", ja]]):
        out.append({"the": False, "sel": "ea", "vars": {"ea": "EntityAssociation"}, "cond": c})
    for sel, sel_c, ch in (("b", "Body", ["size"]), ("c", "Connection", ["child", "size"]), ("p", "Position", ["x"])):
        it = ["incoll", "iter", [0, 1, 2, 6], ["attr", sel, ch]]
        for c in (it, ["or", it, ["cmp", "==", ["attr", sel, ch], ["lit", 3]]], ["not", it]):
            out.append({"the": False, "sel": sel, "vars": {sel: sel_c}, "cond": c})
    for sel, sel_c, pre in (("b", "Body", []), ("h", "Handle", []), ("c", "Connection", ["parent"]), ("f", "FixedConnection", ["child"])):
        n, z = ["attr", sel, pre + ["name"]], ["attr", sel, pre + ["size"]]
        for op in ("==", "!=", "<", ">="):
            out.append({"the": False, "sel": sel, "vars": {sel: sel_c}, "cond": ["cmp", op, n, z]})
            out.append({"the": False, "sel": sel, "vars": {sel: sel_c}, "cond": ["cmp", op, z, n]})
        out.append({"the": False, "sel": sel, "vars": {sel: sel_c}, "cond": ["or", ["cmp", "==", n, z], ["cmp", ">=", z, ["lit", 0]]]})
    return out


def join_queries() -> List[dict]:
    """equality joins between a fixed and a prismatic connection, alone and next to one comparison that isolates a single
    selected entity (sizes 4..7 are unique to the join structure of gen_world), each as an(...) and as the(...)"""
    out = []
    for sel_c, c2 in (("FixedConnection", "PrismaticConnection"), ("PrismaticConnection", "FixedConnection")):
        sel, v2 = VARS[sel_c][0], VARS[c2][0]
        for r1 in ("parent", "child"):
            for r2 in ("parent", "child"):
                ej = ["cmp", "==", ["attr", sel, [r1]], ["attr", v2, [r2]]]
                conds = [ej, ["cmp", "==", ["attr", v2, [r2]], ["attr", sel, [r1]]]]
                for end in ("parent", "child"):
                    for sz in (4, 5, 6, 7):
                        conds.append(["and", ej, ["cmp", "==", ["attr", sel, [end, "size"]], ["lit", sz]]])
                    conds.append(["and", ["cmp", ">=", ["attr", sel, [end, "size"]], ["lit", 4]], ej])
                for c in conds:
                    for the in (False, True):
                        out.append({"the": the, "sel": sel, "vars": {sel: sel_c, v2: c2}, "cond": c})
                ej2 = ["cmp", "==", ["attr", sel, ["child" if r1 == "parent" else "parent"]], ["attr", v2, [r2]]]
                plain = ["cmp", "==", ["attr", sel, ["child", "size"]], ["lit", 7]]
                plain2 = ["cmp", "==", ["attr", sel, ["child", "size"]], ["lit", 6]]
                plain3 = ["cmp", ">=", ["attr", sel, ["parent", "size"]], ["lit", 6]]
                v3 = VARS[c2][1]
                ej3 = ["cmp", "==", ["attr", sel, ["child" if r1 == "parent" else "parent"]], ["attr", v3, [r2]]]
                out.append({"the": False, "sel": sel, "vars": {sel: sel_c, v2: c2, v3: c2}, "cond": ["and", ej, ej3]})      # two variables of one type
                out.append({"the": False, "unnamed": True, "sel": sel, "vars": {sel: sel_c, v2: c2, v3: c2}, "cond": ["and", ej, ej3]})
                out.append({"the": False, "unnamed": True, "sel": sel, "vars": {sel: sel_c, v2: c2}, "cond": ej})
                out.append({"the": False, "sel": sel, "vars": {sel: sel_c, v2: c2},
                            "cond": ["cmp", "==", ["attr", sel, [r1, "world"]], ["attr", v2, ["world"]]]})                 # a join equality over two hops
                for c in (["and", ej, ej2], ["or", ej, ej2], ["or", ej, plain], ["or", plain, ej], ["and", plain, ["or", ej, ej2]],
                          # or_(a, b, join) = OR(OR(a, b), join): the join alternative comes after a nested or_ has closed
                          ["or", ["or", plain, plain2], ej], ["or", ["or", plain2, plain3], ej2],
                          ["or", ["and", plain3, ["or", plain, plain2]], ej], ["or", ["or", ["or", plain, plain2], plain3], ej],
                          ["and", plain3, ["or", ["or", plain, plain2], ej]], ["or", ["or", plain, ej], ["or", plain2, ej2]]):
                    out.append({"the": False, "sel": sel, "vars": {sel: sel_c, v2: c2}, "cond": c})
    return out


class LiveWorld:
    """The world as Python objects, persisted into a fresh in-memory SQLite database."""

    def __init__(self, spec: List[dict]):
        _imports()
        from sqlalchemy.orm import Session
        from krrood.ormatic.dao import to_dao, ToDAOState
        from krrood.ormatic.utils import create_engine
        self.spec = spec
        self.objs: List[Any] = [None] * len(spec)
        for o in spec:
            self.objs[o["k"]] = self._make(o)
        self.engine = create_engine("sqlite:///:memory:")
        _NS["Base"].metadata.create_all(self.engine)
        st = ToDAOState()
        with Session(self.engine) as s0:
            for ob in self.objs:
                s0.add(to_dao(ob, st))
            s0.commit()
            self.key = {id(ob): st.memo[id(ob)].database_id for ob in self.objs}
        self.keys = [self.key[id(ob)] for ob in self.objs]
        self.session = Session(self.engine)

    def _make(self, o):
        c, f = o["c"], o["f"]
        K = _NS[c]

        def ref(v):
            return None if v is None else self.objs[v["ref"]]
        if c == "Atom":
            return K(_NS["Element"][f["element"]["enum"]], f["type"], f["charge"])
        if c == "EntityAssociation":
            return K(_NS["Entity"](f"e{o['k']}"), a=o.get("x"))
        if c == "OriginalSimulatedObject":
            # (a None concept is stored as the text 'builtins.NoneType' by ConceptType and cannot be loaded again: C05's subject)
            return K(_NS[f["concept"]["obj"]](), f["placeholder"])
        if c in ("Position",):
            return K(f["x"], f["y"], f["z"])
        if c in ("Position4D", "Orientation"):
            return K(f["x"], f["y"], f["z"], f["w"])
        if c == "Pose":
            return K(ref(f["position"]), ref(f["orientation"]))
        if c == "World":
            return K(f["id"])
        if c in ("Body", "Handle", "Container"):
            return K(f["name"], f["size"], world=ref(f["world"]))
        return K(ref(f["parent"]), ref(f["child"]), world=ref(f["world"]))

    def domain(self, cname: str) -> List[Any]:
        if cname == "int":
            return [2, 4]
        return [ob for o, ob in zip(self.spec, self.objs) if is_sub(o["c"], cname)]

    def close(self):
        self.session.close()
        self.engine.dispose()


_NS: Dict[str, Any] = {}


def _imports():
    if _NS:
        return
    warnings.filterwarnings("ignore")
    from sqlalchemy.orm import configure_mappers
    import test.dataset.example_classes as ex
    import test.dataset.semantic_world_like_classes as sw
    import test.dataset.ormatic_interface as oi
    for n in ("Position", "Position4D", "Orientation", "Pose", "Atom", "Element", "OriginalSimulatedObject", "Cup", "Bowl", "Entity", "EntityAssociation"):
        _NS[n] = getattr(ex, n)
    _NS["int"] = int
    for n in ("Body", "Handle", "Container", "Connection", "FixedConnection", "PrismaticConnection", "World"):
        _NS[n] = getattr(sw, n)
    _NS["Base"] = oi.Base
    configure_mappers()


def zs(s: str) -> str:
    return "[" + "; ".join(str(ord(ch)) for ch in s) + "]"


def val_term(v, keys: Optional[List[int]] = None) -> str:
    if v is None:
        return "VNull"
    if isinstance(v, bool):
        raise TypeError(v)
    if isinstance(v, int):
        return f"VInt {core.zlit(v)}"
    if isinstance(v, str):
        return f"VStr {zs(v)}"
    if isinstance(v, dict) and "enum" in v:
        return "VStr (0 :: " + zs(v["enum"]) + ")"           # an Enum member: marker 0, then the stored name
    if isinstance(v, dict) and "obj" in v:
        return "VStr " + zs(v["obj"])                        # an object behind a TypeDecorator: some non-empty text
    if isinstance(v, dict):
        return f"VRef {keys[v['ref']]}"
    raise TypeError(v)


def world_term(spec: List[dict], keys: List[int]) -> str:
    out = []
    for o in spec:
        fs = "; ".join(f"({ATTR[a]}, {val_term(v, keys)})" for a, v in o["f"].items())
        out.append(f"{{| o_key := {keys[o['k']]}; o_cls := {CLS[o['c']]}; o_fields := [{fs}] |}}")
    return "[" + ";\n   ".join(out) + "]"


# ------------------------------------------------------------------ queries
# cond JSON:  ["cmp", op, operand, operand] | ["in", container, item] | ["and", c, c] | ["or", c, c] | ["not", c] | ["truth", operand]
# operand:    ["attr", var, [names]] | ["lit", v] | ["list", [v..]] | ["var", var]
OPS = {"==": "OEq", "!=": "ONe", "<": "OLt", "<=": "OLe", ">": "OGt", ">=": "OGe"}
VARID: Dict[str, int] = {}


def varid(v: str) -> int:
    return VARID.setdefault(v, len(VARID) + 1)


def operand_term(x) -> str:
    k = x[0]
    if k == "attr":
        return f"OAttr {varid(x[1])} [{'; '.join(str(ATTR[a]) for a in x[2])}]"
    if k == "lit":
        return f"OLit ({val_term(x[1])})"
    if k == "list":
        return "OList [" + "; ".join(val_term(v) for v in x[1]) + "]"
    if k == "var":
        return f"OVar {varid(x[1])}"
    raise ValueError(x)


def cond_term(c) -> str:
    k = c[0]
    if k == "cmp":
        return f"CCmp {OPS[c[1]]} ({operand_term(c[2])}) ({operand_term(c[3])})"
    if k == "in":
        return f"CContains ({operand_term(c[1])}) ({operand_term(c[2])})"
    if k == "and":
        return f"CAnd ({cond_term(c[1])}) ({cond_term(c[2])})"
    if k == "or":
        return f"COr ({cond_term(c[1])}) ({cond_term(c[2])})"
    if k == "not":
        return f"CNot ({cond_term(c[1])})"
    if k == "truth":
        return f"CTruth ({operand_term(c[1])})"
    if k == "inset":
        return "CInSet [" + "; ".join(val_term(v) for v in c[1]) + f"] ({operand_term(c[2])})"
    if k == "incoll" and c[1] == "iter":                    # a one-shot iterator cannot be read twice: rejected (was C07-ae)
        return "COther"
    if k == "incoll":                                       # in_(item, range / dict / tuple): translated like a list
        return "CContains (OList [" + "; ".join(val_term(v) for v in c[2]) + f"]) ({operand_term(c[3])})"
    if k == "other":
        return "COther"
    raise ValueError(c)


def cond_vars(c, acc=None) -> List[str]:
    acc = [] if acc is None else acc
    for x in c[1:]:
        if isinstance(x, list) and x and isinstance(x[0], str):
            if x[0] in ("attr", "var"):
                if x[1] not in acc:
                    acc.append(x[1])
            elif x[0] in ("cmp", "in", "and", "or", "not", "truth", "inset", "incoll", "other"):
                cond_vars(x, acc)
    return acc


def query_term(q: dict) -> str:
    vs = [q["sel"]] + [v for v in (cond_vars(q["cond"]) if q["cond"] else []) if v != q["sel"]]
    vars_ = "; ".join(f"({varid(v)}, {CLS[q['vars'][v]]})" for v in vs)
    cond = f"Some ({cond_term(q['cond'])})" if q["cond"] else "None"
    return (f"{{| q_the := {'true' if q['the'] else 'false'}; q_setof := {'true' if q.get('setof') else 'false'}; q_sel := {varid(q['sel'])}; "
            f"q_vars := [{vars_}]; q_cond := {cond} |}}")


def build_query(q: dict, lw: LiveWorld):
    from krrood.entity_query_language.entity import let, entity, and_, or_, not_, in_
    from krrood.entity_query_language.quantify_entity import an, the
    # "unnamed": the variables are made without name= (they all carry the default name)
    vs = {v: (let(_NS[c], lw.domain(c)) if q.get("unnamed") else let(_NS[c], lw.domain(c), name=v)) for v, c in q["vars"].items()}

    def ex(x):
        k = x[0]
        if k == "attr":
            e = vs[x[1]]
            for n in x[2]:
                e = getattr(e, n)
            return e
        def pv(v):
            return _NS["Element"][v["enum"]] if isinstance(v, dict) and "enum" in v else v
        if k == "lit":
            return pv(x[1])
        if k == "list":
            return [pv(v) for v in x[1]]
        if k == "var":
            return vs[x[1]]
        raise ValueError(x)

    def cmp(a, op, b):
        return {"==": lambda: a == b, "!=": lambda: a != b, "<": lambda: a < b, "<=": lambda: a <= b,
                ">": lambda: a > b, ">=": lambda: a >= b}[op]()

    def bc(c):
        k = c[0]
        if k == "cmp":
            return cmp(ex(c[2]), c[1], ex(c[3]))
        if k == "in":
            return in_(ex(c[2]), ex(c[1]))          # in_(item, container)
        if k == "and":
            return and_(bc(c[1]), bc(c[2]))
        if k == "or":
            return or_(bc(c[1]), bc(c[2]))
        if k == "not":
            return not_(bc(c[1]))
        if k == "truth":
            return ex(c[1])
        if k == "incoll":
            vals = c[2]
            cont = {"range": lambda: range(min(vals), max(vals) + 1), "dict": lambda: {v: 0 for v in vals},
                    "tuple": lambda: tuple(vals), "iter": lambda: iter(list(vals))}[c[1]]()
            return in_(ex(c[3]), cont)
        if k == "other":
            a = ex(c[2])
            return (a.upper() == "A") if c[1] == "upper" else (a[0] == "a")
        if k == "inset":
            vals = [_NS["Element"][v["enum"]] if isinstance(v, dict) else v for v in c[1]]
            return in_(ex(c[2]), frozenset(vals) if len(vals) % 2 else set(vals))
        raise ValueError(c)
    quant = the if q["the"] else an
    sel = vs[q["sel"]]
    if q.get("setof"):
        from krrood.entity_query_language.entity import set_of
        return quant(set_of([sel], bc(q["cond"])))
    return quant(entity(sel, bc(q["cond"]))) if q["cond"] else quant(entity(sel))


def out_rows(the: bool, keys: List[int]) -> list:
    """[bag-or-the outcome, set outcome] of a successful evaluation"""
    return [[0, sorted(keys)], [0, sorted(set(keys))]]


def run_mem(q: dict, lw: LiveWorld) -> list:
    try:
        query = build_query(q, lw)
        r = query.evaluate()
        if q.get("setof"):                               # rows are bindings {variable: value}: keep the selected variable's value
            def pick(row):
                vals = [getattr(v, "value", v) for v in row.values()]
                return lw.key[id(vals[0])]
            if q["the"]:
                k = pick(r)
                return [[0, [k]], [0, [k]]]
            return out_rows(False, [pick(row) for row in r])
        if q["the"]:
            k = lw.key[id(r)]
            return [[0, [k]], [0, [k]]]
        return out_rows(False, [lw.key[id(o)] for o in r])
    except Exception as e:  # noqa
        n = type(e).__name__
        code = {"NoSolutionFound": 5, "MultipleSolutionFound": 6}.get(n, 7)
        return [[code], [code]]


def run_sql(q: dict, lw: LiveWorld) -> Tuple[list, str]:
    from krrood.ormatic.eql_interface import eql_to_sql, EQLTranslationError
    try:
        query = build_query(q, lw)
    except Exception as e:  # noqa  (building the query is the memory side's concern)
        return [[7], [7]], f"build: {type(e).__name__}"
    try:
        tr = eql_to_sql(query, lw.session)
    except EQLTranslationError as e:
        return [[1], [1]], type(e).__name__
    except Exception as e:  # noqa
        lw.session.rollback()
        return [[2], [2]], f"{type(e).__name__}: {str(e)[:100]}"
    try:
        if q.get("retranslate"):
            tr.translate()
        if q.get("iterate"):
            r = list(tr)
            if q["the"]:
                r = r[0]
        else:
            r = tr.evaluate()
        if q["the"]:
            return [[0, [r.database_id]], [0, [r.database_id]]], ""
        return out_rows(False, [x.database_id for x in r]), ""
    except EQLTranslationError as e:
        return [[1], [1]], type(e).__name__
    except Exception as e:  # noqa
        lw.session.rollback()
        n = type(e).__name__
        code = {"NoResultFound": 5, "MultipleResultsFound": 6}.get(n, 7)
        return [[code], [code]], f"{n}: {str(e)[:100]}"


# ------------------------------------------------------------------ generator
VARS = {"Position": ("p", "q"), "Position4D": ("p4", "q4"), "Orientation": ("o", "o2"), "Pose": ("s", "t"),
        "Body": ("b", "b2"), "Handle": ("h", "h2"), "Connection": ("c", "d"), "FixedConnection": ("f", "f2"),
        "PrismaticConnection": ("pc", "pc2"), "Atom": ("a", "a2"), "World": ("wd", "wd2"),
        "OriginalSimulatedObject": ("so", "so2")}
SEL_WEIGHT = ["Position"] * 3 + ["Pose"] * 4 + ["Connection"] * 3 + ["Body"] * 2 + ["Orientation", "Position4D", "Handle",
                                                                                  "FixedConnection", "PrismaticConnection", "Atom", "Atom", "OriginalSimulatedObject"]


def chains(c: str, depth=0) -> List[Tuple[List[str], Any]]:
    """all attribute chains from class c with the kind of their end"""
    out = []
    for a, k in FIELDS[c].items():
        out.append(([a], k))
        if not isinstance(k, str) and depth < 2:
            for ch, kk in chains(k[1], depth + 1):
                out.append(([a] + ch, kk))
    return out


def gen_query(rng: core.Rng, spec: List[dict], mode: str) -> dict:
    """mode 'f07': only constructs of the proved fragment; 'any': everything the model covers"""
    present = {o["c"] for o in spec}
    sel_c = rng.choice(SEL_WEIGHT)
    sel = VARS[sel_c][0]
    vars_ = {sel: sel_c}
    wild = mode == "any"

    def pick_var() -> str:
        if wild and rng.chance(0.18):
            if rng.chance(0.7):
                v = VARS[sel_c][1]
                vars_[v] = sel_c
                return v
            oc = rng.choice([c for c in VARS if c not in PARENT and not is_sub(sel_c, c)])
            v = VARS[oc][0]
            vars_[v] = oc
            return v
        return sel

    def attr(kind: Optional[str] = None, v: Optional[str] = None):
        v = v or pick_var()
        cs = chains(vars_[v])
        if v != sel and vars_[v] != sel_c:
            cs = [x for x in cs if len(x[0]) == 1]          # chains from a foreign table are not in the generator
        if kind:
            cs = [x for x in cs if x[1] == kind]
        elif wild and rng.chance(0.1):
            cs = [x for x in cs if not isinstance(x[1], str)] or cs
        else:
            cs = [x for x in cs if isinstance(x[1], str)]
        if not cs:
            if v == sel:
                return None, None
            return attr(kind, sel)
        ch, k = rng.choice(cs)
        return ["attr", v, ch], k

    def lit(k):
        if wild and rng.chance(0.04):
            return None
        if k == "enum":
            return {"enum": rng.choice(["C", "H"])}
        return rng.randint(0, 3) if k == "int" else rng.choice(STRS)

    def ops_for(k):
        # Enum members have no order in Python: ordering them is generated only outside the F07 mode (must be rejected: was C07-o)
        return ["==", "!="] if k == "enum" and not (wild and rng.chance(0.3)) else list(OPS)

    def atom():
        r = rng.random()
        a, k = attr()
        if k == "deco":                                      # a TypeDecorator column: only usable as a bare condition
            return ["truth", a]
        if not isinstance(k, str):                           # relationship-valued operand
            r2 = rng.random()
            if r2 < 0.5:
                return ["cmp", rng.choice(list(OPS)), a, ["lit", rng.randint(1, 20)]]
            if r2 < 0.65:
                return ["in", ["list", [rng.randint(1, 20) for _ in range(rng.randint(1, 3))]], a]
            others = [x for x in chains(vars_[a[1]]) if x[1] == k]
            return ["cmp", rng.choice(["==", "!="]), a, ["attr", a[1], rng.choice(others)[0]]]
        if r < 0.06:
            return ["truth", a]                               # a column as condition
        if r < 0.10:
            return ["cmp", rng.choice(["==", "!="]), a, ["lit", None]]
        if r < 0.50:
            return ["cmp", rng.choice(ops_for(k)), a, ["lit", lit(k)]]
        if r < 0.66:
            b, _ = attr(k)
            if b is not None:
                return ["cmp", rng.choice(ops_for(k)), a, b]
        if r < 0.82:
            return ["in", ["list", [lit(k) for _ in range(rng.randint(0, 3))]], a]
        if wild and k in ("int", "str") and rng.chance(0.04):      # a text attribute against a numeric one (rejected: was C07-ac)
            b, _ = attr("str" if k == "int" else "int", a[1])
            if b is not None and b[1] == a[1]:
                return ["cmp", rng.choice(list(OPS)), a, b]
        if wild:
            r3 = rng.random()
            if r3 < 0.35 and k == "str":
                return ["in", a, ["lit", rng.choice(["b", "B", "%", "_", "ody", "a_c", "c"])]]       # contains(col, 'x') -> LIKE
            if r3 < 0.6 and k == "str":
                return ["in", ["lit", rng.choice(["Body1xx", "abcABC", "xBox"])], a]                 # in_(col, 'hay') -> instr
            if r3 < 0.7:
                return ["truth", a]
            if r3 < 0.73 and k == "int" and a[1] == sel:
                vals = sorted({rng.randint(0, 3) for _ in range(rng.randint(1, 3))})
                kind = rng.choice(["range", "dict", "tuple", "iter"])
                if kind == "range":
                    vals = list(range(vals[0], vals[-1] + 1))
                return ["incoll", kind, vals, a]
            if r3 < 0.76 and k == "str" and a[1] == sel:
                return ["other", rng.choice(["upper", "index"]), a]                                  # b.name.upper() == "A" / b.name[0] == "a"
            if r3 < 0.79 and k in ("int", "str") and a[1] == sel:
                return ["cmp", rng.choice(list(OPS)), a, ["lit", "1" if k == "int" else 1]]          # text against number
            if r3 < 0.82 and k == "int" and a[1] == sel:
                vars_["n"] = "int"
                return ["cmp", rng.choice(["==", "<"]), a, ["var", "n"]]                             # variable over plain values
            if r3 < 0.84 and sel_c == "World":
                return ["truth", ["attr", sel, ["bodies"]]]                                          # a collection relationship
            if r3 < 0.76 and a[1] == sel and k != "enum":
                return ["inset", sorted({lit(k) if lit(k) is not None else 0 for _ in range(rng.randint(1, 3))}, key=str), a]
            if r3 < 0.86 and sel_c in ("Connection", "FixedConnection", "PrismaticConnection") and a[1] == sel and any(o["c"] in ("Body", "Handle", "Container") for o in spec):
                vars_["b"] = "Body"
                rel = ["attr", sel, [rng.choice(["parent", "child"])]]
                return ["cmp", "==", ["var", "b"], rel] if rng.chance(0.6) else ["cmp", "==", rel, ["var", "b"]]
            if r3 < 0.8 and sel_c in ("Pose",) and a[1] == sel:
                pv = "p"
                vars_[pv] = "Position"
                return ["cmp", "==", ["attr", sel, ["position"]], ["var", pv]]
        return ["cmp", rng.choice(ops_for(k)), a, ["lit", lit(k)]]

    def cond(d):
        r = rng.random()
        if d == 0 or r < 0.4:
            return atom()
        if r < 0.68:
            return ["and", cond(d - 1), cond(d - 1)]
        if r < 0.94 or not wild:
            return ["or", cond(d - 1), cond(d - 1)]
        return ["not", cond(d - 1)]

    RELC = ("Pose", "Connection", "FixedConnection", "PrismaticConnection", "Body", "Handle")
    if wild and sel_c in RELC and rng.chance(0.08):
        # attribute-equality join between two variables, alone or next to one plain comparison of the selected variable
        if rng.chance(0.5):
            v2, c2 = VARS[sel_c][1], sel_c
        else:
            c2 = rng.choice([c for c in RELC if not is_sub(c, sel_c) and not is_sub(sel_c, c)])
            v2 = VARS[c2][0]
        vars_[v2] = c2
        r1 = rng.choice([x for x in chains(sel_c) if not isinstance(x[1], str) and len(x[0]) == 1])[0]
        r2 = rng.choice([x for x in chains(c2) if not isinstance(x[1], str) and len(x[0]) == 1])[0]
        ej = ["cmp", "==", ["attr", sel, r1], ["attr", v2, r2]] if rng.chance(0.6) else ["cmp", "==", ["attr", v2, r2], ["attr", sel, r1]]
        plain = [x for x in chains(sel_c) if isinstance(x[1], str) and len(x[0]) == 1]
        r = rng.random()
        if rng.chance(0.25):
            r1b = rng.choice([x for x in chains(sel_c) if not isinstance(x[1], str) and len(x[0]) == 1])[0]
            r2b = rng.choice([x for x in chains(c2) if not isinstance(x[1], str) and len(x[0]) == 1])[0]
            c = [rng.choice(["and", "or"]), ej, ["cmp", "==", ["attr", sel, r1b], ["attr", v2, r2b]]]
        elif r < 0.5 or not plain:
            c = ej
        else:
            ch, k = rng.choice(plain)
            at = ["cmp", rng.choice(list(OPS)), ["attr", sel, ch], ["lit", rng.randint(0, 3) if k == "int" else rng.choice(STRS)]]
            c = ["and", ej, at] if r < 0.75 else ["and", at, ej]
    else:
        c = cond(rng.choice([0, 1, 1, 2, 2, 3]))
    used = cond_vars(c)
    vars_ = {v: t for v, t in vars_.items() if v == sel or v in used}
    if wild and rng.chance(0.03):
        return {"the": False, "setof": True, "sel": sel, "vars": vars_, "cond": c}
    q = {"the": rng.chance(0.15), "sel": sel, "vars": vars_, "cond": c}
    if rng.chance(0.05):
        q["retranslate"] = True                               # translator.translate() called a second time
    if rng.chance(0.05):
        q["iterate"] = True                                   # list(translator) instead of translator.evaluate()
    return q


def sweep_queries(full: bool) -> List[dict]:
    """exhaustive small scope: every single comparison chain-op-literal and chain-op-chain of one variable, every
    IN list of one/two literals, and (full) every and_/or_ of two comparisons against the literal 1 / 'abc'"""
    out = []
    for sel_c, (sel, _) in VARS.items():
        cs = [x for x in chains(sel_c) if isinstance(x[1], str)]
        lits = {"int": [0, 1, 2, 3] if full else [1], "str": ["abc", "Body1", ""] if full else ["abc"],
                "enum": [{"enum": "C"}, {"enum": "H"}] if full else [{"enum": "C"}]}
        atoms = []
        for ch, k in cs:
            out.append({"the": False, "sel": sel, "vars": {sel: sel_c}, "cond": ["truth", ["attr", sel, ch]]})       # the column as condition
            if k == "deco":
                atoms.append(["truth", ["attr", sel, ch]])
                continue
            for op in (OPS if k != "enum" else ("==", "!=")):
                for v in lits[k]:
                    out.append({"the": False, "sel": sel, "vars": {sel: sel_c}, "cond": ["cmp", op, ["attr", sel, ch], ["lit", v]]})
                for ch2, k2 in cs:
                    if k2 == k and (full or ch2 != ch):
                        out.append({"the": False, "sel": sel, "vars": {sel: sel_c},
                                    "cond": ["cmp", op, ["attr", sel, ch], ["attr", sel, ch2]]})
                    elif k2 != k and k2 != "deco" and (full or op in ("==", "<")):     # columns of two kinds (text/number: rejected)
                        out.append({"the": False, "sel": sel, "vars": {sel: sel_c},
                                    "cond": ["cmp", op, ["attr", sel, ch], ["attr", sel, ch2]]})
            atoms.append(["cmp", "<=" if k == "int" else ("==" if k == "enum" else ">="), ["attr", sel, ch],
                          ["lit", lits[k][0] if (not full or k == "enum") else (1 if k == "int" else "abc")]] if k != "enum" or True else None)
            if k == "enum":
                atoms.append(["truth", ["attr", sel, ch]])
            out.append({"the": False, "sel": sel, "vars": {sel: sel_c}, "cond": ["in", ["list", lits[k][:2]], ["attr", sel, ch]]})
            out.append({"the": True, "sel": sel, "vars": {sel: sel_c}, "cond": ["cmp", "==", ["attr", sel, ch], ["lit", lits[k][0]]]})
        if full:
            for a in atoms:
                for b in atoms:
                    for con in ("and", "or"):
                        out.append({"the": False, "sel": sel, "vars": {sel: sel_c}, "cond": [con, a, b]})
    return out


# ------------------------------------------------------------------ decision
# classes computed in Coq (EqlToSql.classes).  OPEN: a listed open finding may explain a memory/SQL difference there.
# The others were repaired by fix: commits (now rejections) -- a difference explained only by them is a VIOLATION.
ALL_BITS = {1: "K_othervar", 2: "K_null", 4: "K_relop", 16: "K_strop", 32: "K_varoperand", 64: "K_noneorder",
            128: "K_strtruth", 256: "K_eqjoin_dropped", 512: "K_valueeq", 1024: "K_or_join", 2048: "K_setof",
            4096: "K_setlit", 8192: "K_namedvar", 16384: "K_enumorder"}
OPEN_BITS = {2: "K_null", 512: "K_valueeq"}
KNOWN_BITS = OPEN_BITS


def prop_agree(q: dict, mem: list, sql: list, in_f: bool, mask: int = 0) -> bool:
    if sql[0] == [1]:
        return True                                   # rejected with EQLTranslationError: allowed
    if sql[0] == [2]:
        return False                                  # another exception escaped the translator
    if mask & 1024:
        # an equality join below an or_: how often the evaluator yields an entity for a disjunction over different
        # variable sets is its own business (C01); the selected SET must agree, the(...) is not comparable
        return True if q["the"] else mem[1] == sql[1]
    # rows are compared as a BAG (the() through its outcome): every attribute of a non-selected variable is rejected now,
    # so whatever is accepted has one row per satisfying binding on both sides (C07_agree states list equality)
    return mem[0] == sql[0]


def snippet(q: dict, spec: List[dict]) -> str:
    return ("from harness import c07; import json\n"
            f"q = json.loads({json.dumps(json.dumps(q))}); w = json.loads({json.dumps(json.dumps(spec))})\n"
            "print(c07.run_one(q, w))   # {'mem': ..., 'sql': ..., 'sql_detail': ...}; rows are database_ids")


def run_one(q: dict, spec: List[dict]) -> dict:
    lw = LiveWorld(spec)
    try:
        mem = run_mem(q, lw)
        sql, detail = run_sql(q, lw)
        return {"mem": mem, "sql": sql, "sql_detail": detail, "keys": lw.keys}
    finally:
        lw.close()


def evaluate_cases(cases: List[dict], worlds: List[List[dict]], header_base: str, spec_only: bool) -> List[Any]:
    """cases: {"q":..., "w": world index, "keys": [...]}.  Returns case_out values (or spec-only triples)."""
    defs = [f"Definition sch : schema := {schema_term()}."]
    for i, (spec, keys) in enumerate(worlds):
        defs.append(f"Definition w{i} : world :=\n  {world_term(spec, keys)}.")
    header = header_base + "\n".join(defs) + "\n"
    if spec_only:
        exprs = [f"spec_out sch {query_term(c['q'])} w{c['w']}" for c in cases]
    else:
        exprs = [f"case_out sch {query_term(c['q'])} w{c['w']}" for c in cases]
    return core.coq_values(PROP, header, exprs, chunk=max(40, min(250, len(exprs) // 16 + 1)))


def run(tier: str, seed: int, replay=None) -> int:
    rep = Report(PROP, tier, seed, "other")
    rep.trusted = core.COQ_TRUSTED + [
        "Orm/SqlAlg.v `sem`: the meaning of the emitted statement on SQLite (inner joins as filtered products, NULL -> unknown, "
        "instr, WHERE col) is a model, compared with SQLite on every case, not proved",
        "Orm/EqlToSql.v `translate`: hand-written restatement of EQLTranslator, tied by differential execution through eql_to_sql",
        "Orm/EqlToSqlSpec.v `answers`: the in-memory meaning of a query under Python comparison semantics, compared with query.evaluate()",
        "harness/c07.py: schema table of the dataset classes, world persistence through to_dao, query builder, outcome canonicaliser",
        "SQLAlchemy + sqlite3 (statement rendering, parameter binding, .one()/.all())",
        "source pins `eqlsql` (pins/eqlsql.json): the recorded source of the eql_interface.py methods Orm/EqlToSql.v mirrors; an edit to any "
        "of them reopens the correspondence obligation until the model is re-aligned and the pins re-recorded",
    ]
    rep.assume = ["objects are persisted once through to_dao with one ToDAOState; database_id identifies the object (SymbolDAO key shared by all tables)",
                  "values are ints, ASCII strings, None; floats are not exercised (columns typed float hold ints)",
                  "variables range over all persisted objects of their type (let(T, domain=all T instances))"]
    rep.rule = ("corpus first; then per world (random objects of Position/Position4D/Orientation/Pose/World/Body/Handle/Container/"
                "Connection/Fixed/Prismatic, shared references, None in nullable places in half of the worlds) random conditions "
                "of depth 0-3 through the public EQL API: 55% restricted to the constructs of F07, 45% with second variables, "
                "relationship-valued operands, None literals, not_, instr, bare attribute, bare variable, one or two equality joins; 15% the(...); plus on two worlds "
                "(one without, one with None) an exhaustive sweep of every single comparison chain-op-literal / chain-op-chain, IN lists and "
                "the(==) of every variable type (thorough: all literals, and every and_/or_ of two comparisons). "
                "In every world a fixed connection with two, one with one and one with no prismatic partner, and all equality joins fixed.x == prismatic.y "
                "(both orders, alone and next to a comparison isolating one entity) as an(...) and the(...), plus two joins onto one table and joins below or_; and fixed per world the shapes repaired last: a JSON attribute as bare condition, a one-shot iterator as in_ container, a text attribute against a numeric attribute (all to be rejected). Rows compared as bags (as sets when an equality join stands below an or_); F07 / F07J membership is decided in Coq per case. "
                "distinct = distinct (query, world); non-trivial = result neither empty nor the whole domain, or a the()/error outcome")
    ok_spec, log = core.coq_make(["Base/Sx.vo", "Orm/EqlToSqlSpec.vo"])
    rep.oblige("build:spec", ok_spec, "" if ok_spec else core.first_error(log))
    model_ok = core.standard_proof_steps(rep, PROP, ["Props/C07.vo"])
    # source pins: the methods the hand-written translator model was written against (pins/sets/eqlsql.json)
    from translator import pins
    pins.oblige(rep, str(core.REPO), "eqlsql", "the translator model (Orm/EqlToSql.v)")

    # ---- cases
    worlds: List[Tuple[List[dict], List[int]]] = []
    lives: List[LiveWorld] = []
    cases: List[dict] = []

    def add_world(spec) -> int:
        lw = LiveWorld(spec)
        lives.append(lw)
        worlds.append((spec, lw.keys))
        return len(worlds) - 1

    corpus_cases = []
    if replay:
        wi = add_world(replay["case"]["world"])
        cases.append({"q": replay["case"]["q"], "w": wi, "src": "replay"})
    else:
        d = core.VERIF / "corpus" / PROP
        for f in sorted(d.glob("*.json")) if d.is_dir() else []:
            j = json.loads(f.read_text())
            wi = add_world(j["case"]["world"])
            c = {"q": j["case"]["q"], "w": wi, "src": f"corpus/{PROP}/{f.name}", "expect": j.get("expect")}
            cases.append(c)
            corpus_cases.append(c)
        rng = core.Rng(seed)
        nworlds, per = (8, 330) if tier == "quick" else (40, 700)
        for wn in range(nworlds):
            wr = rng.fork(wn)
            wi = add_world(gen_world(wr, nulls=(wn % 2 == 1), prismatic=(wn != nworlds - 1)))
            for q in join_queries():                           # equality joins with 0 / 1 / 2 partners, an(...) and the(...)
                cases.append({"q": q, "w": wi, "src": "gen:join"})
            for q in extra_queries():
                cases.append({"q": q, "w": wi, "src": "gen:extra"})
            if wn < 2:                                         # exhaustive small scope on one world without and one with None
                for q in sweep_queries(tier != "quick"):
                    cases.append({"q": q, "w": wi, "src": "gen:sweep"})
            for _ in range(per):
                mode = "f07" if wr.chance(0.55) else "any"
                cases.append({"q": gen_query(wr, worlds[wi][0], mode), "w": wi, "src": f"gen:{mode}"})

    # ---- implementation
    for c in cases:
        lw = lives[c["w"]]
        c["mem"] = run_mem(c["q"], lw)
        c["sql"], c["detail"] = run_sql(c["q"], lw)

    # ---- Coq side
    try:
        vals = evaluate_cases(cases, worlds, HEADER_BASE if model_ok else HEADER_SPEC_BASE, not model_ok)
    except core.CoqEvalError as e:
        rep.oblige("correspondence:evaluate", False, str(e)[:500])
        vals = None
    if not model_ok:
        rep.note("model not available; comparing the two implementation sides with each other and with the Spec only")

    dist: Dict[str, int] = {}

    def bump(k):
        dist[k] = dist.get(k, 0) + 1

    known_instances: Dict[str, int] = {}
    by_class: Dict[str, int] = {}
    rejected_by_class: Dict[str, int] = {}
    viol = []
    model_mismatch = []
    spec_mismatch = []
    for i, c in enumerate(cases):
        q, mem, sql = c["q"], c["mem"], c["sql"]
        if vals is None:
            model = spec = None
            in_f, mask = False, 0
        elif model_ok:
            model, spec, (fb, mask, fj) = vals[i]
            in_f = bool(fb)
            if fj:
                bump("in_F07J")
        else:
            model, spec, in_f, mask = None, vals[i], False, 0
        c.update(model=model, spec=spec, in_f=in_f, mask=mask)
        dom = len([o for o in worlds[c["w"]][0] if is_sub(o["c"], q["vars"][q["sel"]])])
        rows = mem[1][1] if mem[1][0] == 0 else None
        nontrivial = q["the"] or rows is None or (0 < len(rows) < dom)
        rep.count(json.dumps([q, c["w"] if not replay else 0], sort_keys=True) + str(seed if c["src"].startswith("gen") else ""), nontrivial)
        bump("in_F07" if in_f else "outside_F07")
        if sql[0] == [1]:
            bump("rejected")
        if sql[0] in ([2], [7]):
            bump("sql_exception")
        if mem[0] == [7]:
            bump("mem_exception")
        if rows is not None and len(rows) == 0:
            bump("empty_result")
        if rows is not None and len(rows) == dom:
            bump("whole_domain")
        if q["the"]:
            bump("the")
        if len(q["vars"]) > 1 and sql[0] != [1]:
            bump("join_accepted")
            if mem[0][0] == 0 and len(mem[0][1]) != len(set(mem[0][1])):
                bump("join_entity_with_2+_partners")
            if mem[0] == [6] and q["the"]:
                bump("join_the_multiple")
            if mem[0] == [5] and q["the"]:
                bump("join_the_none")
            if mem[0] == [0, []]:
                bump("join_no_partner_at_all")
            if spec is not None and spec != mem and not mask & 1024:
                bump("join_spec_differs_from_memory")
        for b, nme in ALL_BITS.items():
            if mask & b:
                bump(nme)
        if mask & 8:
            bump("K_not")
        agree = prop_agree(q, mem, sql, in_f, mask)
        bump("agree" if agree else "disagree")
        if not agree:
            if in_f:
                by_class["in_F07"] = by_class.get("in_F07", 0) + 1
            names = [n for bb, n in ALL_BITS.items() if mask & bb] or ["(no class)"]
            for n in names:
                by_class[n] = by_class.get(n, 0) + 1
        elif sql[0] == [1]:
            for n in [n for bb, n in ALL_BITS.items() if mask & bb]:
                rejected_by_class[n] = rejected_by_class.get(n, 0) + 1
        unmod = model is not None and model[0] == [9]
        if unmod:
            bump("outside_model")
        if model is not None and not unmod and model != sql:
            model_mismatch.append(c)
        if spec is not None and (((not q["the"]) and spec[1] != mem[1]) if mask & 1024 else spec != mem):
            # below an or_ with an equality join the Spec's multiplicities (one per assignment) are not the evaluator's: sets
            spec_mismatch.append(c)
        if agree:
            continue
        # the property fails on this case
        if in_f:
            viol.append((c, "inside F07"))
            continue
        bits = [n for b, n in KNOWN_BITS.items() if mask & b]
        if bits and model is not None and model == sql:
            for n in bits:
                known_instances[n] = known_instances.get(n, 0) + 1
            continue
        if model is None and bits:
            known_instances["unclassified(model unavailable)"] = known_instances.get("unclassified(model unavailable)", 0) + 1
            continue
        viol.append((c, "outside F07 but not as the model of a listed finding predicts"))

    # correspondence obligations
    mm_in = [c for c in model_mismatch if c["in_f"]]
    mm_out = [c for c in model_mismatch if not c["in_f"] and prop_agree(c["q"], c["mem"], c["sql"], False, c["mask"])]
    rep.oblige("correspondence:model(F07)", not mm_in,
               "" if not mm_in else f"{len(mm_in)} cases, first: {json.dumps(mm_in[0]['q'])} sql={mm_in[0]['sql']} model={mm_in[0]['model']}")
    sm_in = [c for c in spec_mismatch if c["in_f"]]
    rep.oblige("correspondence:spec(F07)", not sm_in,
               "" if not sm_in else f"{len(sm_in)} cases, first: {json.dumps(sm_in[0]['q'])} mem={sm_in[0]['mem']} spec={sm_in[0]['spec']}")
    if mm_out:
        rep.note(f"model differs from the implementation on {len(mm_out)} cases outside F07 where the property holds "
                 f"(model stale there / finding repaired?), first: {json.dumps(mm_out[0]['q'])} sql={mm_out[0]['sql']} model={mm_out[0]['model']}")
    sm_out = [c for c in spec_mismatch if not c["in_f"]]
    if sm_out:
        rep.note(f"Spec `answers` differs from query.evaluate() on {len(sm_out)} cases outside F07 (error order / C01 territory), "
                 f"first: {json.dumps(sm_out[0]['q'])} mem={sm_out[0]['mem']} spec={sm_out[0]['spec']}")

    # known findings: replay the witnesses
    by_witness = {c["src"]: c for c in corpus_cases}
    for f in core.load_findings(PROP):
        if replay:
            continue
        if f.witness.endswith(".py"):                          # a script that exits 1 while the defect is present
            rc, out = core.sh([core.PY, str(core.VERIF / f.witness)], cwd=str(core.VERIF), timeout=300, env=core.IMPL_ENV)
            if f.kind == "fixed":
                rep.oblige(f"regression:{f.fid}", rc == 0, "" if rc == 0 else f"{f.witness} exits {rc}: " + out[-300:])
                if rc != 0:
                    rep.violation({"kind": "counterexample", "why": f"regression of fixed finding {f.fid}", "python": f"PYTHONPATH=<repo>/src:<repo> python {f.witness}",
                                   "output": out[-800:]})
            elif rc != 0:
                rep.known(f)
            else:
                rep.note(f"known finding {f.fid} no longer reproduces on its witness (repaired?)")
            continue
        c = by_witness.get(f.witness)
        if c is None:
            rep.oblige(f"finding:{f.fid}", False, f"witness {f.witness} missing")
            continue
        fails = not prop_agree(c["q"], c["mem"], c["sql"], c["in_f"], c["mask"])
        if f.kind == "open":
            if fails and (c["model"] is None or c["model"] == c["sql"]):
                rep.known(f)
            elif fails:
                pass  # reported above as a violation (fails differently)
            else:
                rep.note(f"known finding {f.fid} no longer reproduces on its witness (repaired?)")
        else:
            if fails:
                viol.append((c, f"regression of fixed finding {f.fid}"))
    for cexp in corpus_cases:
        exp = cexp.get("expect")
        if exp and exp.get("agree") is True and not prop_agree(cexp["q"], cexp["mem"], cexp["sql"], cexp["in_f"], cexp["mask"]):
            if not any(cexp is v[0] for v in viol):
                viol.append((cexp, "corpus case that must agree"))

    import os
    if os.environ.get("C07_DUMP"):      # debugging aid: every memory/SQL disagreement of this run
        (core.WORK / PROP).mkdir(parents=True, exist_ok=True)
        (core.WORK / PROP / "disagreements.json").write_text(json.dumps(
            [{"q": c["q"], "mem": c["mem"], "sql": c["sql"], "detail": c["detail"], "in_f": c["in_f"], "mask": c["mask"]}
             for c in cases if not prop_agree(c["q"], c["mem"], c["sql"], c["in_f"], c["mask"])], indent=0))
    rep.extra["distribution"] = dict(sorted(dist.items()))
    rep.extra["known_finding_instances"] = known_instances
    rep.extra["disagreements_by_class"] = dict(sorted(by_class.items()))       # memory vs SQL, whatever the model says
    rep.extra["rejected_by_class"] = dict(sorted(rejected_by_class.items()))
    rep.samples = [{"q": c["q"], "mem": c["mem"], "sql": c["sql"], "in_F07": c["in_f"], "classes": c["mask"]}
                   for c in cases[len(corpus_cases):][:: max(1, len(cases) // 6)]][:6]
    seen = set()
    for c, why in viol:
        sig = ("the " if c["q"]["the"] else "an ") + json.dumps(c["q"]["cond"])[:200] + why
        if sig in seen or len(seen) >= 6:
            continue
        seen.add(sig)
        spec_w = worlds[c["w"]][0]
        rep.violation({"kind": "counterexample", "why": why, "case": {"q": c["q"], "world": spec_w},
                       "impl": {"mem": c["mem"], "sql": c["sql"], "sql_detail": c["detail"]},
                       "model": c["model"], "spec": c["spec"], "in_F07": c["in_f"], "classes": c["mask"],
                       "python": snippet(c["q"], spec_w),
                       "explanation": "outcomes are [bag-or-the, set]: [0, keys] rows (database_ids); [1] EQLTranslationError; [2] other exception "
                                      "from eql_to_sql; [5] none / [6] several for the(); [7] evaluation raised; model [9] = outside the model"})
    if replay:
        c = cases[0]
        print(json.dumps({k: c[k] for k in ("mem", "sql", "detail", "model", "spec", "in_f", "mask")}))
    for lw in lives:
        lw.close()
    return rep.finish()
