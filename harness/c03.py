"""C03 -- evaluations are repeatable and do not interfere with each other.

Three layers (DESIGN section 6, C03), three kinds of case:
  cache : one variable's HashedIterable (obtained through let()), a schedule of iter()/next()/close() operations on
          several live iterators -> compared with Eql/DomainCache.v (model of the current __iter__) and the Spec
          (independent iterators).  Theorems: C03_cache_sequential (proved), C03_refuted_interleave/_dup,
          C03_cache_any_schedule_repaired (for the proposed fix).
  hist  : a history of WHOLE evaluations (list(q.evaluate())) of query objects sharing variables, re-evaluations
          included, optional rule with a refinement -> Eql/Reeval.v vs Spec iso_rows.  Theorems C03_reeval_* (fragment).
  sched : several evaluate() iterators stepped under an enumerated schedule of next()/close() -> compared with the
          coroutine machine Eql/DomainCacheSched.v (prediction, NOT proved) and with the isolated rows.
  extra : query shapes outside the modelled fragment (or_/not_/rule queries), implementation vs isolated result of a
          fresh query only.
All queries are built through the public API (let, entity, set_of, and_, or_, not_, an, inference, Add, refinement)."""
from __future__ import annotations

import itertools
import json
import time
from typing import Any, Dict, List, Tuple

from . import core
from .core import Report

PROP = "C03"
HEADER = """From Coq Require Import List ZArith.
From Krrood Require Import Base.Sx Eql.DomainCacheSpec Eql.DomainCache Eql.ReevalSpec Eql.Reeval Eql.ReevalSpecSx Eql.DomainCacheSched Eql.ReevalCases.
Import ListNotations. Open Scope Z_scope."""
HEADER_SPEC = """From Coq Require Import List ZArith.
From Krrood Require Import Base.Sx Eql.DomainCacheSpec Eql.ReevalSpec Eql.ReevalSpecSx.
Import ListNotations. Open Scope Z_scope."""

OPS = {"eq": "Ceq", "ne": "Cne", "lt": "Clt", "le": "Cle", "gt": "Cgt", "ge": "Cge"}
ERR_RT, STOP, MARK, NOH, ERR_OTHER = -2, -1, -3, -9, -50


# ------------------------------------------------------------------ Gallina terms
def nat(n: int) -> str:
    return f"{n}%nat"


def t_atom(a) -> str:
    if a[0] == "C":
        return f"ACmpC {nat(a[1])} {OPS[a[2]]} {core.zlit(a[3])}"
    return f"ACmpV {nat(a[1])} {OPS[a[2]]} {nat(a[3])}"


def t_query(q) -> str:
    sel = "[" + "; ".join(nat(x) for x in q["sel"]) + "]"
    conds = "[" + "; ".join(t_atom(a) for a in q["conds"]) + "]"
    rule = "None" if q.get("rule") is None else "(Some [" + "; ".join(t_atom(a) for a in q["rule"]) + "])"
    return f"{{| q_sel := {sel}; q_conds := {conds}; q_rule := {rule} |}}"


def t_world(W) -> str:
    return "[" + "; ".join(core.zlist(w) for w in W) + "]"


def t_attrs(A) -> str:
    return "[" + "; ".join(f"({core.zlit(i)}, {core.zlit(a)})" for i, a in A) + "]"


def t_case(d, spec_only=False) -> str:
    k = d["kind"]
    if k == "cache":
        pre = "S" if spec_only else ""
        ops = "; ".join(f"{pre}Create" if o[0] == "C" else (f"{pre}Next {nat(o[1])}" if o[0] == "N" else f"{pre}Abandon {nat(o[1])}")
                        for o in d["ops"])
        return f"({core.zlist(d['domain'])}, [{ops}])"
    if k == "hist":
        qs = "[" + "; ".join(t_query(d["queries"][i]) for i in d["evals"]) + "]"
        return f"({t_world(d['W'])}, {t_attrs(d['A'])}, {qs})"
    if k == "sched":
        qs = "[" + "; ".join(t_query(d["queries"][i]) for i in d["its"]) + "]"
        ops = "; ".join((f"INext {nat(o[1])}" if o[0] == "N" else f"IClose {nat(o[1])}") for o in d["ops"])
        return f"({t_world(d['W'])}, {t_attrs(d['A'])}, {qs}, [{ops}])"
    if k == "rsched":
        qs = "[" + "; ".join(t_query(q) for q in d["queries"]) + "]"
        io = "[" + "; ".join(nat(i) for i in d["its"]) + "]"
        ops = "; ".join((f"INext {nat(o[1])}" if o[0] == "N" else f"IClose {nat(o[1])}") for o in d["ops"])
        if spec_only:   # the Spec does not know about objects: one query per iterator
            qs = "[" + "; ".join(t_query(d["queries"][i]) for i in d["its"]) + "]"
            return f"({t_world(d['W'])}, {t_attrs(d['A'])}, {qs}, [{ops}])"
        return f"({t_world(d['W'])}, {t_attrs(d['A'])}, {qs}, {io}, [{ops}])"
    raise ValueError(k)


CASE_TYPE = {"cache": "cache_case", "hist": "hist_case", "sched": "sched_case", "rsched": "rsched_case"}
CASE_TYPE_SPEC = {"cache": "scache_case", "hist": "hist_case", "sched": "sched_case", "rsched": "sched_case"}
CODE_FN = {"cache": "cache_code_class", "hist": "hist_code", "sched": "sched_code_rep", "rsched": "rsched_code"}
CODE_FN_SPEC = {"cache": "cache_code_spec", "hist": "hist_code_spec", "sched": "sched_code_spec", "rsched": "sched_code_spec"}
MODEL_FN = {"cache": "cache_model", "hist": "hist_model", "sched": "sched_model", "rsched": "rsched_model"}
SPEC_FN = {"cache": "cache_spec", "hist": "hist_spec", "sched": "sched_spec", "rsched": "rsched_spec"}


# ------------------------------------------------------------------ implementation drivers
_CLS: Dict[str, Any] = {}


def _classes():
    """User classes of the cases (created once per process)."""
    if _CLS:
        return _CLS
    from dataclasses import dataclass
    from krrood.entity_query_language.predicate import Symbol

    @dataclass(eq=False)
    class P:
        a: int
        ident: int = 0

        def __repr__(self):
            return f"P#{self.ident}(a={self.a})"

    @dataclass(eq=False)
    class V1(Symbol):
        p: Any
        tag: int = 0

    @dataclass(eq=False)
    class V2(Symbol):
        p: Any
        q: Any
        tag: int = 0

    @dataclass(eq=False)
    class Q:          # NOT an instance of P: let(P, ...) filters it out of the domain
        a: int = 0
        ident: int = -100

    from krrood.entity_query_language.predicate import symbolic_function

    @symbolic_function
    def c03_gt(p, t):
        return p.a > t

    _CLS.update(P=P, V1=V1, V2=V2, Q=Q, gt=c03_gt)
    return _CLS


def _exc_code(e: BaseException) -> int:
    if isinstance(e, RuntimeError) and "changed size during iteration" in str(e):
        return ERR_RT
    return ERR_OTHER - (sum(map(ord, type(e).__name__)) % 40)


def _objects(W, A):
    P = _classes()["P"]
    amap = dict((i, a) for i, a in A)
    objs: Dict[int, Any] = {}
    for w in W:
        for i in w:
            if i not in objs:
                objs[i] = P(amap.get(i, 0), i)
    return objs


def _with_foreign(vals: list, nf: int) -> list:
    """interleave nf objects of a foreign class (removed by let's isinstance filter) with the domain elements"""
    if not nf:
        return list(vals)
    Q = _classes()["Q"]
    out = []
    for j, v in enumerate(vals):
        if j < nf:
            out.append(Q(0, -100 - j))
        out.append(v)
    for j in range(len(vals), nf):
        out.append(Q(0, -100 - j))
    return out


def _domain(vals: list, how: str):
    if how == "gen":
        return (v for v in vals)
    if how == "tuple":
        return tuple(vals)
    if how == "iter":
        return iter(vals)
    return list(vals)


def impl_cache(d) -> List[int]:
    """One variable made by let(); its domain object is iterated by several live iterators."""
    from krrood.entity_query_language.entity import let
    P = _classes()["P"]
    objs = _objects([d["domain"]], [])
    x = let(P, _domain(_with_foreign([objs[i] for i in d["domain"]], d.get("foreign", 0)), d.get("dom", "list")), name="x")
    hi = x._domain_
    handles: List[Any] = []
    log: List[int] = []
    for o in d["ops"]:
        if o[0] == "C":
            # Variable._evaluate__ iterates the domain only if it is truthy ("elif self._domain_:"), otherwise it raises
            # ValueError("Cannot evaluate variable."): a variable that was given a domain must stay evaluable
            log.append(MARK if bool(hi) else -4)
            handles.append(iter(hi))
            continue
        h = o[1]
        if h >= len(handles):
            log.append(NOH)
            continue
        if o[0] == "A":
            handles[h].close()
            log.append(MARK)
            continue
        try:
            v = next(handles[h])
            log.append(v.value.ident)
        except StopIteration:
            log.append(STOP)
        except BaseException as e:  # noqa
            log.append(_exc_code(e))
    return log


_PYOP = {"eq": "==", "ne": "!=", "lt": "<", "le": "<=", "gt": ">", "ge": ">="}


def _cond(a, vars_):
    import operator as op
    f = {"eq": op.eq, "ne": op.ne, "lt": op.lt, "le": op.le, "gt": op.gt, "ge": op.ge}[a[2]]
    if a[0] == "C":
        return f(vars_[a[1]].a, a[3])
    return f(vars_[a[1]].a, vars_[a[3]].a)


def build_queries(d):
    """-> (list of query objects, list of row extractors) for d['queries'] over shared let() variables."""
    from krrood.entity_query_language.entity import let, entity, set_of, inference, and_
    from krrood.entity_query_language.quantify_entity import an
    from krrood.entity_query_language.conclusion import Add
    from krrood.entity_query_language.rule import refinement
    C = _classes()
    objs = _objects(d["W"], d["A"])
    doms = d.get("doms") or ["list"] * len(d["W"])
    foreign = d.get("foreign") or [0] * len(d["W"])
    vars_ = [let(C["P"], _domain(_with_foreign([objs[i] for i in w], foreign[k]), doms[k]), name=f"v{k}") for k, w in enumerate(d["W"])]
    shared_nodes: Dict[str, Any] = {}
    out = []
    for qd in d["queries"]:
        conds = []
        for a in qd["conds"]:
            key = json.dumps(a)
            if d.get("share_subexpr") and key in shared_nodes:
                conds.append(shared_nodes[key])
            else:
                c = _cond(a, vars_)
                shared_nodes.setdefault(key, c)
                conds.append(c)
        sel = [vars_[i] for i in qd["sel"]]
        if qd.get("rule") is not None:
            cls = C["V1"] if len(sel) == 1 else C["V2"]
            kw = (lambda tag: dict(p=sel[0], tag=tag) if len(sel) == 1 else dict(p=sel[0], q=sel[1], tag=tag))
            views = inference(cls)()
            q = an(entity(views, *conds))
            with q:
                Add(views, inference(cls)(**kw(0)))
                rconds = []
                for a in qd["rule"]:
                    key = json.dumps(a)
                    if d.get("share_subexpr") and key in shared_nodes:
                        rconds.append(shared_nodes[key])
                    else:
                        rc = _cond(a, vars_)
                        if d.get("share_subexpr"):
                            shared_nodes.setdefault(key, rc)
                        rconds.append(rc)
                with refinement(*rconds):
                    Add(views, inference(cls)(**kw(1)))
            if len(sel) == 1:
                ext = lambda r: [r.tag, r.p.ident]
            else:
                ext = lambda r: [r.tag, r.p.ident, r.q.ident]
        elif qd.get("form", "set_of") == "entity" and len(sel) == 1:
            q = an(entity(sel[0], *conds))
            ext = lambda r: [r.ident]
        else:
            q = an(set_of(sel, *conds))
            ext = (lambda sel_: lambda r: [r[v].ident for v in sel_])(sel)
        out.append((q, ext))
    return out


def impl_hist(d) -> List[Any]:
    qs = build_queries(d)
    res = []
    for i in d["evals"]:
        q, ext = qs[i]
        rows: List[Any] = []
        try:
            for r in q.evaluate():
                rows.append(ext(r))
        except BaseException as e:  # noqa
            rows.append([_exc_code(e)])
        res.append(rows)
    return res


def impl_sched(d) -> List[Any]:
    qs = build_queries(d)
    its = []
    for qi in d["its"]:
        q, ext = qs[qi]
        its.append([q.evaluate(), ext])
    log: List[Any] = []
    for o in d["ops"]:
        i = o[1]
        if o[0] == "X":
            if its[i][0] is not None:
                if d.get("close", "close") == "del":
                    its[i][0] = None
                else:
                    its[i][0].close()
            log.append(MARK)
            continue
        it, ext = its[i]
        if it is None:
            log.append(STOP)
            continue
        try:
            log.append(ext(next(it)))
        except StopIteration:
            log.append(STOP)
        except BaseException as e:  # noqa
            log.append(_exc_code(e))
    return log


def run_impl(d):
    k = d["kind"]
    if k == "cache":
        return impl_cache(d)
    if k == "hist":
        return impl_hist(d)
    if k in ("sched", "rsched"):
        return impl_sched(d)
    if k == "extra":
        return impl_extra(d)
    if k == "extend":
        return impl_extend(d)
    if k == "sharedattr":
        return impl_sharedattr(d)
    if k == "domainless":
        return impl_domainless(d)
    raise ValueError(k)


# ---- shapes outside the modelled fragment: implementation vs isolated result of a fresh query
CMP_SHAPES = ("cmp_twice", "cmp_twice1", "cmp_not", "cmp_plain")
SF_SHAPES = ("sf_cond", "sf_sel", "sf_and")


def _extra_query(shape, vars_, V1, shared=None):
    import operator as _op
    from krrood.entity_query_language.entity import entity, set_of, or_, not_, and_, inference, exists, for_all
    from krrood.entity_query_language.quantify_entity import an
    from krrood.entity_query_language.conclusion import Add
    from krrood.entity_query_language.rule import refinement
    x = vars_[0]
    y = vars_[1] if len(vars_) > 1 else vars_[0]
    name = shape[0]
    if name == "or":
        return an(entity(x, or_(x.a == shape[1], x.a == shape[2]))), lambda r: [r.ident]
    if name == "not":
        return an(entity(x, not_(x.a == shape[1]))), lambda r: [r.ident]
    if name == "or2":
        return an(set_of([x, y], or_(x.a == shape[1], y.a == shape[2]))), lambda r: [r[x].ident, r[y].ident]
    if name == "andnot":
        return an(entity(x, and_(x.a >= shape[1], not_(x.a == shape[2])))), lambda r: [r.ident]
    if name in SF_SHAPES:
        # ONE @symbolic_function call node per threshold, shared by every query of the build: a condition in one query, a
        # SELECTED value in another
        shared = {} if shared is None else shared
        big = shared.get(("sf", shape[1]))
        if big is None:
            big = shared[("sf", shape[1])] = _classes()["gt"](x, shape[1])
        if name == "sf_cond":
            return an(entity(x, big)), lambda r: [r.ident]
        if name == "sf_and":
            return an(entity(x, and_(x.a >= 0, big))), lambda r: [r.ident]
        return an(set_of([x, big])), lambda r: [r[x].ident, int(bool(r[big]))]
    if name in CMP_SHAPES:
        # ONE comparison object per threshold, shared by every query of the build: c = x.a > t
        shared = {} if shared is None else shared
        c = shared.get(("cmp", shape[1]))
        if c is None:
            c = shared[("cmp", shape[1])] = (x.a > shape[1])
        if name == "cmp_twice":       # the comparison occurs twice among the conditions of one query, a join in between
            return an(set_of([x, y], c, y.a >= 0, c)), lambda r: [r[x].ident, r[y].ident]
        if name == "cmp_twice1":      # the same with a single variable
            return an(entity(x, and_(c, x.a >= 0, c))), lambda r: [r.ident]
        if name == "cmp_not":
            return an(entity(x, not_(c))), lambda r: [r.ident]
        return an(entity(x, c)), lambda r: [r.ident]
    cmp_ = [_op.lt, _op.le, _op.eq, _op.ge][shape[1] % 4] if len(shape) > 1 and isinstance(shape[1], int) else _op.lt
    if name == "exists":          # x such that some y stands in relation to it: one result per x, whichever y witnesses it
        return an(entity(x, exists(y, cmp_(y.a, x.a)))), lambda r: [r.ident]
    if name == "exists_and":
        return an(entity(x, and_(x.a >= shape[2], exists(y, cmp_(y.a, x.a))))), lambda r: [r.ident]
    if name == "exists2":         # exists below a join: two other variables
        return an(set_of([x, y], exists(y, cmp_(x.a, y.a)))), lambda r: [r[x].ident]
    if name == "forall":
        return an(entity(x, for_all(y, cmp_(y.a, x.a)))), lambda r: [r.ident]
    if name == "not_exists":
        return an(entity(x, not_(exists(y, cmp_(y.a, x.a))))), lambda r: [r.ident]
    if name == "truthy":
        return an(entity(x, x.a)), lambda r: [r.ident]
    if name == "andtruthy":
        return an(entity(x, and_(x.a, x.a <= shape[1]))), lambda r: [r.ident]
    if name == "rule_noadd":      # only the refinement concludes: base rows whose refinement fails deliver nothing
        views = inference(V1)()
        q = an(entity(views, x.a >= shape[1]))
        with q:
            with refinement(x.a >= shape[2]):
                Add(views, inference(V1)(p=x, tag=1))
        return q, lambda r: [r.tag, r.p.ident]
    if name == "rule":
        views = inference(V1)()
        q = an(entity(views, x.a >= shape[1]))
        with q:
            Add(views, inference(V1)(p=x, tag=0))
            with refinement(x.a >= shape[2]):
                Add(views, inference(V1)(p=x, tag=1))
        return q, lambda r: [r.tag, r.p.ident]
    raise ValueError(name)


def _extra_build(d):
    from krrood.entity_query_language.entity import let
    C = _classes()
    objs = _objects(d["W"], d["A"])
    vars_ = [let(C["P"], [objs[i] for i in w], name=f"v{k}") for k, w in enumerate(d["W"])]
    shared: Dict[Any, Any] = {}
    return [_extra_query(s, vars_, C["V1"], shared) for s in d["shapes"]]


def _rows_or_exc(q, ext) -> List[Any]:
    rows: List[Any] = []
    try:
        for r in q.evaluate():
            rows.append(ext(r))
    except BaseException as e:  # noqa
        rows.append(_exc_code(e))
    return rows


def impl_extra(d):
    """-> [log of the schedule, isolated rows per iterator (each on a fresh set of variables and queries), warm-up rows]"""
    qs = _extra_build(d)
    warm = []
    if d.get("warm"):
        # one complete evaluation of every query object first: all domains are cached afterwards, so the cache itself
        # cannot make live iterators interfere any more (C03_cache_warm_any_schedule)
        for qi in sorted(set(d["its"])):
            warm.append(_rows_or_exc(*qs[qi]))
    its = [[qs[qi][0].evaluate(), qs[qi][1]] for qi in d["its"]]
    log: List[Any] = []
    for o in d["ops"]:
        i = o[1]
        if o[0] == "X":
            its[i][0].close()
            log.append(MARK)
            continue
        try:
            log.append(its[i][1](next(its[i][0])))
        except StopIteration:
            log.append(STOP)
        except BaseException as e:  # noqa
            log.append(_exc_code(e))
    iso = []
    for qi in d["its"]:
        iso.append(_rows_or_exc(*_extra_build(d)[qi]))
    return [log, iso, warm]


# ---- a rule query extended AFTER it was evaluated (refinement / alternative / next_rule added later), then evaluated again
def _extend_build(d, full: bool):
    from krrood.entity_query_language.entity import let, entity, inference
    from krrood.entity_query_language.quantify_entity import an
    from krrood.entity_query_language.conclusion import Add
    C = _classes()
    objs = _objects(d["W"], d["A"])
    x = let(C["P"], [objs[i] for i in d["W"][0]], name="v0")
    views = inference(C["V1"])()
    q = an(entity(views, x.a >= d["c1"]))
    with q:
        Add(views, inference(C["V1"])(p=x, tag=0))
    if full:
        _extend_add(d, q, x, views)
    return q, x, views


def _extend_add(d, q, x, views):
    from krrood.entity_query_language.entity import inference
    from krrood.entity_query_language.conclusion import Add
    from krrood.entity_query_language.rule import refinement, alternative, next_rule
    V1 = _classes()["V1"]
    with q:
        ctx = {"ref": refinement, "alt": alternative, "next": next_rule}[d["ext"]]
        cond = (x.a <= d["c2"]) if d["ext"] == "alt" else (x.a >= d["c2"])
        with ctx(cond):
            Add(views, inference(V1)(p=x, tag=1))


def impl_extend(d):
    """-> [rows of each evaluation before the extension, rows of each evaluation after it, isolated base rows, isolated full rows]"""
    ext = lambda r: [r.tag, r.p.ident]
    q, x, views = _extend_build(d, False)
    before = [_rows_or_exc(q, ext) for _ in range(d["n_before"])]
    _extend_add(d, q, x, views)
    after = [_rows_or_exc(q, ext) for _ in range(d["n_after"])]
    iso_base = _rows_or_exc(_extend_build(d, False)[0], ext)
    iso_full = _rows_or_exc(_extend_build(d, True)[0], ext)
    return [before, after, iso_base, iso_full]


def extend_verdict(d, impl) -> Tuple[str, Any]:
    before, after, iso_base, iso_full = impl
    exp = [[iso_base] * d["n_before"], [iso_full] * d["n_after"]]
    return ("ok" if [before, after] == exp else "violation"), exp


# ---- a variable WITHOUT a given domain (let(T, None)): it ranges over the instances of T that exist when its query is evaluated
def impl_domainless(d):
    """steps: ["E"] evaluate the one query object, ["C", a] create an instance with attribute a (kept alive).
    -> [rows of every evaluation, rows of a FRESH query evaluated at the same moments]"""
    from dataclasses import dataclass
    from krrood.entity_query_language.entity import let, entity, set_of
    from krrood.entity_query_language.quantify_entity import an
    from krrood.entity_query_language.predicate import Symbol

    @dataclass(eq=False)
    class S(Symbol):          # a class of its own per scenario: the symbol graph is global
        a: int
        ident: int = 0

    def build():
        x = let(S, None)
        if d.get("form") == "set_of":
            return an(set_of([x], x.a >= d["c"])), (lambda r: [r[x].ident])
        return an(entity(x, x.a >= d["c"])), (lambda r: [r.ident])

    q, ext = build()
    keep, hist, iso = [], [], []
    for st in d["steps"]:
        if st[0] == "C":
            keep.append(S(st[1], 100 + len(keep)))
        else:
            hist.append(_rows_or_exc(q, ext))
            iso.append(_rows_or_exc(*build()))
    return [hist, iso]


def domainless_verdict(d, impl) -> Tuple[str, Any]:
    hist, iso = impl
    return ("ok" if hist == iso else "violation"), iso


# ---- ONE Attribute node used by two queries in different roles: bare condition (truthiness) / comparison operand
def _sharedattr_build(d):
    import operator as op
    from krrood.entity_query_language.entity import let, entity
    from krrood.entity_query_language.quantify_entity import an
    C = _classes()
    objs = _objects(d["W"], d["A"])
    x = let(C["P"], [objs[i] for i in d["W"][0]], name="v0")
    xa = x.a
    f = {"ge": op.ge, "le": op.le, "ne": op.ne, "lt": op.lt}[d["op"]]
    return [an(entity(x, xa)), an(entity(x, f(xa, d["c"])))]


def impl_sharedattr(d):
    """-> [rows of every evaluation of the history, isolated rows of the bare query, isolated rows of the comparison query]"""
    ext = lambda r: [r.ident]
    qs = _sharedattr_build(d)
    hist = [_rows_or_exc(qs[i], ext) for i in d["evals"]]
    iso = [_rows_or_exc(_sharedattr_build(d)[i], ext) for i in (0, 1)]
    return [hist, iso[0], iso[1]]


def sharedattr_verdict(d, impl) -> Tuple[str, Any]:
    """One Attribute node used as a bare condition in one query and as a comparison operand in another.  Until krrood da356f6 the
    node remembered the role it had in the query evaluated first (finding C03-e, the cross-query face of C01-e: the comparison query
    dropped falsy-attribute elements, or the bare query stopped filtering).  No class tolerates that any more: every evaluation of
    the history must equal the isolated result of a fresh query."""
    hist, iso_bare, iso_cmp = impl
    exp = [[iso_bare, iso_cmp][i] for i in d["evals"]]
    return ("ok" if hist == exp else "violation"), exp


def extra_expected(d, iso) -> List[Any]:
    pos = [0] * len(d["its"])
    closed = [False] * len(d["its"])
    log: List[Any] = []
    for o in d["ops"]:
        i = o[1]
        if o[0] == "X":
            closed[i] = True
            log.append(MARK)
        elif closed[i] or pos[i] >= len(iso[i]):
            log.append(STOP)
        else:
            log.append(iso[i][pos[i]])
            pos[i] += 1
    return log


# ------------------------------------------------------------------ class predicates (Python side)
def query_vars(q) -> set:
    vs = set(q["sel"])
    for a in q["conds"] + (q.get("rule") or []):
        vs.add(a[1])
        if a[0] == "V":
            vs.add(a[3])
    return vs


def hist_class(d) -> List[str]:
    """whole sequential evaluations: no tolerated class is left (C03-b fixed in krrood a3cd335)"""
    return []


def same_object_overlap(its, ops, log, is_rule) -> bool:
    """two evaluations of the SAME rule-query object are live at once: both started, neither closed, and -- by the observed
    log -- neither has ended with StopIteration or an exception yet"""
    started, dead = set(), set()
    for k, o in enumerate(ops):
        i = o[1]
        if o[0] == "X":
            dead.add(i)
            continue
        if i in dead:
            continue
        started.add(i)
        for j in started - dead:
            if j != i and its[j] == its[i] and is_rule(its[i]):
                return True
        if log is not None and k < len(log) and isinstance(log[k], int):
            dead.add(i)
    return False


def rsched_class(d, log) -> List[str]:
    ov = same_object_overlap(d["its"], d["ops"], log, lambda qi: d["queries"][qi].get("rule") is not None)
    return ["K_rule_interleave"] if ov else []


def _dedup(l):
    out = []
    for x in l:
        if x not in out:
            out.append(x)
    return out


def dedup_case(d) -> dict:
    """the same case over domains with repeated elements removed (first occurrences kept)"""
    d2 = dict(d)
    if d["kind"] == "cache":
        d2["domain"] = _dedup(d["domain"])
    else:
        d2["W"] = [_dedup(w) for w in d["W"]]
    return d2


def is_submultiset(a, b) -> bool:
    """no row invented, none delivered more often than in the isolated result (the order may differ: a variable that is
    re-enumerated in an inner loop replays late what another iterator pulled meanwhile)"""
    pool = list(b)
    for x in a:
        if x in pool:
            pool.remove(x)
        else:
            return False
    return True


def is_subsequence(a, b) -> bool:
    it = iter(b)
    return all(any(x == y for y in it) for x in a)


# ------------------------------------------------------------------ generators
def gen_cache_cases(tier, rng) -> List[dict]:
    out = []
    alphabet = [["C"], ["N", 0], ["N", 1], ["A", 0], ["A", 1]]
    plan = [([1, 2], 6), ([1, 2, 3], 5)] if tier == "quick" else [([1, 2], 7), ([1, 2, 3], 7), ([3, 1, 2, 4], 6)]
    for dom, depth in plan:
        for n in range(0, depth + 1):
            for w in itertools.product(alphabet, repeat=n):
                out.append({"kind": "cache", "domain": dom, "ops": [["C"]] + [list(o) for o in w], "src": "exhaustive"})
    # the EMPTY domain, given as an empty list and as a list that let()'s isinstance filter empties
    for foreign, how in ((0, "list"), (2, "list"), (0, "gen"), (1, "tuple")):
        for n in range(0, (4 if tier == "quick" else 6) + 1):
            for w in itertools.product(alphabet, repeat=n):
                out.append({"kind": "cache", "domain": [], "foreign": foreign, "dom": how,
                            "ops": [["C"]] + [list(o) for o in w], "src": "exhaustive-empty"})
    n_rand = 2500 if tier == "quick" else 20000
    for _ in range(n_rand):
        size = rng.randint(0, 5)
        dom = rng.sample(list(range(1, 9)), size)
        if dom and rng.chance(0.15):
            dom.insert(rng.randint(0, len(dom)), rng.choice(dom))  # duplicate element
        nh = rng.randint(1, 4)
        ops = [["C"]]
        created = 1
        mode = rng.choice(["free", "free", "sequential", "nested"])
        for _ in range(rng.randint(3, 16)):
            r = rng.random()
            if mode == "sequential":
                # one live handle at a time: step / abandon the newest, then create
                if r < 0.75:
                    ops.append(["N", created - 1])
                elif r < 0.85:
                    ops.append(["A", created - 1])
                    ops.append(["C"])
                    created += 1
                else:
                    ops += [["N", created - 1]] * (len(dom) + 1) + [["C"]]
                    created += 1
            elif mode == "nested" and created < nh and r < 0.3:
                ops.append(["N", created - 1])
                ops.append(["C"])
                created += 1
                ops += [["N", created - 1]] * rng.randint(1, len(dom) + 1)
            elif r < 0.12 and created < nh:
                ops.append(["C"])
                created += 1
            elif r < 0.2:
                ops.append(["A", rng.randint(0, created - 1)])
            else:
                ops.append(["N", rng.randint(0, created - 1)])
        out.append({"kind": "cache", "domain": dom, "ops": ops, "dom": rng.choice(["list", "gen", "tuple", "iter"]),
                    "foreign": rng.randint(1, 2) if rng.chance(0.2) else 0, "src": "random-" + mode})
    return out


def gen_foreign(rng, W) -> List[int]:
    """how many foreign (filtered-out) objects to put into each let() domain; empty domains get some more often"""
    return [(rng.randint(1, 2) if rng.chance(0.5 if not w else 0.15) else 0) for w in W]


def gen_world(rng, nvars, maxsize, dup=False, p_empty=0.12):
    W, A = [], []
    nid = 10
    for _ in range(nvars):
        n = 0 if rng.chance(p_empty) else rng.randint(1, maxsize)
        w = list(range(nid, nid + n))
        nid += 10
        for i in w:
            A.append([i, rng.randint(0, 3)])
        if dup and rng.chance(0.5) and w:
            w.insert(rng.randint(0, len(w)), rng.choice(w))
        W.append(w)
    return W, A


def gen_atom(rng, vars_avail):
    x = rng.choice(vars_avail)
    op = rng.choice(list(OPS))
    if len(vars_avail) > 1 and rng.chance(0.35):
        y = rng.choice([v for v in vars_avail if v != x])
        return ["V", x, op, y]
    return ["C", x, op, rng.randint(0, 3)]


def gen_query(rng, vars_avail, allow_free_sel=True):
    nv = rng.randint(1, min(2, len(vars_avail)))
    qv = rng.sample(vars_avail, nv)
    conds = [gen_atom(rng, qv) for _ in range(rng.randint(1, 3))]
    bound = set()
    for a in conds:
        bound.add(a[1])
        if a[0] == "V":
            bound.add(a[3])
    if allow_free_sel and rng.chance(0.25):
        sel = rng.sample(qv, rng.randint(1, len(qv)))       # may select a variable no condition binds
    else:
        sel = [v for v in qv if v in bound] or [conds[0][1]]
        rng.shuffle(sel)
    form = "entity" if len(sel) == 1 and rng.chance(0.5) else "set_of"
    return {"sel": sel, "conds": conds, "form": form}


def empty_hist_cases() -> List[dict]:
    """a variable without any value of its type, evaluated repeatedly, alone and inside joins (outer and inner position)"""
    out = []
    A = [[10, 0], [11, 1], [12, 2]]
    q_single = {"sel": [0], "conds": [["C", 0, "ge", 0]], "form": "entity"}
    q_join_inner = {"sel": [1, 0], "conds": [["C", 1, "ge", 0], ["V", 0, "le", 1]], "form": "set_of"}   # v1 outer, empty v0 inner
    q_join_outer = {"sel": [0, 1], "conds": [["V", 0, "le", 1]], "form": "set_of"}                     # empty v0 outer
    q_free_sel = {"sel": [1, 0], "conds": [["C", 1, "ge", 1]], "form": "set_of"}                        # empty v0 only selected
    q_other = {"sel": [1], "conds": [["C", 1, "ge", 1]], "form": "entity"}
    for foreign in ([0, 0], [2, 0], [1, 1]):
        for doms in (["list", "list"], ["gen", "tuple"]):
            base = {"kind": "hist", "W": [[], [10, 11, 12]], "A": A, "foreign": foreign, "doms": doms, "src": "empty-explicit"}
            out.append(dict(base, queries=[q_single], evals=[0, 0, 0]))
            out.append(dict(base, queries=[q_join_inner], evals=[0, 0]))
            out.append(dict(base, queries=[q_join_outer], evals=[0, 0, 0]))
            out.append(dict(base, queries=[q_free_sel], evals=[0, 0]))
            out.append(dict(base, queries=[q_single, q_other, q_join_inner], evals=[1, 0, 2, 0, 1, 2]))
            out.append(dict(base, queries=[q_single, dict(q_single, form="set_of")], evals=[0, 1, 0], share_subexpr=True))
    return out


def shared_with_rule_hist_cases() -> List[dict]:
    """a PLAIN query shares condition objects (the base condition and / or the refinement condition) with a RULE query:
    the conclusions hang on the shared nodes, the plain query must not care (regression C03-h, krrood 784716e..5943e20)"""
    out = []
    W, A = [[10, 11, 12, 13]], [[10, 3], [11, 0], [12, 2], [13, 2]]
    base, ref = ["C", 0, "gt", 0], ["C", 0, "ne", 1]
    rule_q = {"sel": [0], "conds": [base], "rule": [ref], "form": "entity"}
    plains = [{"sel": [0], "conds": [base], "form": "entity"},
              {"sel": [0], "conds": [ref], "form": "set_of"},
              {"sel": [0], "conds": [["C", 0, "le", 3], ref, base], "form": "entity"},
              {"sel": [0], "conds": [base, ["C", 0, "le", 2]], "form": "entity"}]
    for pq in plains:
        for evals in ([1, 0, 1], [0, 1], [1, 0], [0, 1, 0, 1], [1, 1, 0, 0, 1]):
            for order in (0, 1):
                qs = [rule_q, pq] if order == 0 else [pq, rule_q]
                ev = evals if order == 0 else [1 - e for e in evals]
                out.append({"kind": "hist", "W": W, "A": A, "queries": qs, "evals": ev, "share_subexpr": True,
                            "doms": ["tuple"], "src": "shared-with-rule"})
    return out


def gen_hist_cases(tier, rng) -> List[dict]:
    out = empty_hist_cases() + shared_with_rule_hist_cases()
    n = 1200 if tier == "quick" else 8000
    for k in range(n):
        nvars = rng.randint(1, 3)
        dup = rng.chance(0.08)
        W, A = gen_world(rng, nvars, 4, dup=dup)
        queries = [gen_query(rng, list(range(nvars))) for _ in range(rng.randint(1, 3))]
        if rng.chance(0.2):
            q = queries[0]
            bound = set()
            for a in q["conds"]:
                bound.add(a[1])
                if a[0] == "V":
                    bound.add(a[3])
            q["sel"] = sorted(bound)[:2]
            if len(bound) > 1 and rng.chance(0.4):
                # conclusion over ONE variable, refinement over any bound variable: the same binding of the conclusion
                # variable can meet both conclusions (coverage memory keyed by conclusion set, krrood 35fa150)
                q["sel"] = [sorted(bound)[rng.randint(0, len(bound) - 1)]]
                q["rule"] = [gen_atom(rng, sorted(bound))]
            else:
                q["rule"] = [gen_atom(rng, q["sel"])]
            q["form"] = "entity"
        share = rng.chance(0.3)
        if share and queries[0].get("rule") is not None and len(queries) > 1 and rng.chance(0.7):
            # a plain query takes over condition objects of the rule query (its base condition and / or its refinement condition)
            other = queries[1]
            pool = [a for a in queries[0]["conds"] + queries[0]["rule"] if query_vars({"sel": [], "conds": [a]}) <= set(other["sel"]) | query_vars(other)]
            if pool:
                other["conds"] = other["conds"] + [rng.choice(pool)]
        evals = [rng.randint(0, len(queries) - 1) for _ in range(rng.randint(2, 4))]
        if rng.chance(0.5):
            evals = [evals[0]] + evals  # make sure something is re-evaluated
        out.append({"kind": "hist", "W": W, "A": A, "queries": queries, "evals": evals, "foreign": gen_foreign(rng, W),
                    "doms": [rng.choice(["list", "gen", "tuple"]) for _ in W],
                    "share_subexpr": share})
    return out


def _nexts_bound(d, qi) -> int:
    n = 1
    for v in query_vars(d["queries"][qi]):
        n *= max(1, len(d["W"][v]))
    return n + 1


def gen_sched_cases(tier, rng) -> List[dict]:
    out = []
    # (1) exhaustive interleavings of two iterators, every word over {N0,N1} up to a length, a few query pairs
    W = [[10, 11, 12]]
    A = [[10, 0], [11, 1], [12, 2]]
    qa = {"sel": [0], "conds": [["C", 0, "ge", 0]], "form": "entity"}
    qb = {"sel": [0], "conds": [["C", 0, "le", 1]], "form": "set_of"}
    qc = {"sel": [0], "conds": [["C", 0, "ge", 1], ["C", 0, "ne", 5]], "form": "entity"}
    W2 = [[10, 11], [20, 21]]
    A2 = [[10, 0], [11, 1], [20, 1], [21, 2]]
    qd = {"sel": [0, 1], "conds": [["V", 0, "lt", 1]], "form": "set_of"}
    qe = {"sel": [1], "conds": [["C", 1, "ge", 1]], "form": "entity"}
    qf = {"sel": [0], "conds": [["C", 0, "ge", 0]], "form": "entity"}
    pairs = [
        ("same-object", W, A, [qa], [0, 0], False),
        ("shared-var", W, A, [qa, qb], [0, 1], False),
        ("shared-subexpr", W, A, [qa, {"sel": [0], "conds": [["C", 0, "ge", 0], ["C", 0, "le", 1]], "form": "entity"}], [0, 1], True),
        ("shared-var-2", W2, A2, [qd, qe], [0, 1], False),
        ("disjoint", W2, A2, [qf, qe], [0, 1], False),
        ("same-object-2", W2, A2, [qd], [0, 0], False),
    ]
    L = 8 if tier == "quick" else 10
    for name, w, a, qs, its, sub in pairs:
        Lp = L if len(w) == 1 or tier != "quick" else L - 1
        for n in range(1, Lp + 1):
            for word in itertools.product([0, 1], repeat=n):
                ops = [["N", i] for i in word]
                out.append({"kind": "sched", "W": w, "A": a, "queries": qs, "its": its, "ops": ops, "share": name,
                            "share_subexpr": sub, "src": "exhaustive"})
    # (1b) three iterators (query a, query b, query a again as the same object): every word over {N0,N1,N2} up to length 6 / 8
    L3 = 6 if tier == "quick" else 8
    for name, w, a, qs, its, sub in (("three-shared", W, A, [qa, qb], [0, 1, 0], False), ("three-mixed", W2, A2, [qd, qe, qf], [0, 1, 2], False)):
        for n in range(3, L3 + 1):
            for word in itertools.product([0, 1, 2], repeat=n):
                out.append({"kind": "sched", "W": w, "A": a, "queries": qs, "its": its, "ops": [["N", i] for i in word],
                            "share": name, "share_subexpr": sub, "src": "exhaustive-3"})
    # (2) abandonment at every point, then a fresh iterator of the same query object / of the other query
    for name, w, a, qs, its, sub in pairs[:4]:
        total = _nexts_bound({"W": w, "queries": qs}, its[0])
        for k in range(0, total + 1):
            for how in ("close", "del"):
                its3 = its + [its[0]]
                ops = [["N", 0]] * k + [["X", 0]] + [["N", 2]] * total + [["N", 1]] * total + [["N", 0]]
                out.append({"kind": "sched", "W": w, "A": a, "queries": qs, "its": its3, "ops": ops, "share": name,
                            "share_subexpr": sub, "close": how, "src": "abandon"})
    # (3) nested loops: for r0 in q0: for r1 in q1 (a fresh inner iterator per outer row)
    for name, w, a, qs, its, sub in pairs:
        outer, inner = its
        d0 = {"W": w, "queries": qs}
        n_out, n_in = _nexts_bound(d0, outer), _nexts_bound(d0, inner)
        its_n = [outer]
        ops = []
        for k in range(n_out):
            ops.append(["N", 0])
            its_n.append(inner)
            ops += [["N", len(its_n) - 1]] * n_in
        out.append({"kind": "sched", "W": w, "A": a, "queries": qs, "its": its_n, "ops": ops, "share": name,
                    "share_subexpr": sub, "src": "nested"})
        # inner loop abandoned after its first row (break)
        its_n, ops = [outer], []
        for k in range(n_out):
            ops.append(["N", 0])
            its_n.append(inner)
            ops += [["N", len(its_n) - 1], ["X", len(its_n) - 1]]
        out.append({"kind": "sched", "W": w, "A": a, "queries": qs, "its": its_n, "ops": ops, "share": name,
                    "share_subexpr": sub, "src": "nested-break"})
    # (4) random: 2-3 iterators, random worlds and queries, longer schedules
    n = 1500 if tier == "quick" else 12000
    for _ in range(n):
        nvars = rng.randint(1, 3)
        W_, A_ = gen_world(rng, nvars, 3, dup=rng.chance(0.05))
        mode = rng.choice(["same-object", "shared-var", "shared-subexpr", "disjoint", "mixed"])
        vars_all = list(range(nvars))
        if mode == "same-object":
            qs = [gen_query(rng, vars_all)]
            its = [0] * rng.randint(2, 3)
        elif mode == "disjoint" and nvars >= 2:
            qs = [gen_query(rng, [0]), gen_query(rng, vars_all[1:])]
            its = [0, 1]
        else:
            qs = [gen_query(rng, vars_all) for _ in range(rng.randint(2, 3))]
            its = [rng.randint(0, len(qs) - 1) for _ in range(rng.randint(2, 3))]
        ops = []
        style = rng.choice(["random", "random", "roundrobin", "sequential"])
        length = rng.randint(4, 14)
        if style == "roundrobin":
            for k in range(length):
                ops.append(["N", k % len(its)])
        elif style == "sequential":
            for i in range(len(its)):
                k = rng.randint(0, _nexts_bound({"W": W_, "queries": qs}, its[i]))
                ops += [["N", i]] * k
                if rng.chance(0.5):
                    ops.append(["X", i])
                else:
                    ops += [["N", i]] * (_nexts_bound({"W": W_, "queries": qs}, its[i]) + 1)
                    ops.append(["X", i])
        else:
            for k in range(length):
                if rng.chance(0.1):
                    ops.append(["X", rng.randint(0, len(its) - 1)])
                else:
                    ops.append(["N", rng.randint(0, len(its) - 1)])
        out.append({"kind": "sched", "W": W_, "A": A_, "queries": qs, "its": its, "ops": ops, "share": mode,
                    "share_subexpr": mode == "shared-subexpr", "close": rng.choice(["close", "del"]),
                    "foreign": gen_foreign(rng, W_),
                    "doms": [rng.choice(["list", "gen", "tuple"]) for _ in W_], "src": "random-" + style})
    out += empty_and_warm_sched_cases(tier)
    return out


def empty_and_warm_sched_cases(tier) -> List[dict]:
    out = []
    A = [[10, 0], [11, 1], [12, 2]]
    # (5) a variable without values: the same query object evaluated again and again (sequentially: inside F), and
    #     nested inside another query's loop
    q_single = {"sel": [0], "conds": [["C", 0, "ge", 0]], "form": "entity"}
    q_join = {"sel": [1, 0], "conds": [["C", 1, "ge", 0], ["V", 0, "le", 1]], "form": "set_of"}
    q_other = {"sel": [1], "conds": [["C", 1, "ge", 1]], "form": "entity"}
    for foreign in ([0, 0], [2, 0]):
        base = {"kind": "sched", "W": [[], [10, 11, 12]], "A": A, "foreign": foreign, "src": "empty-explicit", "share": "empty"}
        out.append(dict(base, queries=[q_single], its=[0, 0, 0], ops=[["N", 0], ["N", 0], ["N", 1], ["N", 1], ["N", 2], ["N", 2]]))
        out.append(dict(base, queries=[q_join], its=[0, 0], ops=[["N", 0]] * 2 + [["N", 1]] * 2))
        out.append(dict(base, queries=[q_other, q_single], its=[0, 1, 1, 1],
                        ops=[["N", 0], ["N", 1], ["N", 1], ["N", 0], ["N", 2], ["N", 2], ["N", 0], ["N", 3]]))
        out.append(dict(base, queries=[q_single], its=[0, 0], ops=[["N", 0], ["N", 1], ["N", 0], ["N", 1]]))
    # (6) one complete warm-up evaluation (all domains cached: C03_cache_warm_any_schedule says the cache cannot interfere
    #     any more), then every interleaving of two further evaluations of the same query object / of two queries
    W = [[10, 11, 12]]
    W2 = [[10, 11], [20, 21]]
    A2 = [[10, 0], [11, 1], [20, 1], [21, 2]]
    qa = {"sel": [0], "conds": [["C", 0, "ge", 0]], "form": "entity"}
    qb = {"sel": [0], "conds": [["C", 0, "le", 1]], "form": "set_of"}
    qd = {"sel": [0, 1], "conds": [["V", 0, "lt", 1]], "form": "set_of"}
    L = 6 if tier == "quick" else 9
    for name, w, a, qs, warm_its, its in (("warm-same-object", W, A, [qa], [0], [0, 0]),
                                          ("warm-shared-var", W, A, [qa, qb], [0, 1], [0, 1]),
                                          ("warm-same-object-2", W2, A2, [qd], [0], [0, 0])):
        d0 = {"W": w, "queries": qs}
        warm_ops = []
        for k, qi in enumerate(warm_its):
            warm_ops += [["N", k]] * (_nexts_bound(d0, qi) + 1)
        for n in range(1, L + 1):
            for word in itertools.product([0, 1], repeat=n):
                out.append({"kind": "sched", "W": w, "A": a, "queries": qs, "its": warm_its + its,
                            "ops": warm_ops + [["N", len(warm_its) + i] for i in word], "share": name, "src": "warm-interleave"})
    return out


def gen_extend_cases(tier, rng) -> List[dict]:
    out = []
    W, A = [[10, 11, 12, 13]], [[10, 0], [11, 1], [12, 2], [13, 3]]
    for ext in ("ref", "alt", "next"):
        for c1 in (0, 1):
            for c2 in (0, 1, 2, 3):
                for nb in (1, 2):
                    out.append({"kind": "extend", "W": W, "A": A, "ext": ext, "c1": c1, "c2": c2, "n_before": nb, "n_after": 3,
                                "src": "extend-rule"})
    for _ in range(40 if tier == "quick" else 400):
        W_, A_ = gen_world(rng, 1, 4, p_empty=0.05)
        out.append({"kind": "extend", "W": W_, "A": A_, "ext": rng.choice(["ref", "alt", "next"]), "c1": rng.randint(0, 2),
                    "c2": rng.randint(0, 3), "n_before": rng.randint(1, 2), "n_after": rng.randint(2, 3), "src": "extend-rule-random"})
    return out


def gen_domainless_cases(tier, rng) -> List[dict]:
    out = []
    for form in ("entity", "set_of"):
        for c in (0, 1):
            for steps in ([["E"], ["C", 1], ["C", 2], ["E"], ["E"]], [["E"], ["E"], ["C", 0], ["C", 3], ["E"], ["C", 1], ["E"]],
                          [["C", 2], ["E"], ["C", 1], ["E"], ["E"]], [["E"], ["C", 1], ["E"]]):
                out.append({"kind": "domainless", "form": form, "c": c, "steps": steps, "src": "domainless-explicit"})
    for _ in range(30 if tier == "quick" else 300):
        steps = []
        for _ in range(rng.randint(3, 8)):
            steps.append(["E"] if rng.chance(0.5) else ["C", rng.randint(0, 3)])
        steps.append(["E"])
        out.append({"kind": "domainless", "form": rng.choice(["entity", "set_of"]), "c": rng.randint(0, 2), "steps": steps,
                    "src": "domainless-random"})
    return out


def gen_sharedattr_cases(tier, rng) -> List[dict]:
    out = []
    W, A = [[10, 11, 12, 13]], [[10, 0], [11, 1], [12, 0], [13, 3]]
    for evals in ([0, 1], [1, 0], [0, 1, 0, 1], [1, 0, 1, 0], [0, 0, 1], [1, 1, 0], [0, 0], [1, 1]):
        for op_, c in (("ge", 0), ("le", 1), ("ne", 3), ("lt", 3)):
            out.append({"kind": "sharedattr", "W": W, "A": A, "op": op_, "c": c, "evals": evals, "src": "shared-attr-roles"})
    for _ in range(60 if tier == "quick" else 600):
        W_, A_ = gen_world(rng, 1, 4, p_empty=0.05)
        out.append({"kind": "sharedattr", "W": W_, "A": A_, "op": rng.choice(["ge", "le", "ne", "lt"]), "c": rng.randint(0, 3),
                    "evals": [rng.randint(0, 1) for _ in range(rng.randint(2, 4))], "src": "shared-attr-roles-random"})
    return out


def gen_rsched_cases(tier, rng) -> List[dict]:
    """evaluate() iterators of query OBJECTS, rule queries among them (the selector node is shared by the evaluations of one object)"""
    out = []
    W = [[10, 11, 12, 13]]
    A = [[10, 0], [11, 1], [12, 2], [13, 3]]
    qr = {"sel": [0], "conds": [["C", 0, "ge", 1]], "rule": [["C", 0, "ge", 2]], "form": "entity"}
    qr2 = {"sel": [0], "conds": [["C", 0, "ge", 0]], "rule": [["C", 0, "le", 1]], "form": "entity"}
    qp = {"sel": [0], "conds": [["C", 0, "ge", 2]], "form": "entity"}
    L = 7 if tier == "quick" else 10
    for name, qs, its in (("rule-same-object", [qr], [0, 0]), ("rule-two-objects", [qr, dict(qr)], [0, 1]),
                          ("rule-and-plain", [qr, qp], [0, 1]), ("rule-two-rules", [qr, qr2], [0, 1])):
        for n in range(1, L + 1):
            for word in itertools.product([0, 1], repeat=n):
                out.append({"kind": "rsched", "W": W, "A": A, "queries": qs, "its": its, "ops": [["N", i] for i in word],
                            "share": name, "src": "rule-exhaustive"})
    # sequential re-evaluation with abandonment at every point, then fresh evaluations of the same object
    for k in range(0, 5):
        for how in ("close", "del"):
            out.append({"kind": "rsched", "W": W, "A": A, "queries": [qr], "its": [0, 0, 0], "close": how,
                        "ops": [["N", 0]] * k + [["X", 0]] + [["N", 1]] * 5 + [["N", 2]] * 5 + [["N", 0]], "share": "rule-abandon",
                        "src": "rule-abandon"})
    n = 500 if tier == "quick" else 6000
    for _ in range(n):
        nvars = rng.randint(1, 2)
        W_, A_ = gen_world(rng, nvars, 4, dup=rng.chance(0.05))
        queries = []
        for _ in range(rng.randint(1, 3)):
            q = gen_query(rng, list(range(nvars)), allow_free_sel=False)
            if rng.chance(0.6):
                bound = set()
                for a in q["conds"]:
                    bound.add(a[1])
                    if a[0] == "V":
                        bound.add(a[3])
                q["sel"] = sorted(bound)[:2]
                if len(bound) > 1 and rng.chance(0.4):
                    q["sel"] = [sorted(bound)[rng.randint(0, len(bound) - 1)]]
                q["rule"] = [gen_atom(rng, sorted(bound))]
                q["form"] = "entity"
            queries.append(q)
        its = [rng.randint(0, len(queries) - 1) for _ in range(rng.randint(2, 3))]
        style = rng.choice(["random", "roundrobin", "sequential", "sequential"])
        ops = []
        if style == "sequential":
            for i in range(len(its)):
                bound_n = _nexts_bound({"W": W_, "queries": queries}, its[i])
                ops += [["N", i]] * (rng.randint(0, bound_n) if rng.chance(0.4) else bound_n + 1) + [["X", i]]
        elif style == "roundrobin":
            ops = [["N", k % len(its)] for k in range(rng.randint(4, 14))]
        else:
            for k in range(rng.randint(4, 14)):
                ops.append(["X", rng.randint(0, len(its) - 1)] if rng.chance(0.1) else ["N", rng.randint(0, len(its) - 1)])
        out.append({"kind": "rsched", "W": W_, "A": A_, "queries": queries, "its": its, "ops": ops, "foreign": gen_foreign(rng, W_),
                    "close": rng.choice(["close", "del"]), "share": "rule-random", "src": "rule-random-" + style})
    return out


QUANT_SHAPES = ["exists", "exists_and", "exists2", "forall", "not_exists"]


def gen_extra_cases(tier, rng) -> List[dict]:
    out = []
    n = 500 if tier == "quick" else 4000
    for _ in range(n):
        nvars = rng.randint(1, 2)
        W_, A_ = gen_world(rng, nvars, 3)
        shapes = []
        for _ in range(rng.randint(1, 2)):
            k = rng.choice(["or", "not", "or2", "andnot", "rule", "rule_noadd", "truthy", "andtruthy"] + QUANT_SHAPES)
            shapes.append([k, rng.randint(0, 3), rng.randint(0, 3)])
        its = [rng.randint(0, len(shapes) - 1) for _ in range(rng.randint(2, 3))]
        style = rng.choice(["random", "sequential", "sequential"])
        ops = []
        if style == "sequential":
            for i in range(len(its)):
                k = rng.randint(0, 10)
                ops += [["N", i]] * k + [["X", i]]
        else:
            for k in range(rng.randint(4, 12)):
                ops.append(["X", rng.randint(0, len(its) - 1)] if rng.chance(0.1) else ["N", rng.randint(0, len(its) - 1)])
        warm = rng.chance(0.4) and not any(s_[0] in ("rule", "rule_noadd") for s_ in shapes)
        out.append({"kind": "extra", "W": W_, "A": A_, "shapes": shapes, "its": its, "ops": ops, "warm": warm,
                    "src": "extra-" + style + ("-warm" if warm else "")})
    # an iterator of a rule query abandoned at a row (close / del), then the SAME object evaluated again, twice: the conclusions
    # selected for the abandoned row must not leak into the next evaluation (krrood 23d12cd; deterministic with rule_noadd:
    # the leaked conclusion makes the first base row appear although its refinement does not hold)
    Wl, Al = [[10, 11, 12, 13]], [[10, 0], [11, 1], [12, 2], [13, 3]]
    for k in ("rule_noadd", "rule"):
        for c1 in (0, 1):
            for c2 in (1, 2, 3):
                for n_before in (1, 2, 3):
                    out.append({"kind": "extra", "W": Wl, "A": Al, "shapes": [[k, c1, c2]], "its": [0, 0, 0],
                                "ops": [["N", 0]] * n_before + [["X", 0]] + [["N", 1]] * 5 + [["N", 2]] * 5, "src": "extra-abandon-leak"})
    # ONE symbolic-function call node used as a condition in one query and as a selected value in another: whether its result is
    # a truth value must be decided by the evaluation that asks, not by whoever evaluated the shared node last
    Ws, As = [[10, 11, 12, 13, 14]], [[10, 1], [11, 3], [12, 5], [13, 1], [14, 2]]
    Ls = 6 if tier == "quick" else 8
    for shapes, its in (([["sf_cond", 1, 0], ["sf_sel", 1, 0]], [0, 1]), ([["sf_and", 1, 0], ["sf_sel", 1, 0]], [0, 1]),
                        ([["sf_cond", 1, 0]], [0, 0]), ([["sf_sel", 2, 0], ["sf_cond", 2, 0]], [0, 1])):
        for warm in (False, True):
            for nn in range(2, Ls + 1):
                for word in itertools.product([0, 1], repeat=nn):
                    if 0 not in word or 1 not in word:
                        continue
                    out.append({"kind": "extra", "W": Ws, "A": As, "shapes": shapes, "its": its, "warm": warm,
                                "ops": [["N", i] for i in word], "src": "extra-shared-function"})
    # ONE comparison object used twice in a query, shared with another query (or the same query evaluated twice): the second
    # occurrence must be answered from the row's own bindings, whatever other evaluations did to the node in between
    Wc, Ac = [[10, 11, 12], [20, 21]], [[10, 2], [11, 3], [12, 1], [20, 1], [21, 2]]
    Lc = 6 if tier == "quick" else 8
    for shapes, its in (([["cmp_twice", 1, 0], ["cmp_not", 1, 0]], [0, 1]), ([["cmp_twice", 1, 0], ["cmp_plain", 1, 0]], [0, 1]),
                        ([["cmp_twice", 1, 0]], [0, 0]), ([["cmp_twice1", 1, 0], ["cmp_not", 1, 0]], [0, 1]),
                        ([["cmp_twice", 2, 0], ["cmp_not", 2, 0]], [0, 1])):
        for warm in (False, True):
            for nn in range(2, Lc + 1):
                for word in itertools.product([0, 1], repeat=nn):
                    if 0 not in word or 1 not in word:
                        continue
                    out.append({"kind": "extra", "W": Wc, "A": Ac, "shapes": shapes, "its": its, "warm": warm,
                                "ops": [["N", i] for i in word], "src": "extra-shared-comparison"})
    # after one complete warm-up evaluation: every interleaving of two (three) further evaluations of the SAME query object,
    # for every quantifier / connective shape: nested loops, lock-step and suspended-then-resumed are all among the words
    worlds = [([[10, 11, 12], [20, 21, 22]], [[10, 0], [11, 1], [12, 2], [20, 0], [21, 1], [22, 3]]),
              ([[10, 11], []], [[10, 1], [11, 2]])]
    L = 6 if tier == "quick" else 8
    for W_, A_ in worlds:
        for k in QUANT_SHAPES + ["or", "or2", "andnot", "andtruthy"]:
            for c in ((0, 1) if tier == "quick" else (0, 1, 2, 3)):
                shape = [k, c, 1]
                for nn in range(2, L + 1):
                    for word in itertools.product([0, 1], repeat=nn):
                        if 0 not in word or 1 not in word:
                            continue
                        out.append({"kind": "extra", "W": W_, "A": A_, "shapes": [shape], "its": [0, 0], "warm": True,
                                    "ops": [["N", i] for i in word], "src": "extra-warm-interleave"})
    return out


# ------------------------------------------------------------------ the check
def snippet(d) -> str:
    return f"from harness import c03; print(c03.run_impl({json.dumps(d)!r} and __import__('json').loads({json.dumps(d)!r})))"


def evaluate_detail(d) -> Tuple[Any, Any]:
    try:
        vals = core.coq_eval_sx(PROP, HEADER, [f"{MODEL_FN[d['kind']]} {t_case(d)}", f"{SPEC_FN[d['kind']]} {t_case(d)}"])
        return vals[0], vals[1]
    except Exception as e:  # noqa
        return f"<{e}>", None


def cmp_twin_log(d) -> List[Any]:
    """(regression documentation; no longer used as a tolerated class since krrood ef33928)
    Recorded defect behaviour of finding C03-f, as a twin of the evaluator on the shared-comparison shapes: the comparison
    c = x.a > t is ONE node; its first occurrence in a row computes the value and stores `not value` in the node's flag, its
    second occurrence in the same row (Comparator._evaluate__, branch `if self._id_ in sources`) answers with the flag -- which
    another evaluation sharing the node may have overwritten while this one was suspended at a row."""
    amap = dict((i, a) for i, a in d["A"])
    xs = _dedup(d["W"][0])
    ys = _dedup(d["W"][1]) if len(d["W"]) > 1 else xs
    flags: Dict[int, bool] = {}

    def gen(shape):
        name, t = shape[0], shape[1]
        for x in xs:
            v = amap.get(x, 0) > t
            flags[t] = not v
            if name == "cmp_plain":
                if v:
                    yield [x]
            elif name == "cmp_not":
                if not v:
                    yield [x]
            elif name == "cmp_twice1":
                if v and amap.get(x, 0) >= 0 and not flags[t]:
                    yield [x]
            else:
                if not v:
                    continue
                for y in ys:
                    if amap.get(y, 0) >= 0 and not flags[t]:
                        yield [x, y]

    if d.get("warm"):
        for qi in sorted(set(d["its"])):
            for _ in gen(d["shapes"][qi]):
                pass
    its = [gen(d["shapes"][qi]) for qi in d["its"]]
    log: List[Any] = []
    for o in d["ops"]:
        if o[0] == "X":
            its[o[1]].close()
            log.append(MARK)
            continue
        try:
            log.append(next(its[o[1]]))
        except StopIteration:
            log.append(STOP)
    return log


def sf_twin_log(d) -> List[Any]:
    """(regression documentation; no longer used as a tolerated class since krrood 67f3580)
    Recorded defect behaviour of finding C03-g, as a twin of the evaluator on the shared symbolic-function shapes: whether the
    function's result is a truth value (a condition) or a value (a selected expression) is read from the NODE's _eval_parent_ when
    each result is built (Variable._process_output_and_update_values_), while _eval_parent_ is written whenever any evaluation
    enters the node: a condition-evaluation that enumerates its variable inside one call of the node (sf_cond) reads the role the
    other query wrote in between and lets every later row through."""
    amap = dict((i, a) for i, a in d["A"])
    xs = _dedup(d["W"][0])
    role: Dict[int, str] = {}

    def gen(shape):
        name, t = shape[0], shape[1]
        if name == "sf_cond":
            role[t] = "cond"                      # one call of the node for the whole evaluation
            for x in xs:
                v = amap.get(x, 0) > t
                if role[t] == "value" or v:
                    yield [x]
        elif name == "sf_and":
            for x in xs:
                if amap.get(x, 0) >= 0:
                    role[t] = "cond"              # one call per row, read immediately
                    if amap.get(x, 0) > t:
                        yield [x]
        else:
            for x in xs:
                role[t] = "value"
                yield [x, int(amap.get(x, 0) > t)]

    if d.get("warm"):
        for qi in sorted(set(d["its"])):
            for _ in gen(d["shapes"][qi]):
                pass
    its = [gen(d["shapes"][qi]) for qi in d["its"]]
    log: List[Any] = []
    for o in d["ops"]:
        if o[0] == "X":
            its[o[1]].close()
            log.append(MARK)
            continue
        try:
            log.append(next(its[o[1]]))
        except StopIteration:
            log.append(STOP)
    return log


def extra_verdict(d, impl) -> Tuple[str, Any]:
    """-> ('ok' | 'known:<classes>' | 'violation', expected log).  Shapes outside the modelled fragment: the match with a
    known-finding class is INEXACT (no model predicts the wrong output), it is a signature per iterator:
      (K_interleave -- live iterators over a shared variable -- is no longer tolerated: the cache was fixed in 1997e3c)
      K_rule_interleave : the iterator belongs to a rule query object of which two evaluations are LIVE at the same time in the
                      case; its rows are [tag, id] with tag in {0,1} and id among the ids of its isolated rows (missing rows,
                      or the conclusion of the other, suspended evaluation).  Sequential re-evaluation must be exact."""
    if not (isinstance(impl, list) and len(impl) >= 2 and isinstance(impl[0], list) and isinstance(impl[1], list)
            and len(impl[1]) == len(d["its"])):
        return "violation", None
    log, iso = impl[0], impl[1]
    warm = impl[2] if len(impl) > 2 else []
    exp = extra_expected(d, iso)
    if d.get("warm"):
        # the warm-up evaluation itself must already give the isolated rows (rule shapes are not generated with warm-up)
        for qi, rows in zip(sorted(set(d["its"])), warm):
            if rows != iso[d["its"].index(qi)]:
                return "violation", exp
    if log == exp:
        return "ok", exp
    if all(sh[0] in SF_SHAPES for sh in d["shapes"]):
        # finding C03-g was repaired in krrood 67f3580: the shared-function family must simply equal the isolated results
        return "violation", exp
    if all(sh[0] in CMP_SHAPES for sh in d["shapes"]):
        # finding C03-f was repaired in krrood ef33928: the shared-comparison family must simply equal the isolated results
        return "violation", exp
    n = len(d["its"])
    got: Dict[int, list] = {i: [] for i in range(n)}
    want: Dict[int, list] = {i: [] for i in range(n)}
    for o, r, e in zip(d["ops"], log, exp):
        if o[0] == "N":
            got[o[1]].append(r)
            want[o[1]].append(e)
    shapes_vars = []
    for qi in d["its"]:
        s = d["shapes"][qi]
        two = s[0] in ("or2", "exists", "exists_and", "exists2", "forall", "not_exists", "cmp_twice")
        shapes_vars.append({0, 1} if two and len(d["W"]) > 1 else {0})
    classes = set()
    for i in range(n):
        if got[i] == want[i]:
            continue
        rows = [r for r in got[i] if isinstance(r, list)]
        errs = [r for r in got[i] if isinstance(r, int) and r != STOP]
        if any(e != ERR_RT for e in errs):
            return "violation", exp
        is_rule = d["shapes"][d["its"][i]][0] in ("rule", "rule_noadd")
        if is_rule and same_object_overlap(d["its"], d["ops"], log, lambda qi: d["shapes"][qi][0] in ("rule", "rule_noadd")):
            ids = {r[1] for r in iso[i] if isinstance(r, list)}
            if all(len(r) == 2 and r[0] in (0, 1) and r[1] in ids for r in rows):
                classes.add("K_rule_interleave")
                continue
            return "violation", exp
        return "violation", exp
    return "known:" + "+".join(sorted(classes)), exp


def run(tier: str, seed: int, replay=None) -> int:
    rep = Report(PROP, tier, seed, "proof")
    rep.trusted = core.COQ_TRUSTED + [
        "hand-written models Eql/DomainCache.v (HashedIterable.__iter__ of krrood 1997e3c = rstep; the previous iterator = hstep, regression only), Eql/Reeval.v (whole evaluations over cached domains, "
        "concluded_before), Eql/DomainCacheSched.v (coroutine machine for interleaved evaluations), each tied by differential "
        "execution against the implementation on every run",
        "harness/c03.py: case builders through the public API, schedule drivers, outcome encoding",
        "CPython semantics that the models restate: generator protocol (body starts at first next, close()), dict insertion order and "
        "list(dict.values())[i:] as a snapshot, itertools.product materialising its arguments",
        "source pins pins/c03.json (30 methods the hand models mirror: HashedIterable/HashedValue, Variable/Comparator/AND/descriptor/"
        "quantifier evaluation, Exists, ConclusionSelector/ExceptIf, let): a changed method reopens the correspondence obligation",
    ]
    rep.assume = [
        "part (c) -- arbitrary next() interleavings of whole evaluations -- is proved ABOUT THE COROUTINE MACHINE (Eql/DomainCacheSched.v); that the "
        "machine is what the implementation does is the correspondence of this check (sched / rsched cases), not a theorem; scratch state on "
        "shared nodes other than the selector's memory (_is_false_, _eval_parent_, left_evaluated) is not in any model",
        "the coroutine machine keeps the selector node's coverage memory and _conclusion_ set per query OBJECT ('rsched' cases); where two "
        "conclusions are applied in set-iteration order it predicts 'tag 0 or 1' (wildcard -5), the only inexact spot",
        "part (b) is proved for the conjunctive fragment (atoms x.a op c / x.a op y.a, selected variables, one optional refinement rule) "
        "over arbitrary domains (an element listed twice is one element: the Spec de-duplicates, as the iterator does since 1997e3c); "
        "other node kinds are only sampled (kind 'extra')",
        "domain elements are identified by HashedValue.id_ (objects with identity semantics)",
        "exists/for_all/or_/not_ shapes have no evaluator model here: they are compared with the implementation's own isolated result; after a "
        "warm-up evaluation -- and since 1997e3c also without one -- no class excuses a difference except K_rule_reeval "
        "(C03_cache_any_schedule_repaired: the cache cannot make live iterators interfere; C03_exists_local_isolated: the Exists memory is per evaluation)",
    ]
    rep.rule = ("cache: every operation word over {create,next0,next1,abandon0,abandon1} up to length 5 (quick) / 7 (thorough) after a first "
                "create, plus seeded random schedules (<=4 handles, <=40 steps, domains 0-5 elements, 15% with a duplicate, list/generator/"
                "tuple/iterator domains); hist: seeded random histories of 2-5 whole evaluations over 1-3 queries sharing 1-3 variables, 20% "
                "with a refinement rule, 8% duplicate elements; sched: every word over {next0,next1} up to length 7/10 for six query pairs "
                "(same object twice, shared variable, shared sub-expression, two-variable, disjoint), abandonment at every point (close/del) "
                "followed by fresh iterators, nested loops (with and without break), seeded random 2-3 iterators; EMPTY domains (empty list, and "
                "lists that let()'s isinstance filter empties) in all three kinds: exhaustive operation words on the empty cache incl. the "
                "truthiness of the domain at every iter(), explicit histories/schedules re-evaluating a query over a value-less variable alone "
                "and in the outer/inner/selected-only position of a join, 12% empty domains in the random worlds; warm-up schedules: one "
                "complete evaluation, then every word over two further iterators of the same object / a shared variable (length <=6/9); "
                "rsched: iterators of query objects with rule queries -- every word over {next0,next1} up to length 7/10 for one rule object twice, "
                "two rule objects, rule + plain query, two different rules; abandonment at every point; seeded random objects/iterators; "
                "extra-shared-function: ONE @symbolic_function call node used as a condition in one query and as a selected value in another "
                "(and below and_, and twice as a condition), all interleavings up to length 6/8, cold and after warm-up; "
                "extra-shared-comparison: ONE comparison object used twice in a query (with and without a join in between) and shared with a "
                "second query (negated / plain) or evaluated twice, all interleavings up to length 6/8, cold and after warm-up; "
                "domainless: one query over let(T, None) evaluated before and after instances of T are created, vs a fresh query at the same "
                "moments; extend: a rule query evaluated, then extended by a refinement / alternative / next_rule, then evaluated three more times, vs fresh "
                "queries; sharedattr: one Attribute node used as a bare condition in one query and as a comparison operand in another, every "
                "order of evaluations; extra: or_/not_/truthiness/rule shapes and exists/for_all/not_(exists) shapes vs the isolated result of a fresh query, incl. for "
                "every shape all interleavings (length <=6/8) of two evaluations of the SAME query object after a complete warm-up evaluation. distinct = distinct case description; non-trivial = at least one row is delivered")
    ok_spec, log = core.coq_make(["Base/Sx.vo", "Eql/DomainCacheSpec.vo", "Eql/ReevalSpec.vo", "Eql/ReevalSpecSx.vo"])
    rep.oblige("build:spec", ok_spec, "" if ok_spec else core.first_error(log))
    model_ok = core.standard_proof_steps(rep, PROP, ["Props/C03.vo", "Eql/DomainCacheSched.vo", "Eql/ReevalCases.vo"])
    from translator import pins
    pins.oblige(rep, str(core.REPO), "c03", "the domain-cache / re-evaluation / interleaving models (Eql/DomainCache.v, Reeval.v, DomainCacheSched.v, ReevalExists.v)")
    rng = core.Rng(seed)
    t0 = time.time()

    findings = core.load_findings(PROP)
    corpus = []
    cdir = core.VERIF / "corpus" / PROP
    if cdir.is_dir():
        for f in sorted(cdir.glob("*.json")):
            c = json.loads(f.read_text())
            c["case"]["_file"] = f"corpus/{PROP}/{f.name}"
            corpus.append(c["case"])
    if replay:
        descrs = [replay["case"]]
    else:
        descrs = (corpus + gen_cache_cases(tier, rng.fork(1)) + gen_hist_cases(tier, rng.fork(2))
                  + gen_sched_cases(tier, rng.fork(3)) + gen_extra_cases(tier, rng.fork(4)) + gen_rsched_cases(tier, rng.fork(5))
                  + gen_extend_cases(tier, rng.fork(6)) + gen_sharedattr_cases(tier, rng.fork(7)) + gen_domainless_cases(tier, rng.fork(8)))
    impls = []
    for d in descrs:
        try:
            impls.append(run_impl(d))
        except BaseException as e:  # noqa  (construction failed)
            impls.append([ERR_OTHER, sum(map(ord, type(e).__name__))])
    t_impl = time.time() - t0

    # classification inside Coq, per kind
    codes: Dict[int, int] = {}
    for kind in ("cache", "hist", "sched", "rsched"):
        idx = [i for i, d in enumerate(descrs) if d["kind"] == kind]
        if not idx:
            continue
        pairs = [(t_case(descrs[i], spec_only=not model_ok), core.sx(impls[i])) for i in idx]
        try:
            if model_ok:
                cs = core.coq_codes(PROP, HEADER, CASE_TYPE[kind], CODE_FN[kind], pairs, chunk=400, tag=f"cases_{kind}")
            else:
                rep.note(f"model not available; comparing the implementation with the Spec only ({kind})")
                cs = [c * (10 if kind in ("cache", "sched") else 1) for c in
                      core.coq_codes(PROP, HEADER_SPEC, CASE_TYPE_SPEC[kind], CODE_FN_SPEC[kind], pairs, chunk=400, tag=f"cases_{kind}")]
        except core.CoqEvalError as e:
            rep.oblige(f"evaluate:{kind}", False, str(e)[:300])
            continue
        for i, c in zip(idx, cs):
            codes[i] = c

    dist: Dict[str, int] = {}
    known_counts: Dict[str, int] = {}
    bad: List[Tuple[dict, Any, str]] = []
    stale: List[dict] = []
    stale_in_f: List[dict] = []

    def bump(k):
        dist[k] = dist.get(k, 0) + 1

    for i, d in enumerate(descrs):
        kind = d["kind"]
        impl = impls[i]
        key = json.dumps({k: v for k, v in d.items() if not k.startswith("_")}, sort_keys=True)
        flat = json.dumps(impl)
        rep.count(key, "[" in flat[1:] if kind != "cache" else any(isinstance(v, int) and v >= 0 for v in impl))
        bump(f"{kind}:{d.get('src', d.get('share', 'corpus' if '_file' in d else 'random'))}")
        if kind in ("extra", "extend", "sharedattr", "domainless"):
            try:
                verdict, exp = {"extra": extra_verdict, "extend": extend_verdict, "sharedattr": sharedattr_verdict,
                                "domainless": domainless_verdict}[kind](d, impl)
            except Exception:  # noqa  (construction failed: impl is an error marker)
                verdict, exp = "violation", None
            if verdict == "ok":
                continue
            if verdict.startswith("known:"):
                lab = verdict[6:] + (" (extra, inexact)" if kind == "extra" and "K_shared_" not in verdict
                                     else " (predicted exactly by the class rule)")
                known_counts[lab] = known_counts.get(lab, 0) + 1
                continue
            bad.append((d, impl, f"{kind} shape: differs from the isolated result and is not explained by a listed class; expected {exp}"))
            continue
        if i not in codes:
            continue
        c = codes[i]
        # no tolerated class is left for the domain cache (fixed by krrood 1997e3c): interleaved iterators over a shared
        # variable and repeated domain elements must meet the Spec.  The only open class is K_rule_reeval (hist cases).
        old_fails = 0
        if kind in ("cache", "sched"):
            code, old_fails = divmod(c, 10)
            classes: List[str] = []
        elif kind == "rsched":
            code, classes = c, rsched_class(d, impl)
        else:
            code, classes = c, hist_class(d)
        bump(f"{kind}:code{code}")
        bump(f"{kind}:class:" + ("+".join(classes) if classes else "F"))
        if old_fails:
            bump(f"{kind}:previous-iterator-would-fail")
        if code == 0:
            continue
        if code == 1:
            # implementation meets the Spec, the model of the current code does not
            (stale if classes else stale_in_f).append(d)
            continue
        if not model_ok and code == 3 and classes:
            k = "+".join(classes) + " (class only: model not built)"
            known_counts[k] = known_counts.get(k, 0) + 1
            continue
        if code == 2 and classes:
            k = "+".join(classes)
            known_counts[k] = known_counts.get(k, 0) + 1
            continue
        why = ("impl = model <> spec inside the proved fragment (contradicts the theorems: harness/model inconsistency)" if code == 2
               else "implementation differs from the Spec and from the faithful model")
        bad.append((d, impl, why))

    if stale:
        rep.note(f"{len(stale)} cases outside the proved fragment: the implementation meets the Spec where the model of the current code "
                 f"predicts a failure (a known finding appears repaired; the model is stale there) e.g. {json.dumps(stale[0])[:300]}")
    if stale_in_f:
        rep.oblige("correspondence:model", False, f"inside the fragment the model differs from impl=spec on {len(stale_in_f)} cases "
                                                  f"(contradicts the theorems: harness error), e.g. {json.dumps(stale_in_f[0])[:200]}")
    else:
        rep.oblige("correspondence:model", model_ok and len(codes) > 0, "" if model_ok else "model not built")

    # known findings: replay the witnesses
    for f in findings:
        wfile = core.VERIF / f.witness
        try:
            w = json.loads(wfile.read_text())
            got = run_impl(w["case"])
        except Exception as e:  # noqa
            rep.oblige(f"witness:{f.fid}", False, f"{f.witness}: {e}")
            continue
        if w["case"]["kind"] in ("extra", "extend", "sharedattr"):
            # no Coq Spec for these shapes: the witness must give the isolated result of a fresh query
            verdict, exp = {"extra": extra_verdict, "extend": extend_verdict, "sharedattr": sharedattr_verdict}[w["case"]["kind"]](w["case"], got)
            if f.kind == "open" and verdict.startswith("known:"):
                rep.known(f)
            elif f.kind == "open" and verdict == "ok":
                rep.note(f"finding {f.fid} no longer reproduces on its witness (appears repaired)")
            elif f.kind == "open":
                bad.append((w["case"], got, f"witness of {f.fid} now fails differently from its class prediction; isolated: {exp}"))
            elif f.kind != "open" and verdict != "ok":
                bad.append((w["case"], got, f"regression of fixed finding {f.fid}: expected {exp}"))
            continue
        if f.kind == "open":
            if got == w["impl_recorded"] and got != w["spec"]:
                rep.known(f)
            elif got == w["spec"] or got == w.get("spec_dedup"):
                rep.note(f"finding {f.fid} no longer reproduces on its witness (appears repaired)")
            else:
                bad.append((w["case"], got, f"witness of {f.fid} now fails differently from the recorded output {w['impl_recorded']}"))
        else:
            if got != w["spec"] and got != w.get("spec_dedup"):
                bad.append((w["case"], got, f"regression of fixed finding {f.fid}"))

    rep.extra["distribution"] = dist
    rep.extra["known_finding_instances"] = known_counts
    rep.extra["timing"] = {"impl_s": round(t_impl, 1)}
    rep.extra["level_by_part"] = {
        "a": "proved for the current iterator: C03_cache_any_schedule_repaired (every domain incl. repeated elements, every schedule, any number of "
             "live handles), C03_cache_any_schedule_empty; regression statements about the previous iterator: C03_old_cache_sequential, "
             "C03_refuted_interleave, C03_refuted_dup",
        "b": "proved on the fragment, rule queries with a refinement INCLUDED (selector memory forgotten at the start of an evaluation, a3cd335): "
             "C03_reeval_isolated / _idempotent / C03_history_independent (any domains), C03_exists_local_isolated; regression statement about "
             "the previous code: C03_refuted_rule_reeval; refuted design alternative: C03_refuted_shared_exists_memory",
        "c": "proved for the coroutine machine: C03_sched_isolated (every world, every list of fragment queries incl. refinement rules, every schedule "
             "of next/close steps over any number of evaluations of pairwise distinct query objects: prefix of the isolated rows, all of them when "
             "the evaluation ends by itself, never a failure), C03_compile_ideal (CPS / list-monad bridge), C03_sched_sequential_is_hist and "
             "C03_sched_exhausted_is_hist (machine = whole-evaluation model); refuted: C03_refuted_rule_object_twice (open finding C03-b2). The "
             "machine itself is a hand model tied to the implementation by the enumerated / random schedules of this check"}
    samples = []
    for kind in ("cache", "hist", "sched", "rsched", "extra", "extend", "sharedattr", "domainless"):
        ks = [i for i, d in enumerate(descrs) if d["kind"] == kind and "_file" not in d]
        for i in ks[:: max(1, len(ks) // 2)][:2]:
            samples.append({"case": descrs[i], "impl": impls[i]})
    rep.samples = samples
    # report one failing case of every kind first (cache / hist / sched / extra), then fill up to five
    seen_kinds, first, rest = set(), [], []
    for b in bad:
        (first if b[0]["kind"] not in seen_kinds else rest).append(b)
        seen_kinds.add(b[0]["kind"])
    bad = first + rest
    for d, impl, why in bad[:5]:
        model = spec = None
        if d["kind"] in MODEL_FN and model_ok:
            model, spec = evaluate_detail(d)
        rep.violation({"kind": "counterexample", "case": {k: v for k, v in d.items() if not k.startswith("_")},
                       "impl": impl, "model": model, "spec": spec, "why": why,
                       "python": f"import json; from harness import c03; print(c03.run_impl(json.loads({json.dumps(json.dumps({k: v for k, v in d.items() if not k.startswith('_')}))})))",
                       "explanation": "log entries: row = list of element ids (rule rows: [tag, ids...]); -1 StopIteration; -2 RuntimeError dictionary changed size; "
                                      "-3 create/close; <= -50 other exception"})
    if len(bad) > 5:
        rep.note(f"{len(bad) - 5} further failing cases not written")
    return rep.finish()
