"""C18 -- JSON serialisation round-trips polymorphic objects through real JSON text.

Tie: translator (Gen/JsonResolve.v: to_json dispatch, from_json guard chain, base to_json, get_full_class_name,
serialize_uuid; regenerated every run, proofs re-checked) + correspondence: generated values of the statement's grammar
are sent through the real  from_json(json.loads(json.dumps(to_json(v))))  and compared -- equality AND exact type at every
node, plus every type tag found in the JSON text -- with the model (Json/Serializer.v, run in Coq by vm_compute on the
mirror of the harness's class world) and with the Spec (the value itself; the fully qualified tags).
The one modelled step, json.loads(json.dumps(j)) == j with exact types, is checked on every case.
"""
from __future__ import annotations

import datetime
import fractions
import json
import struct
import sys
import types
import uuid
from typing import Any, Dict, List, Tuple

from . import core, c19
from .core import Report

PROP = "C18"
TAG = "__json_type__"
JERR = {"MissingTypeError": 1, "InvalidTypeFormatError": 2, "UnknownModuleError": 3, "ClassNotFoundError": 4,
        "ClassNotSerializableError": 5, "ClassNotDeserializableError": 6}
PYEXN = {"AttributeError": 101, "ValueError": 102, "TypeError": 103, "KeyError": 104, "ImportError": 105,
         "ModuleNotFoundError": 106, "NotImplementedError": 107}
EXPLAIN = ("outcome: [0, value, tags] round trip returned `value` (node encoding: [0] None [1,b] bool [2,z] int [3,bits] float "
           "[4,[codepoints]] str [5,[..]] list [6,class id,payload,[kids]] object) and the JSON text carried `tags` in pre-order | "
           "[20,k] JSONSerializationError subclass k | [30,k] foreign exception | [40] model out of fuel | "
           "[50] json.loads(json.dumps(j)) != j | [53, c, x] the classmethod entry point <class c>.from_json gave x for the same document | [51] structurally equal but Python == says different")

# ------------------------------------------------------------------ the class world
# (cid, module, qualname path, kind, how it is created)   kind: S = SubclassJSONSerializer, R = registered, P = plain
# layout of a serialiser class = parity of its id (even: own/kids, odd: children/payload); a class that inherits
# to_json/_from_json has the parity of the class it inherits them from.
CLASSES: List[Tuple[int, str, List[str], str, dict]] = [
    (10, "c18w", ["A1"], "S", {"base": None, "define": True}),
    (12, "c18w", ["A2"], "S", {"base": 10, "define": False}),
    (13, "c18w", ["A3"], "S", {"base": 12, "define": True}),
    (15, "c18w", ["A4"], "S", {"base": 13, "define": False}),
    (21, "c18w.pkg.deep", ["B1"], "S", {"base": None, "define": True}),
    (23, "c18w.pkg.deep", ["B2"], "S", {"base": 21, "define": False}),
    (24, "c18w.pkg.deep", ["B3"], "S", {"base": 23, "define": True}),
    (26, "c18w.pkg.deep", ["B4"], "S", {"base": 24, "define": False}),
    (30, "c18z", ["Émile"], "S", {"base": None, "define": True}),
    (31, "c18z", ["A1"], "S", {"base": 10, "define": True}),        # same __name__ as c18w.A1, other module, subclass of it
    (40, "uuid", ["UUID"], "R", {"real": uuid.UUID}),
    (44, "datetime", ["date"], "R", {"real": datetime.date}),       # base of datetime.datetime; registered BEFORE it
    (41, "datetime", ["datetime"], "R", {"real": datetime.datetime}),
    (42, "fractions", ["Fraction"], "R", {"real": fractions.Fraction}),
    (47, "builtins", ["complex"], "R", {"real": complex}),          # registered types that live in module builtins
    (48, "builtins", ["bytes"], "R", {"real": bytes}),
    (49, "builtins", ["range"], "R", {"real": range}),
    (53, "builtins", ["frozenset"], "R", {"real": frozenset}),
    (43, "c18w", ["RegPoint"], "R", {}),
    # registration HISTORIES (set up in world()): 70 is registered only after a first, refused to_json; 72 is registered, used,
    # then registered again with another representation.  Afterwards both are ordinary registered types of every generated value.
    # classes that ALSO derive from a builtin type (former finding C18-d, fixed by 8efc58f; inside F now)
    (80, "c18w", ["RegStatus"], "R", {"builtin": "int"}),
    (81, "c18w", ["RegCelsius"], "R", {"builtin": "float"}),
    (82, "c18w", ["RegPair"], "R", {"builtin": "tuple"}),
    (84, "c18w", ["SerTrajectory"], "S", {"base": None, "define": True, "builtin": "list"}),
    (85, "c18w", ["SerFrame"], "S", {"base": None, "define": True, "builtin": "str"}),
    # finding C18-c: classes that are not bound under their qualified name in their module
    (78, "builtins", ["mappingproxy"], "R", {"real": types.MappingProxyType, "unbound": True}),
    (87, "c18w", ["Planner"], "P", {}),
    (86, "c18w", ["Planner", "__State"], "S", {"base": None, "define": True, "nested_in": 87, "bind_as": "_Planner__State", "unbound": True}),
    (88, "c18w", ["RegFalsy"], "R", {}),   # (de)serialiser callables whose bool() is False (former finding C18-e, fixed by 6613437)
    (74, "c18w", ["SelfDescribing"], "R", {}),    # registered external type that has its OWN methods named to_json / from_json
    (76, "c18w", ["ClearedReg"], "R", {}),        # registered, used, registry singleton cleared, registered again on the new instance
    (70, "c18w", ["LateReg"], "R", {}),
    (72, "c18w", ["ReReg"], "R", {}),
    (45, "c18w", ["RegBase"], "R", {}),                             # harness pair in a subclass relationship,
    (46, "c18w", ["RegDerived"], "R", {"base": 45}),                # registered base first, each with its own (de)serialiser
    (50, "c18w", ["Outer"], "P", {}),
    (52, "c18w", ["Outer", "Inner"], "S", {"base": None, "define": True, "nested_in": 50}),          # nested in a class
    (54, "c18w", ["Outer", "Mid"], "P", {"nested_in": 50}),
    (56, "c18w", ["Outer", "Mid", "Deep"], "S", {"base": 52, "define": False, "nested_in": 54}),    # two levels deep; inherits Inner's methods
    (60, "c18z", ["Inner"], "S", {"base": None, "define": True}),
    (61, "c18z", ["Outer2"], "P", {}),
    (62, "c18z", ["Outer2", "Inner"], "S", {"base": None, "define": True, "nested_in": 61}),         # nested; c18z also binds a module-level Inner
    (64, "c18z", ["factory", "<locals>", "Local"], "S", {"base": None, "define": True, "local": True}),  # K_local: defined inside a function
]
LOCAL = {cid for cid, _, q, _, _ in CLASSES if "<locals>" in q}            # known-finding class K_local (C18-b)
NESTED = {cid for cid, _, q, k, _ in CLASSES if len(q) > 1 and k == "S" and "<locals>" not in q}   # in F since 70c605d
INPLACE = {10, 21, 24, 31, 60}      # defining classes that extend super().to_json() in place (their heirs 12, 23, 26 too)
UNBOUND = {cid for cid, _, _, _, h in CLASSES if h.get("unbound")}          # known-finding class K_unbound (C18-c)
BUILTIN_BASE = {cid for cid, _, _, _, h in CLASSES if h.get("builtin")}     # also derive from int / float / str / list / tuple (in F)
FINDING_OF = {**{c: "C18-b" for c in LOCAL}, **{c: "C18-c" for c in UNBOUND}}
SER_OK = [cid for cid, _, q, k, _ in CLASSES if k == "S" and cid not in FINDING_OF]
REG_OK = [cid for cid, _, q, k, _ in CLASSES if k == "R" and cid not in FINDING_OF]
BUILTINS = {"int": int, "float": float, "str": str, "list": list, "tuple": tuple, "set": set}
PYTYPE = {"int": "Tint", "float": "Tfloat", "str": "Tstr", "list": "Tlist", "tuple": "Ttuple", "set": "Tset"}
DEPTH_OF = {56: 2, 10: 1, 12: 2, 13: 3, 15: 4, 21: 1, 23: 2, 24: 3, 26: 4, 30: 1, 31: 2, 60: 1, 52: 1, 62: 1, 64: 1}

_WORLD: Dict[str, Any] = {}


def world() -> Dict[str, Any]:
    """Create (once per process) the synthetic modules and classes; returns {'cls': {cid: class}, 'cid': {id(class): cid}}."""
    if _WORLD:
        return _WORLD
    from krrood.adapters.json_serializer import SubclassJSONSerializer, JSONSerializableTypeRegistry, to_json, from_json
    from krrood.utils import get_full_class_name
    mods: Dict[str, types.ModuleType] = {}
    for name in ("c18w", "c18w.pkg", "c18w.pkg.deep", "c18z"):
        m = types.ModuleType(name)
        if name in ("c18w", "c18w.pkg"):
            m.__path__ = []
        sys.modules[name] = m
        mods[name] = m
    mods["c18w"].pkg = mods["c18w.pkg"]
    mods["c18w.pkg"].deep = mods["c18w.pkg.deep"]
    cls: Dict[int, type] = {}

    def init(self, own=None, kids=()):
        self.own = own
        self.kids = list(kids)

    def eq(self, other):
        return type(self) is type(other) and type(self.own) is type(other.own) and self.own == other.own and self.kids == other.kids

    # style of a defining class: "copy" builds a new dict from super().to_json(); "inplace" extends the dict that
    # super().to_json() returned (`data = super().to_json(); data.update(...)`, the style of the repository's own tests)
    def layout0(inplace=False):
        def tj(self):
            if inplace:
                data = SubclassJSONSerializer.to_json(self)
                data.update({"own": self.own, "kids": [to_json(k) for k in self.kids]})
                return data
            return {**SubclassJSONSerializer.to_json(self), "own": self.own, "kids": [to_json(k) for k in self.kids]}

        def fj(c, data, **kw):
            return c(data["own"], [from_json(k) for k in data["kids"]])
        return tj, classmethod(fj)

    def layout1(inplace=False):
        def tj(self):
            if inplace:
                data = SubclassJSONSerializer.to_json(self)
                data["children"] = [to_json(k) for k in self.kids]
                data["payload"] = self.own
                return data
            return {**SubclassJSONSerializer.to_json(self), "children": [to_json(k) for k in self.kids], "payload": self.own}

        def fj(c, data, **kw):
            return c(data["payload"], [from_json(k) for k in data["children"]])
        return tj, classmethod(fj)

    for cid, mod, qual, kind, how in CLASSES:
        if "real" in how:
            cls[cid] = how["real"]
            continue
        ns: Dict[str, Any] = {"__module__": mod, "__qualname__": ".".join(qual)}
        if kind == "S":
            bases = (cls[how["base"]],) if how.get("base") else (SubclassJSONSerializer,)
            if how.get("builtin"):
                bases = (BUILTINS[how["builtin"]],) + bases
            if how["define"]:
                inplace = cid in INPLACE
                tj, fj = layout0(inplace) if cid % 2 == 0 else layout1(inplace)
                ns.update(to_json=tj, _from_json=fj)
            if not how.get("base"):
                ns.update(__init__=init, __eq__=eq, __hash__=None,
                          __repr__=lambda self: f"{type(self).__qualname__}({self.own!r}, {self.kids!r})")
            if how.get("builtin") == "list":          # the list content of the object is its child values
                def init_list(self, own=None, kids=()):
                    list.__init__(self, kids)
                    self.own, self.kids = own, list(kids)
                ns["__init__"] = init_list
            if how.get("builtin") == "str":           # the str content of the object is its payload
                ns["__new__"] = lambda k, own="", kids=(): str.__new__(k, own if isinstance(own, str) else "")
        else:
            bases = (cls[how["base"]],) if how.get("base") else ((BUILTINS[how["builtin"]],) if how.get("builtin") else ())
        c = type(qual[-1], bases, ns)
        cls[cid] = c
        if len(qual) == 1:
            setattr(mods[mod], qual[0], c)
        elif "nested_in" in how:
            setattr(cls[how["nested_in"]], how.get("bind_as", qual[-1]), c)
    # RegPoint: a harness type with a registered (de)serialiser pair; datetime and Fraction likewise
    RP = cls[43]
    RP.__init__ = lambda self, x=0, y=0: (setattr(self, "x", x), setattr(self, "y", y)) and None
    RP.__eq__ = lambda self, o: type(o) is RP and (self.x, self.y) == (o.x, o.y)
    RP.__hash__ = None
    reg = JSONSerializableTypeRegistry()

    def register(c, enc, dec):
        JSONSerializableTypeRegistry().register(c, lambda o: {TAG: get_full_class_name(type(o)), "value": enc(o)}, lambda data, **kw: dec(data["value"]))

    # --- history 0: register on the first registry instance, use, clear the singleton, register EVERYTHING again on the new
    # instance (krrood's own uuid.UUID registration included).  Every later case runs against the new instance.
    history = {}
    from krrood.adapters.json_serializer import serialize_uuid, deserialize_uuid
    LR, RR, SD, CR = cls[70], cls[72], cls[74], cls[76]
    for K in (LR, RR, SD, CR):
        K.__init__ = lambda self, x=0, y=0: (setattr(self, "x", x), setattr(self, "y", y)) and None
        K.__eq__ = lambda self, o: type(o) is type(self) and vars(self) == vars(o)
        K.__hash__ = None
    register(CR, lambda o: [o.x, o.y], lambda v: CR(v[0], v[1]))
    try:
        r0 = from_json(json.loads(json.dumps(to_json([CR(1, 2), uuid.UUID(int=7)]))))
        history["clear:round_trip_before"] = "ok" if r0 == [CR(1, 2), uuid.UUID(int=7)] else "wrong value"
    except Exception as e:  # noqa
        history["clear:round_trip_before"] = type(e).__name__
    first_registry = reg
    JSONSerializableTypeRegistry.clear_instance()
    reg = JSONSerializableTypeRegistry()
    history["clear:new_instance"] = reg is not first_registry
    try:
        to_json(CR(1, 2))
        history["clear:use_after_clear"] = "returned"
    except Exception as e:  # noqa
        history["clear:use_after_clear"] = type(e).__name__
    reg.register(uuid.UUID, serialize_uuid, deserialize_uuid)
    register(RP, lambda o: [o.x, o.y], lambda v: RP(v[0], v[1]))
    register(CR, lambda o: [o.x, o.y], lambda v: CR(v[0], v[1]))
    RB, RD = cls[45], cls[46]
    RB.__init__ = lambda self, x=0: setattr(self, "x", x)
    RB.__eq__ = lambda self, o: type(o) is type(self) and vars(self) == vars(o)
    RB.__hash__ = None
    RD.__init__ = lambda self, x=0, y=0: (setattr(self, "x", x), setattr(self, "y", y)) and None
    register(RB, lambda o: [o.x], lambda v: RB(v[0]))                      # base first ...
    register(RD, lambda o: [o.x, o.y], lambda v: RD(v[0], v[1]))           # ... then the derived type
    # a registered external type with its own methods called to_json / from_json (unrelated plain-data export, no type tag)
    SD.to_json = lambda self: {"x": self.x, "y": self.y}
    SD.from_json = classmethod(lambda k, data: k(data["x"], data["y"]))
    register(SD, lambda o: [o.x, o.y], lambda v: SD(v[0], v[1]))
    # --- history 1: use before registration (refused), then register, then use
    try:
        to_json([LR(1, 2)])
        history["late:first_attempt"] = "returned"
    except Exception as e:  # noqa
        history["late:first_attempt"] = type(e).__name__
    register(LR, lambda o: [o.x, o.y], lambda v: LR(v[0], v[1]))
    # --- history 2: register, use, register again with another representation
    JSONSerializableTypeRegistry().register(RR, lambda o: {TAG: get_full_class_name(type(o)), "old": [o.y, o.x]}, lambda data, **kw: RR(data["old"][1], data["old"][0]))
    try:
        r0 = from_json(json.loads(json.dumps(to_json([RR(3, 4)]))))
        history["rereg:first_round_trip"] = "ok" if r0 == [RR(3, 4)] else "wrong value"
    except Exception as e:  # noqa
        history["rereg:first_round_trip"] = type(e).__name__
    register(RR, lambda o: [o.x, o.y], lambda v: RR(v[0], v[1]))
    # RegFalsy: registered with callable objects that are falsy (a callable list subclass holding no post-processing steps)
    RF = cls[88]
    RF.__init__ = lambda self, x=0, y=0: (setattr(self, "x", x), setattr(self, "y", y)) and None
    RF.__eq__ = lambda self, o: type(o) is RF and vars(self) == vars(o)
    RF.__hash__ = None

    class Steps(list):
        def __init__(self, fn):
            super().__init__()
            self.fn = fn

        def __call__(self, *a, **kw):
            return self.fn(*a, **kw)
    JSONSerializableTypeRegistry().register(
        RF, Steps(lambda o: {TAG: get_full_class_name(type(o)), "value": [o.x, o.y]}), Steps(lambda data, **kw: RF(data["value"][0], data["value"][1])))
    register(cls[80], lambda o: int(o), lambda v: cls[80](v))
    register(cls[81], lambda o: float(o), lambda v: cls[81](v))
    register(cls[82], lambda o: list(o), lambda v: cls[82](v))
    register(types.MappingProxyType, lambda o: sorted([k, v] for k, v in o.items()), lambda v: types.MappingProxyType({k: x for k, x in v}))
    register(complex, lambda o: [int(o.real), int(o.imag)], lambda v: complex(v[0], v[1]))
    register(bytes, lambda o: list(o), lambda v: bytes(v))
    register(range, lambda o: [o.start, o.stop, o.step], lambda v: range(v[0], v[1], v[2]))
    register(frozenset, lambda o: sorted(o), lambda v: frozenset(v))
    register(datetime.date, lambda o: [o.year, o.month, o.day], lambda v: datetime.date(v[0], v[1], v[2]))   # base first
    register(datetime.datetime, lambda o: o.isoformat(), datetime.datetime.fromisoformat)
    register(fractions.Fraction, lambda o: [o.numerator, o.denominator], lambda v: fractions.Fraction(v[0], v[1]))
    _WORLD.update(cls=cls, cid={id(c): k for k, c in cls.items()}, history=history)
    return _WORLD


# ------------------------------------------------------------------ Gallina printers
def strlit(s: str) -> str:
    return "[" + "; ".join(str(ord(c)) for c in s) + "]"


def float_bits(x: float) -> int:
    return struct.unpack(">Q", struct.pack(">d", x))[0]


def bits_float(b: int) -> float:
    return struct.unpack(">d", struct.pack(">Q", b))[0]


def jv_term(v) -> str:
    if v is None:
        return "JNull"
    if isinstance(v, bool):
        return f"(JBool {'true' if v else 'false'})"
    if isinstance(v, int):
        return f"(JInt {core.zlit(v)})"
    if isinstance(v, float):
        return f"(JFloat {float_bits(v)})"
    if isinstance(v, str):
        return f"(JStr {strlit(v)})"
    if isinstance(v, list):
        return "(JArr [" + "; ".join(jv_term(x) for x in v) + "])"
    raise TypeError(v)


def world_header() -> str:
    kinds = {"S": "KSer", "R": "KReg", "P": "KPlain"}
    lines = []
    for cid, mod, qual, kind, how in CLASSES:
        base = f"Some {PYTYPE[how['builtin']]}" if how.get("builtin") else "None"
        lines.append(f"Definition C{cid} : cls := {{| c_mod := {strlit(mod)}; c_qual := [{'; '.join(strlit(q) for q in qual)}]; "
                     f"c_kind := {kinds[kind]}; c_id := {cid}; c_base := {base} |}}.")
    # the world = the classes that are BOUND under their qualified name (K_unbound classes are defined but not in it)
    lines.append("Definition W : world := [" + "; ".join(f"C{cid}" for cid, _, _, _, how in CLASSES if not how.get("unbound")) + "].")
    return "\n".join(lines)


HEADER_BASE = """From Coq Require Import List ZArith Bool.
From Krrood Require Import Base.Sx Json.JsonVal Json.SerializerSpec Gen.JsonResolve Json.Serializer.
Import ListNotations. Open Scope Z_scope.
Fixpoint deep_list (n : nat) : value jv := match n with O => VList [] | S k => VList [deep_list k] end.
"""
HEADER_SPEC_BASE = """From Coq Require Import List ZArith Bool.
From Krrood Require Import Base.Sx Json.JsonVal Json.SerializerSpec.
Import ListNotations. Open Scope Z_scope.
Definition world := list cls.
Fixpoint deep_list (n : nat) : value jv := match n with O => VList [] | S k => VList [deep_list k] end.
"""


def vterm(d) -> str:
    k = d[0]
    if k == "deep":
        return f"(deep_list {d[1]})"
    if k == "n":
        return "VNone"
    if k == "b":
        return f"(VBool {'true' if d[1] else 'false'})"
    if k == "i":
        return f"(VInt {core.zlit(d[1])})"
    if k == "f":
        return f"(VFloat {d[1]})"
    if k == "s":
        return f"(VStr {strlit(d[1])})"
    if k == "l":
        return "(VList [" + "; ".join(vterm(x) for x in d[1]) + "])"
    if k == "o":
        return f"(VObj C{d[1]} {jv_term(d[2])} [" + "; ".join(vterm(x) for x in d[3]) + "])"
    raise ValueError(d)


# ------------------------------------------------------------------ Python values <-> descriptions
def build(d):
    w = world()
    k = d[0]
    if k == "deep":                      # a list nested d[1] levels deep, built without recursion
        v: list = []
        for _ in range(d[1]):
            v = [v]
        return v
    if k == "n":
        return None
    if k in ("b", "i", "s"):
        return d[1]
    if k == "f":
        return bits_float(d[1])
    if k == "l":
        return [build(x) for x in d[1]]
    cid, own, kids = d[1], d[2], d[3]
    c = w["cls"][cid]
    if cid == 40:
        return uuid.UUID(own)
    if cid == 41:
        return datetime.datetime.fromisoformat(own)
    if cid == 42:
        return fractions.Fraction(own[0], own[1])
    if cid == 43:
        return c(own[0], own[1])
    if cid in (80, 81, 82):
        return c(own)
    if cid == 78:
        return types.MappingProxyType({k: x for k, x in own})
    if cid == 47:
        return complex(own[0], own[1])
    if cid == 48:
        return bytes(own)
    if cid == 49:
        return range(own[0], own[1], own[2])
    if cid == 53:
        return frozenset(own)
    if cid == 44:
        return datetime.date(own[0], own[1], own[2])
    if cid in (70, 72, 74, 76, 88):
        return c(own[0], own[1])
    if cid == 45:
        return c(own[0])
    if cid == 46:
        return c(own[0], own[1])
    return c(own, [build(x) for x in kids])


def enc_jv(v):
    """payload (JSON native) -> sx encoding, exact types"""
    if v is None:
        return [0]
    if type(v) is bool:
        return [1, int(v)]
    if type(v) is int:
        return [2, v]
    if type(v) is float:
        return [3, float_bits(v)]
    if type(v) is str:
        return [4, [ord(c) for c in v]]
    if type(v) is list:
        return [5, [enc_jv(x) for x in v]]
    return [8, sum(ord(c) for c in type(v).__name__)]


def enc(r):
    """a Python value -> the sx encoding of value_sx, by EXACT type at every node"""
    w = world()
    if r is None:
        return [0]
    t = type(r)
    if t is bool:
        return [1, int(r)]
    if t is int:
        return [2, r]
    if t is float:
        return [3, float_bits(r)]
    if t is str:
        return [4, [ord(c) for c in r]]
    if t is list:
        return [5, [enc(x) for x in r]]
    cid = w["cid"].get(id(t))
    if cid is None:
        return [9, sum(ord(c) for c in t.__name__)]
    if cid == 40:
        return [6, cid, enc_jv(str(r)), []]
    if cid == 41:
        return [6, cid, enc_jv(r.isoformat()), []]
    if cid == 42:
        return [6, cid, enc_jv([r.numerator, r.denominator]), []]
    if cid == 43:
        return [6, cid, enc_jv([r.x, r.y]), []]
    if cid == 80:
        return [6, cid, enc_jv(int(r)), []]
    if cid == 81:
        return [6, cid, enc_jv(float(r)), []]
    if cid == 82:
        return [6, cid, enc_jv(list(r)), []]
    if cid == 78:
        return [6, cid, enc_jv(sorted([k, v] for k, v in r.items())), []]
    if cid == 47:
        return [6, cid, enc_jv([int(r.real), int(r.imag)] if r.real == int(r.real) and r.imag == int(r.imag) else [r.real, r.imag]), []]
    if cid == 48:
        return [6, cid, enc_jv(list(r)), []]
    if cid == 49:
        return [6, cid, enc_jv([r.start, r.stop, r.step]), []]
    if cid == 53:
        return [6, cid, enc_jv(sorted(r)), []]
    if cid == 44:
        return [6, cid, enc_jv([r.year, r.month, r.day]), []]
    if cid in (70, 72, 74, 76, 88):
        return [6, cid, enc_jv([r.x, r.y]), []]
    if cid == 45:
        return [6, cid, enc_jv([r.x]), []]
    if cid == 46:
        return [6, cid, enc_jv([r.x, r.y]), []]
    return [6, cid, enc_jv(r.own), [enc(x) for x in r.kids]]


def typed_equal(a, b) -> bool:
    if type(a) is not type(b):
        return False
    if isinstance(a, list):
        return len(a) == len(b) and all(typed_equal(x, y) for x, y in zip(a, b))
    if isinstance(a, dict):
        return list(a.keys()) == list(b.keys()) and all(typed_equal(a[k], b[k]) for k in a)
    if isinstance(a, float):
        return float_bits(a) == float_bits(b)
    return a == b


def plain_json(x):
    """what json.dumps sees: an instance of a subclass of int / float / str / list / tuple is written as that builtin value
    (to_json hands such objects through untouched: finding C18-d); plain JSON data is returned unchanged"""
    if x is None or isinstance(x, bool):
        return x
    if isinstance(x, int):
        return int(x)
    if isinstance(x, float):
        return float(x)
    if isinstance(x, str):
        return str(x)
    if isinstance(x, (list, tuple)):
        return [plain_json(y) for y in x]
    if isinstance(x, dict):
        return {k: plain_json(v) for k, v in x.items()}
    return x


def tags_of(j) -> List[List[int]]:
    out = []
    if isinstance(j, list):
        for x in j:
            out += tags_of(x)
    elif isinstance(j, dict):
        if isinstance(j.get(TAG), str):
            out.append([ord(c) for c in j[TAG]])
        for x in j.values():
            out += tags_of(x)
    return out


def run_impl(d) -> Any:
    from krrood.adapters.json_serializer import to_json, from_json, JSONSerializationError
    try:
        v = build(d)
        j = to_json(v)
        text = json.dumps(j)
        j2 = json.loads(text)
        if d[0] != "deep" and not typed_equal(plain_json(j), j2):
            return [50]
        r = from_json(j2)
    except BaseException as e:  # noqa
        name = type(e).__name__
        if isinstance(e, JSONSerializationError):
            return [20, JERR.get(name, 7)]
        return [30, PYEXN.get(name, 199)]
    if d[0] == "deep":
        limit = sys.getrecursionlimit()
        sys.setrecursionlimit(20000)     # only for the harness's own recursive encoders; the implementation ran under the default
        try:
            return [0, enc(r), []]
        finally:
            sys.setrecursionlimit(limit)
    e_r, e_v = enc(r), enc(v)
    if e_r == e_v and not (r == v):
        return [51]
    # the same document through the classmethod entry point <Class>.from_json of other serialiser classes: the class is named by
    # the tag, never by the receiver.  Receivers: every serialiser class whose __name__ equals the last name of a tag in the text
    # (e.g. c18z.Outer2.Inner for a document of c18z.Inner), and the base class.
    last_names = {"".join(chr(c) for c in t).rsplit(".", 1)[-1] for t in tags_of(j)}
    if last_names:
        from krrood.adapters.json_serializer import SubclassJSONSerializer
        w = world()
        receivers = [(0, SubclassJSONSerializer)] + [(cid, c) for cid, c in sorted(w["cls"].items())
                                                     if isinstance(c, type) and issubclass(c, SubclassJSONSerializer) and c.__name__ in last_names]
        for cid, c in receivers:
            try:
                ra = enc(c.from_json(json.loads(text)))
            except BaseException as e:  # noqa
                ra = [30, PYEXN.get(type(e).__name__, 199)] if not isinstance(e, JSONSerializationError) else [20, JERR.get(type(e).__name__, 7)]
            if ra != e_r:
                return [53, cid, ra]
    return [0, e_r, tags_of(j)]


def impl_sx(o) -> str:
    """outcome -> Gallina sx literal; strings inside are SL of SZ (matches str_sx), tags likewise"""
    return core.sx(o)


def snippet(d) -> str:
    return ("import json; from krrood.adapters.json_serializer import to_json, from_json; from harness import c18; "
            f"v = c18.build({d!r}); r = from_json(json.loads(json.dumps(to_json(v)))); print(r == v, type(r), r)")


# ------------------------------------------------------------------ generators
INTS = [0, 1, -1, 2, 7, 255, 256, -256, 2 ** 31, 2 ** 53, 2 ** 53 + 1, 2 ** 63, 2 ** 64, -2 ** 63, 2 ** 70, -2 ** 70, 10 ** 30]
FLOATS = [0.0, -0.0, 1.0, -1.0, 1.5, 0.1, 1e308, -1e308, 5e-324, 2.2250738585072014e-308, 1e16, 123456789.125,
          float("inf"), float("-inf"), 3.141592653589793, 1e-7, 1e22, 9007199254740993.0]
STRS = ["", "a", "abc", " ", "é", "日本語", "😀", "\ud800", "\udfff\ud800", "\x00", "\x1f", "\"\\/\b\f\n\r\t", "  ", "\x7f\x80",
        TAG, "c18w.A1", ".", "null", "true", "0", "[1]", "{}", "a" * 200, "\U0010ffff", "é"]
OWNS = [None, True, False, 0, 1, -5, 2 ** 70, "", "p", "é😀", [], [1, 2, 3], [0], ["x", None, True]]
UUIDS = ["00000000-0000-0000-0000-000000000000", "12345678-1234-5678-1234-567812345678", "ffffffff-ffff-ffff-ffff-ffffffffffff"]
DATES = ["2020-01-01T00:00:00", "1999-12-31T23:59:59.999999", "0001-01-01T00:00:00", "9999-12-31T23:59:59", "2024-02-29T12:30:00+02:00"]
DAYS = [[2024, 2, 29], [1, 1, 1], [9999, 12, 31], [1970, 1, 1]]
FRACS = [[0, 1], [1, 3], [-7, 2], [2 ** 70, 3], [1, 2 ** 64 + 1]]


def gen_leaf(rng) -> list:
    k = rng.randint(0, 5)
    if k == 0:
        return ["n"]
    if k == 1:
        return ["b", rng.chance(0.5)]
    if k == 2:
        if rng.chance(0.5):
            return ["i", rng.choice(INTS)]
        return ["i", rng.randint(-(1 << 62), 1 << 62) if rng.chance(0.5) else rng.randint(-20, 20)]
    if k == 3:
        if rng.chance(0.6):
            return ["f", float_bits(rng.choice(FLOATS))]
        return ["f", float_bits(rng.randint(-(1 << 40), 1 << 40) / float(1 << rng.randint(0, 30)))]   # dyadic
    if k == 4:
        if rng.chance(0.7):
            return ["s", rng.choice(STRS)]
        return ["s", "".join(chr(rng.choice([rng.randint(32, 126), rng.randint(0xa0, 0x2ff), rng.randint(0x4e00, 0x4e80),
                                             rng.randint(0x1f600, 0x1f640)])) for _ in range(rng.randint(1, 8)))]
    return gen_reg(rng)


def gen_reg(rng) -> list:
    cid = rng.choice(REG_OK)
    if cid == 40:
        if rng.chance(0.5):
            return ["o", 40, rng.choice(UUIDS), []]
        return ["o", 40, str(uuid.UUID(int=rng.next() << 64 | rng.next())), []]
    if cid == 41:
        return ["o", 41, rng.choice(DATES), []]
    if cid == 42:
        return ["o", 42, rng.choice(FRACS), []]
    if cid == 47:
        return ["o", 47, [rng.randint(-9, 9), rng.randint(-9, 9)], []]
    if cid == 48:
        return ["o", 48, [rng.randint(0, 255) for _ in range(rng.randint(0, 4))], []]
    if cid == 49:
        return ["o", 49, [rng.randint(-5, 5), rng.randint(-5, 20), rng.choice([1, 2, -1, 3])], []]
    if cid == 53:
        return ["o", 53, sorted({rng.randint(-9, 9) for _ in range(rng.randint(0, 4))}), []]
    if cid == 44:
        return ["o", 44, rng.choice(DAYS), []]
    if cid in (70, 72, 74, 76, 88):
        return ["o", cid, [rng.randint(-9, 9), rng.randint(-9, 9)], []]
    if cid == 45:
        return ["o", 45, [rng.randint(-9, 9)], []]
    if cid == 46:
        return ["o", 46, [rng.randint(-9, 9), rng.randint(-9, 9)], []]
    return ["o", 43, [rng.randint(-9, 9), rng.choice(INTS)], []]


def gen_value(rng, list_depth: int, obj_depth: int, nested_p: float) -> list:
    """list nesting <= list_depth (counted along list-in-list paths), object nesting <= obj_depth"""
    r = rng.random()
    if r < 0.30 and list_depth > 0:
        n = rng.choice([0, 0, 1, 1, 2, 2, 3, 4])
        return ["l", [gen_value(rng, list_depth - 1, obj_depth, nested_p) for _ in range(n)]]
    if r < 0.62 and obj_depth > 0:
        if rng.chance(nested_p):
            return gen_finding(rng, list_depth, obj_depth)
        else:
            cid = rng.choice(SER_OK)
        n = rng.choice([0, 0, 1, 1, 2, 3])
        return ["o", cid, rng.choice(OWNS), [gen_value(rng, list_depth, obj_depth - 1, nested_p) for _ in range(n)]]
    return gen_leaf(rng)


def gen_finding(rng, list_depth: int, obj_depth: int) -> list:
    """an object of one of the known-finding classes (K_local, K_unbound)"""
    cid = rng.choice(sorted(FINDING_OF))
    if cid == 78:
        return ["o", 78, [[k, rng.randint(0, 9)] for k in sorted(rng.sample(["a", "b", "c"], rng.randint(0, 3)))], []]
    own = rng.choice(OWNS)
    n = rng.choice([0, 1, 2])
    return ["o", cid, own, [gen_value(rng, list_depth, max(obj_depth - 1, 0), 0.0) for _ in range(n)]]


def gen_same_class(rng, nested_p: float) -> list:
    """a value that holds several DIFFERENT instances of ONE class (siblings in a list / kids of one object / parent and
    child), with different payloads -- aliasing between the serialised forms of instances of a class shows up only here"""
    cid = rng.choice(SER_OK)
    k = rng.randint(2, 4)
    owns = rng.sample(OWNS, k)
    insts = [["o", cid, owns[i], [gen_value(rng, 1, 1, nested_p) for _ in range(rng.choice([0, 0, 1, 2]))]] for i in range(k)]
    shape = rng.randint(0, 3)
    if shape == 0:
        return ["l", insts]
    if shape == 1:
        return ["o", rng.choice(SER_OK), rng.choice(OWNS), insts]
    if shape == 2:                                   # a chain: each instance is a kid of the previous one
        v = insts[0]
        for x in insts[1:]:
            v = ["o", cid, x[2], [v] + x[3]]
        return v
    return ["l", [["l", insts[:1]], insts[1], ["o", rng.choice(SER_OK), 0, insts[2:]]]]


def has_class(e, cid) -> bool:
    """does the sx encoding of a returned value contain an object of class cid"""
    if isinstance(e, list) and len(e) == 4 and e[0] == 6:
        return e[1] == cid or any(has_class(k, cid) for k in e[3])
    if isinstance(e, list) and len(e) == 2 and e[0] == 5:
        return any(has_class(k, cid) for k in e[1])
    return False


def walk(d):
    yield d
    if d[0] == "deep":
        return
    if d[0] == "l":
        for x in d[1]:
            yield from walk(x)
    elif d[0] == "o":
        for x in d[3]:
            yield from walk(x)


def list_depth(d) -> int:
    if d[0] == "deep":
        return d[1] + 1
    if d[0] == "l":
        return 1 + max([list_depth(x) for x in d[1]] or [0])
    if d[0] == "o":
        return max([list_depth(x) for x in d[3]] or [0])
    return 0


def findings_in(d) -> List[str]:
    """ids of the known-finding classes this value belongs to (decidable class predicates, mirrored by F in Coq)"""
    if d[0] == "deep":
        return ["C18-f"] if d[1] >= 450 else []
    return sorted({FINDING_OF[x[1]] for x in walk(d) if x[0] == "o" and x[1] in FINDING_OF})


def has_local(d) -> bool:
    return bool(findings_in(d))


def fixed_cases() -> List[list]:
    out: List[list] = []
    out += [["n"], ["b", True], ["b", False], ["l", []], ["l", [["l", []]]], ["l", [["l", [["l", [["l", []]]]]]]]]
    out += [["i", z] for z in INTS] + [["f", float_bits(x)] for x in FLOATS] + [["s", s] for s in STRS]
    out += [["o", 40, u, []] for u in UUIDS] + [["o", 41, t, []] for t in DATES] + [["o", 42, q, []] for q in FRACS]
    out += [["o", 43, [1, 2], []]]
    for cid in SER_OK:                      # every class of every chain depth, empty and with kids, every payload kind
        out.append(["o", cid, None, []])
        out.append(["o", cid, 7, [["i", 1], ["l", []], ["o", cid, "k", []]]])
    for own in OWNS:
        out.append(["o", 13, own, []])
    for cid in SER_OK:                      # two and three different instances of one class, as siblings and as parent/child
        out.append(["l", [["o", cid, "small", []], ["o", cid, "big", []]]])
        out.append(["o", cid, 1, [["o", cid, 2, []], ["o", cid, 3, [["i", 4]]]]])
    out += [["o", 47, [1, -2], []], ["o", 47, [0, 0], []], ["o", 48, [], []], ["o", 48, [0, 255, 10], []], ["o", 49, [0, 5, 1], []],
            ["o", 49, [3, -7, -2], []], ["o", 53, [], []], ["o", 53, [-1, 2, 7], []],
            ["l", [["o", 47, [3, 4], []], ["l", [["o", 48, [1], []]]], ["o", 13, "k", [["o", 49, [1, 9, 2], []], ["o", 53, [5], []]]]]]]
    out += [["deep", 40], ["deep", 120], ["o", 88, [1, 2], []], ["l", [["o", 88, [0, 0], []], ["o", 10, 0, [["o", 88, [3, 4], []]]]]]]
    out += [["o", 74, [1, 2], []], ["o", 76, [3, 4], []], ["l", [["o", 74, [0, 1], []], ["o", 10, 0, [["o", 74, [2, 3], []], ["o", 76, [4, 5], []]]]]],
            ["o", 70, [1, 2], []], ["o", 72, [3, 4], []], ["l", [["o", 70, [5, 6], []], ["o", 13, 0, [["o", 72, [7, 8], []], ["o", 70, [0, 0], []]]]]]]
    out += [["o", 44, d, []] for d in DAYS] + [["o", 45, [3], []], ["o", 46, [3, 4], []]]
    out.append(["l", [["o", 44, DAYS[0], []], ["o", 41, DATES[1], []], ["o", 45, [1], []], ["o", 46, [1, 2], []], ["o", 10, 0, [["o", 41, DATES[0], []], ["o", 46, [5, 6], []]]]]])
    # a chain through every class, lists in between
    v: list = ["n"]
    for cid in SER_OK:
        v = ["o", cid, cid, [["l", [v, ["o", 40, UUIDS[1], []]]]]]
    out.append(v)
    out.append(["l", [["o", 10, 1, []], ["o", 31, 1, []], ["o", 12, 1, []], ["o", 60, 1, []]]])   # same names, different modules
    out += [["o", 80, 404, []], ["o", 81, 21.5, []], ["o", 82, [1, 2], []], ["o", 84, 0, [["i", 1], ["i", 2]]], ["o", 84, "t", []],
            ["o", 85, "map", []], ["o", 85, "é", [["i", 1]]], ["o", 78, [["a", 1], ["b", 2]], []], ["o", 86, 0, []],
            ["l", [["o", 10, 0, [["o", 80, 7, []], ["o", 84, 1, [["o", 10, 2, []]]]]], ["o", 86, 1, [["n"]]]]]]
    for cid in sorted(NESTED | LOCAL):      # nested classes (regression of C18-a) and the known-finding class K_local
        out.append(["o", cid, 3, []])
        out.append(["l", [["o", 10, 0, [["o", cid, 1, []]]]]])
    return out


def enumerate_small(budget: int) -> List[list]:
    """all values with at most `budget` nodes over a small alphabet (thorough tier)"""
    leaves = [["n"], ["b", True], ["i", 0], ["f", float_bits(-0.0)], ["s", ""], ["s", "é"], ["o", 40, UUIDS[0], []]]
    memo: Dict[int, List[list]] = {}

    def seqs(total: int) -> List[List[list]]:
        if total == 0:
            return [[]]
        out = []
        for first in range(1, total + 1):
            for h in vals(first):
                for t in seqs(total - first):
                    out.append([h] + t)
        return out

    def vals(n: int) -> List[list]:
        if n in memo:
            return memo[n]
        out: List[list] = []
        if n == 1:
            out += leaves
        for kids in seqs(n - 1):
            out.append(["l", kids])
            for cid in (10, 13, 26):
                out.append(["o", cid, 0, kids])
        memo[n] = out
        return out

    res: List[list] = []
    for n in range(1, budget + 1):
        res += vals(n)
    return res


def gen_cases(tier: str, seed: int) -> List[list]:
    rng = core.Rng(seed).fork(18)
    out = fixed_cases()
    n = 2600 if tier == "quick" else 40000
    for i in range(n):
        ld = rng.choice([1, 2, 3, 4, 4])
        od = rng.choice([1, 2, 3, 4])
        if i % 5 == 4:
            out.append(gen_same_class(rng, 0.02))
            continue
        v = gen_value(rng, ld, od, 0.04)
        if v[0] not in ("l", "o") and rng.chance(0.85):      # mostly containers at the top
            kids = [v] + [gen_value(rng, ld - 1, od, 0.04) for _ in range(rng.randint(0, 3))]
            v = ["l", kids] if rng.chance(0.5) else ["o", rng.choice(SER_OK), rng.choice(OWNS), kids]
        out.append(v)
    if tier == "thorough":
        out += enumerate_small(4)
    return out


def load_corpus() -> List[Tuple[str, list]]:
    out = []
    d = core.VERIF / "corpus" / PROP
    if d.is_dir():
        for f in sorted(d.glob("*.json")):
            blob = json.loads(f.read_text())
            for c in blob.get("cases", []):
                out.append((f"corpus/{PROP}/{f.name}", c))
    return out


def run(tier: str, seed: int, replay=None) -> int:
    from translator import t_json
    rep = Report(PROP, tier, seed, "proof")
    rep.trusted = core.COQ_TRUSTED + [
        "source pins, set `json` (pins/json.json): SubclassJSONSerializer._resolve_enclosing_class (hand model [enclosing] in Json/Resolve.v, proved equal to the Spec's owner resolution), registry register/get_serializer/get_deserializer, module-level from_json, the six error constructors, SingletonMeta.__call__, ormatic.utils.create_engine -- hand-modelled, not regenerated; a change reopens the correspondence obligation",
        "translator/t_json.py (fail-closed ast translator; idiom table in Json/JsonVal.v)",
        "hand-written recursion / class-world model in Json/Serializer.v, tied by differential execution through to_json / json.dumps / json.loads / from_json",
        "MODELLED, compared on every case: json.loads(json.dumps(j)) == j with exact types (CPython json; NaN excluded)",
        "harness/c18.py: synthetic modules and classes (two dict layouts, chains of depth 1-4), exact-type encoder, Coq mirror of the class world",
        "CPython: str(UUID)/UUID(str), datetime.isoformat/fromisoformat, Fraction(n, d) round-trip the payloads used",
    ]
    rep.assume = ["user code hypothesis (premise of C18_round_trip, proved for the harness classes): a class's _from_json reads back exactly the "
                  "payload and child JSON its to_json wrote next to super().to_json(); registered (de)serialisers round-trip and write the tag",
                  "F: classes are not function-local and are named by their own tag; C18_fragment_is_named_classes derives that from: importable "
                  "module, dot-free names, enclosing classes defined, unique qualified names, and the PREMISE that no module is named like a class "
                  "path (a module 'm.Outer' next to class Outer of module m would be imported in place of the class)",
                  "tuples, sets, dicts and NaN are outside the statement's value grammar and are not generated"]
    rep.rule = ("fixed edge list (every leaf kind incl. 2**70, +-inf, -0.0, lone surrogates, NUL, empty and 4-deep lists, every class of 3 subclass chains "
                "of depth 1-4 in both styles of extending super().to_json() (copy / in-place), 15 registered third-party types (4 living in module builtins; one with its own to_json/from_json methods; histories run once per process in world(): registry singleton cleared and everything registered again on the new instance, a type registered only after a first refused to_json, a type registered twice with different representations) incl. two base/derived "
                "pairs registered base-first, 2-4 different instances of one class as siblings / kids / parent-child in every 5th random value) + seeded grammar-directed random values (list depth <= 4, object depth <= 4, ~4% with a "
                "a member of a known-finding class (K_local: function-local; K_unbound: not bound under its qualified name -- builtins.mappingproxy, name-mangled Planner.__State); registered types and serialiser classes that also derive from int / float / str / list / tuple are ordinary members of the class pool; classes nested in classes are ordinary members of the class pool); thorough adds all values of <= 4 nodes over a 7-leaf alphabet; "
                "non-trivial = contains at least one list or object; distinct = distinct value")
    ok_spec, log = core.coq_make(["Base/Sx.vo", "Json/JsonVal.vo", "Json/SerializerSpec.vo"])
    rep.oblige("build:spec", ok_spec, "" if ok_spec else core.first_error(log))
    model_ok = core.standard_proof_steps(
        rep, PROP, ["Props/C18.vo"],
        regen=[c19.regen_entry()])
    import warnings
    from translator import pins
    with warnings.catch_warnings():          # ast.parse of ormatic/utils.py warns about an escape in one of its docstrings
        warnings.simplefilter("ignore", SyntaxWarning)
        pins.oblige(rep, str(core.REPO), "json", "Json/Serializer.v (registry = exact-class lookup on one singleton; error constructors never fail; round trip = from_json . json.loads . json.dumps . to_json as in ormatic create_engine)")
    if model_ok and tier == "thorough" and not replay:
        c19.coqchk(rep, PROP)
    world()
    findings = core.load_findings(PROP)
    corpus = load_corpus()
    if replay:
        items = [("replay", replay["case"])]
    else:
        items = corpus + [("gen", d) for d in gen_cases(tier, seed)]
    impls = [run_impl(d) for _, d in items]
    pairs = [(vterm(d), core.sx(im)) for (_, d), im in zip(items, impls)]
    header = HEADER_BASE + world_header()
    header_spec = HEADER_SPEC_BASE + world_header()
    if model_ok:
        codes = core.coq_codes(PROP, header, "value jv", "rt_code W", pairs, chunk=250)
    elif ok_spec:
        rep.note("model not available; comparing the implementation with the Spec only (search for a failing input)")
        codes = core.coq_codes(PROP, header_spec, "value jv", "rt_code_spec", pairs, chunk=250)
    else:
        codes = [0] * len(pairs)
        rep.note("neither model nor Spec could be built; no comparison possible")

    dist = {"nodes": {}, "list_depth": {}, "chain_depth": {}, "leaf_kinds": {}, "classes": {}, "in_F": 0, "K_local": 0, "nested_class_objects": 0, "outcomes": {}}
    kf_instances: Dict[str, int] = {}
    failing_by_src: Dict[str, List[Any]] = {}
    bad = []
    for (src, d), im, code in zip(items, impls, codes):
        nodes = list(walk(d))
        rep.count(json.dumps(d), any(x[0] in ("l", "o") for x in nodes))
        b = min(len(nodes), 20)
        dist["nodes"][b] = dist["nodes"].get(b, 0) + 1
        ld = list_depth(d)
        dist["list_depth"][ld] = dist["list_depth"].get(ld, 0) + 1
        for x in nodes:
            if x[0] == "o":
                dist["classes"][x[1]] = dist["classes"].get(x[1], 0) + 1
                cd = DEPTH_OF.get(x[1], 0)
                dist["chain_depth"][cd] = dist["chain_depth"].get(cd, 0) + 1
            else:
                dist["leaf_kinds"][x[0]] = dist["leaf_kinds"].get(x[0], 0) + 1
        kfs = findings_in(d)            # membership in the known-finding classes (K_local, K_unbound, K_builtin_base)
        nested = bool(kfs)
        for k in kfs:
            dist["K:" + k] = dist.get("K:" + k, 0) + 1
        dist["K_local" if nested else "in_F"] += 1
        dist["nested_class_objects"] += sum(1 for x in nodes if x[0] == "o" and x[1] in NESTED)
        ok = f"{im[0]}" + (f":{im[1]}" if im[0] in (20, 30) else "")
        dist["outcomes"][ok] = dist["outcomes"].get(ok, 0) + 1
        if code == 0:
            continue
        failing_by_src.setdefault(src, []).append(d)
        if code == 1:
            if nested:
                rep.note(f"model stale on {kfs}: finding appears repaired on {json.dumps(d)[:200]}")
            else:
                rep.oblige("correspondence:model", False, f"model differs from impl=spec on {json.dumps(d)[:300]}")
            continue
        # known findings: narrow match = the class predicate AND the outcome the faithful model predicts (code 2); when the model
        # cannot be built, the defect behaviour recorded with the witness: C18-b ClassNotSerializableError at to_json,
        # C18-c ClassNotFoundError at from_json
        # C18-f (list nested deeper than ~490; outside the model's assumptions): recorded outcome RecursionError from from_json
        recorded = {"C18-b": im == [20, 5], "C18-c": im == [20, 4], "C18-f": im == [30, 199]}
        hit = [k for k in kfs if recorded[k] and (not model_ok or k == "C18-f")]
        if nested and (code == 2 or hit):
            k0 = hit[0] if hit else kfs[0]
            kf_instances[k0] = kf_instances.get(k0, 0) + 1
            continue
        bad.append((d, im, code))
    rep.extra["distribution"] = dist
    rep.extra["registration_histories"] = world().get("history", {})
    if world().get("history", {}).get("late:first_attempt") != "ClassNotSerializableError":
        rep.note(f"history: to_json of a not-yet-registered type gave {world()['history'].get('late:first_attempt')} (expected ClassNotSerializableError)")
    hist = world().get("history", {})
    if hist.get("clear:round_trip_before") != "ok" or hist.get("clear:new_instance") is not True or hist.get("clear:use_after_clear") != "ClassNotSerializableError":
        rep.note(f"history: registry clear_instance steps gave {hist}")
    if world().get("history", {}).get("rereg:first_round_trip") != "ok":
        rep.note(f"history: round trip under the first registration of ReReg gave {world()['history'].get('rereg:first_round_trip')}")
    rep.extra["known_finding_instances"] = kf_instances
    rep.samples = [{"case": d, "impl_outcome_kind": im[0]} for (_, d), im in list(zip(items, impls))[:: max(1, len(items) // 8)]][:8]

    for f in findings:
        wcases = [d for s, d in corpus if s == f.witness]
        if not wcases and not replay:
            rep.oblige(f"witness:{f.fid}", False, f"{f.witness} missing or empty")
            continue
        failing = failing_by_src.get(f.witness, [])
        if f.kind == "open":
            if failing:
                rep.known(f)
            elif not replay:
                rep.note(f"known finding {f.fid}: witness no longer fails (appears repaired)")
        else:
            for d in failing:
                if not any(d is b[0] for b in bad):
                    bad.append((d, run_impl(d), 3))
                rep.note(f"regression of fixed finding {f.fid}")

    # report the smallest failing cases first
    bad.sort(key=lambda b: len(json.dumps(b[0])))
    reported = set()
    for d, im, code in bad[:200]:
        if len(reported) >= 5:
            break
        d = shrink(d, im) if not replay else d
        im = run_impl(d)
        # one report per kind of failure: (classes involved, outcome kind) -- so different symptoms of one change all show
        sig = json.dumps([sorted({x[1] for x in walk(d) if x[0] == "o"}), im[:2] if im[0] in (20, 30) else im[0]])
        if sig in reported:
            continue
        reported.add(sig)
        try:
            exprs = [f"spec_round_trip {vterm(d)}"] + ([f"model_round_trip W {vterm(d)}"] if model_ok else [])
            vals = core.coq_eval_sx(PROP, header if model_ok else header_spec, exprs)
        except Exception as e:  # noqa
            vals = [f"<{e}>", None]
        rep.violation({"kind": "counterexample", "case": d, "impl": im, "spec": vals[0], "model": vals[1] if len(vals) > 1 else None,
                       "python": snippet(d), "explanation": EXPLAIN,
                       "classes": {str(cid): f"{m}:{'.'.join(q)}" for cid, m, q, _, _ in CLASSES}})
    return rep.finish()


def spec_py(d) -> Any:
    """the Spec's answer computed in Python (only used to shrink a failing case quickly; the decision is made in Coq)"""
    def e(x):
        k = x[0]
        if k == "n":
            return [0]
        if k == "b":
            return [1, int(x[1])]
        if k == "i":
            return [2, x[1]]
        if k == "f":
            return [3, x[1]]
        if k == "s":
            return [4, [ord(c) for c in x[1]]]
        if k == "l":
            return [5, [e(y) for y in x[1]]]
        return [6, x[1], enc_jv(x[2]), [e(y) for y in x[3]]]
    table = {cid: (m, q) for cid, m, q, _, _ in CLASSES}
    tags = [[ord(c) for c in table[x[1]][0] + "." + ".".join(table[x[1]][1])] for x in walk(d) if x[0] == "o"]
    return [0, e(d), tags]


def shrink(d, im):
    """greedy: replace the case by a failing sub-value / drop list elements and kids while it still fails (and is not K_local)"""
    if d[0] == "deep":
        return d

    def fails(x):
        return not has_local(x) and run_impl(x) != spec_py(x)
    if not fails(d):
        return d
    changed = True
    while changed:
        changed = False
        subs = []
        if d[0] == "l":
            subs = list(d[1]) + [["l", d[1][:i] + d[1][i + 1:]] for i in range(len(d[1]))]
        elif d[0] == "o":
            subs = list(d[3]) + [["o", d[1], d[2], d[3][:i] + d[3][i + 1:]] for i in range(len(d[3]))]
        for s in subs:
            if fails(s):
                d = s
                changed = True
                break
    return d
