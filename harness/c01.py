"""C01 -- EQL answers are exactly the satisfying assignments.  Model Eql/Eval.v (hand-written, variable level), Spec
Eql/Sat.v, theorems Props/C01.v; flatten / nested sub-queries: model Eql/EvalDep.v, Spec Eql/EvalDepSpec.v, theorems Props/C01b.v; tie: differential execution of implementation / model / Spec on generated queries
built through the public API (let, entity, set_of, and_, or_, not_, contains, comparison operators, attribute chains, indexing, method calls, exists, for_all)."""
from __future__ import annotations

from . import eqlcheck, eqlgen

PROP = "C01"


def run(tier: str, seed: int, replay=None) -> int:
    return eqlcheck.run_check(
        PROP, tier, seed, replay, profile="c01+quant", mode="set", n_quick=3000, n_thorough=120000,
        targets=["Props/C01.vo"], dep_prop="C01b",
        in_fragment=lambda c: eqlcheck.FRAG.get(eqlcheck.case_key(c), False),
        modelled_classes=["K_emptydom", "K_emptyflat", "K_quant_nofalse", "K_forall_open", "K_quant_shadow"],
        trusted=[
            "hand-written model Eql/EvalDep.v of Flatten (DomainMapping._evaluate__ + Flatten._apply_mapping_), of a ResultQuantifier over an Entity used as an operand "
            "(ResultQuantifier._evaluate__, QueryObjectDescriptor._evaluate__ / get_constrained_values / evaluate_selected_variables), of what Comparator.get_first_second_operands, "
            "optimize_or and Exists.other_variable_ids see of such nodes (their Variable instances / the Flatten nodes below), tied by differential execution (rows compared as sets; as sequences they agree too)",
            "hand-written model Eql/Eval.v of symbolic.py (Variable/Literal/Attribute/Comparator/AND/ElseIf/Union/Not/Exists/ForAll, "
            "QueryObjectDescriptor selection by nested loops under one assignment), tied by differential execution through the public API; for the logical operators "
            "and the decisions of or_/not_ the tie is additionally by translation: translator/t_symeval.py (generator bodies of "
            "Not/AND/OR/Union/ElseIf -> Gen/SymbolicEval.v, proved equal to the model in Eql/EvalSourceProofs.v) and "
            "translator/t_symbolic.py (optimize_or, the _invert_ table, not_/and_/or_, chained_logic -> Gen/SymbolicDecisions.v, "
            "proved equal to mk_or / mk_not in Eql/DecisionsProofs.v), regenerated on every run",
            "harness/eqlgen.py (case generator, world classes P/T, Gallina emission, canonicaliser) and harness/eqlcheck.py",
            "atomic comparison semantics apply_op / py_eq (Eql/Syntax.v) shared by model and Spec: Python ==, <, contains on ints, "
            "identity-compared objects, value-equal twins, lists compared as sets",
        ],
        assume=[
            "the model is variable level: a Comparator / logical node object occurs once; mapping nodes (attribute, index, call) used several times are generated (profile share) and must meet the Spec like trees (C01-e, repaired in da356f6)",
            "vocabulary modelled: variables over explicit domains, literals, attribute chains, ==,!=,<,<=,>,>=, contains/in_, and_, or_, not_, entity/set_of; "
            "exists/for_all are covered by the theorems under the static side conditions wfq / ok TS / ok TC (Props/C01.v: C01_q_sound_complete); the proved fragment of every generated case is the flag case_in_F01 COMPUTED IN COQ (theorem C01_fragment_flag), not a Python predicate; indexing and method calls on attribute values are modelled as one attribute step (functions of the value); flatten(e) and nested sub-queries z = an(entity(z0, c)) used as operands / selected expressions are GENERATED variables of the model Eql/EvalDep.v (the evaluator of Eql/Eval.v with the evaluation of a variable abstracted; with no declaration it IS that evaluator: C01b_conservative_eval / _run) with Spec Eql/EvalDepSpec.v and theorems Props/C01b.v (C01b_sound_complete for every quantifier-free main and sub-query condition, any selection, flatten of flatten; side condition: no variable can be left without a value -- empty domain / empty flattened collection / sub-query without answer are findings C01-h / C01-h2, C01b_refuted_emptyflat / _emptysub); every eighth generated case each is such a query (harness/eqlgen.py gen_flat_case / gen_subq_case, plus collections that may be empty, sub-queries that may have no answer, collections of value-equal twins), classified three ways like the ordinary cases: inside the flag dcase_in_FD COMPUTED IN COQ (theorem C01b_fragment_flag) implementation = Spec or VIOLATION and model = implementation (obligation correspondence:model-dep); outside it (exists over a flattened collection; the empty-range class) a disagreement is tolerated only for the listed open classes K_emptyflat / K_emptydom with implementation = model, anything else is a VIOLATION; the Spec\'s rows are additionally cross-checked on every such case against the first-order reading evaluated by the plain Spec Eql/Sat.v (z = flatten(e): a variable with the conjunct contains(e, z); z = an(entity(z0, c)): a variable over z0\'s domain with the conjunct c; obligation correspondence:dep-spec = spec_case; not applicable to collections of value-equal twins, where contains compares with ==); assumed for these constructs: a flatten / sub-query node is not used as the variable of for_all or as a bare condition (its truth flag is then refreshed), sub-query conditions do not quantify; predicates are C12, match is C11",
            "CPython generator protocol",
        ],
        rule=("seeded random queries (harness/eqlgen.py, profile c01): 1-3 variables over object / value-equal-twin / int domains of 0-4 "
              "elements (empty domains, duplicates, shared domains), conditions of depth <= 3 over comparisons, membership, set-equality "
              "of collections, object identity, and_/or_/not_; 1-3 selected expressions; compared as SETS of rows against the Spec "
              "(and against the model); plus flatten and sub-query cases (three-way against Eql/EvalDep.v / Eql/EvalDepSpec.v, fragment flag computed in Coq). distinct = distinct (world, domains, query); non-trivial = has a condition and a non-empty answer set"))
